(* engine `outstation`: the session model run over the annotated trace of the implementation.
   The ops of the script are the lines of the implementation's trace: `<t> op ...` lines are the
   events, `<t> > ...` lines the answers of the session's environment (database, real parser);
   every other line is an output the model has to predict and is ignored here. *)
open Model
open Driver

let z_of_int (i : int) : z = if i = 0 then Z0 else if i > 0 then Zpos (pos_of_int i) else Zneg (pos_of_int (-i))
let int_of_z = function Z0 -> 0 | Zpos p -> int_of_pos p | Zneg p -> - (int_of_pos p)
let nn s = n_of_int (int_of_string s)

let bcast_of = function
  | "none" -> None | "opt" -> Some BOptional | "mand" -> Some BMandatory | "notreq" -> Some BNotRequired
  | _ -> failwith "bad broadcast mode"

let split_on c s = String.split_on_char c s

let after_prefix p s =
  let lp = String.length p in
  if String.length s >= lp && String.sub s 0 lp = p then Some (String.sub s lp (String.length s - lp)) else None

let parse_hdr (tok : string) : whdr =
  (* tok is what follows the leading 'H' *)
  match split_on ':' tok with
  | "iin" :: [items] ->
    if items = "-" then WIin [] else
      WIin (List.map (fun it -> match split_on '=' it with
          | [i; v] -> (nn i, v <> "0") | _ -> failwith "bad iin item") (split_on ',' items))
  | ["abstime"; "none"] -> WAbsTime None
  | ["abstime"; t] -> WAbsTime (Some (nn t))
  | ["lrtime"; "none"] -> WLastRec None
  | ["lrtime"; t] -> WLastRec (Some (nn t))
  | ["cls"; c] -> WCls (nn c)
  | ["frz"; "all"] -> WFrzAll
  | ["frz"; a; b] -> WFrzRange (nn a, nn b)
  | ["ft"; "none"] -> WFt None
  | ["ft"; t; i] -> WFt (Some (nn t, nn i))
  | ["attr"] -> WAttr
  | ["db34"] -> WDb34
  | ["ctl"; g; v; p; items] ->
    let its = if items = "-" then [] else
        List.map (fun it -> match split_on '=' it with
            | [i; h] -> (nn i, unhex h) | _ -> failwith "bad control item") (split_on ',' items) in
    WCtl (nn g, nn v, nn p, its)
  | _ -> WOther

let parse_digest (toks : string list) : digest =
  let find k = List.find_map (fun t -> after_prefix (k ^ "=") t) toks in
  match find "hp" with
  | Some "insuf" -> DInsuf
  | Some hp when after_prefix "unkfn:" hp <> None ->
    (match split_on ':' hp with [_; s; c] -> DUnknown (nn s, nn c) | _ -> failwith "bad unkfn")
  | Some "ok" ->
    let ctl = nn (Option.get (find "ctl")) and fn = nn (Option.get (find "fn")) in
    let rv = if find "rv" = Some "ok" then RvOk else RvBad in
    let obj = match find "obj" with
      | Some "ok" ->
        let hdrs = List.filter_map (fun t -> if String.length t > 1 && t.[0] = 'H' then Some (parse_hdr (String.sub t 1 (String.length t - 1))) else None) toks in
        let rh = match find "rh" with Some "-" | None -> [] | Some s -> List.init (String.length s) (fun i -> s.[i] = '1') in
        ObjOk (hdrs, rh)
      | Some e -> (match split_on ':' e with [_; v] -> ObjErr (nn v) | _ -> failwith "bad obj")
      | None -> failwith "no obj" in
    DOk (ctl, fn, rv, obj)
  | _ -> failwith "bad digest"

let b s = s <> "0"

let parse_answer (toks : string list) : answer option =
  match toks with
  | ["iin2"; v] -> Some (AIin2 (nn v))
  | ["write"; c; e; body] -> Some (AWrite (b c, b e, unhex body))
  | ["unsol"; n; body] -> if n = "0" then None else Some (AUnsol (nn n, unhex body))
  | ["evinfo"; a; b1; c; o] -> Some (AEvinfo (b a, b b1, b c, b o))
  | _ -> None   (* added / updated / cb ... : not inputs of the session *)

let bool01 x = if x then "1" else "0"
let bcn = function OpSbo -> "sbo" | OpDo -> "do" | OpDoNr -> "donr"

let obs_text = function
  | OTx (d, bytes) -> Some (Printf.sprintf "tx %d %s" (int_of_n d) (hex bytes))
  | ODb c -> Some ("db " ^ (match c with
      | DbSelect -> "select" | DbWrite -> "write"
      | DbWriteUnsol (a, b, c) -> "write_unsol " ^ bool01 a ^ bool01 b ^ bool01 c
      | DbClearWritten -> "clear_written" | DbReset -> "reset" | DbEvinfo -> "evinfo"
      | DbDeferredSelect -> "deferred_select"))
  | OCb c -> Some ("cb " ^ (match c with
      | CbBeginFragment -> "begin_fragment" | CbEndFragment -> "end_fragment"
      | CbSelect (g, v, i, o) -> Printf.sprintf "select g%dv%d %d %s" (int_of_n g) (int_of_n v) (int_of_n i) (hex o)
      | CbOperate (g, v, i, t, o) -> Printf.sprintf "operate g%dv%d %d %s %s" (int_of_n g) (int_of_n v) (int_of_n i) (bcn t) (hex o)
      | CbWriteTime t -> Printf.sprintf "write_time %d" (int_of_n t)
      | CbColdRestart -> "cold_restart" | CbWarmRestart -> "warm_restart"
      | CbFreeze (ind, ft, t, i) ->
        Printf.sprintf "freeze %s %s" (match ind with None -> "all" | Some (a, b) -> Printf.sprintf "%d:%d" (int_of_n a) (int_of_n b))
          (match int_of_n ft with 0 -> "imm" | 1 -> "clear" | _ -> Printf.sprintf "at:%d:%d" (int_of_n t) (int_of_n i))
      | CbWriteAttr -> "write_attr"))
  | OInfo i -> Some ("info " ^ (match i with
      | IIdleRequest (f, s) -> Printf.sprintf "idle_request %d %d" (int_of_n f) (int_of_n s)
      | IBroadcast (f, a, arg) -> Printf.sprintf "broadcast %d %s" (int_of_n f)
                                    (match int_of_n a with 0 -> "processed" | 1 -> "ignored" | 2 -> "badobj" | _ -> Printf.sprintf "unsupported:%d" (int_of_n arg))
      | IEnterSolWait e -> Printf.sprintf "enter_sol_wait %d" (int_of_n e)
      | ISolTimeout e -> Printf.sprintf "sol_timeout %d" (int_of_n e)
      | ISolConfirmed e -> Printf.sprintf "sol_confirmed %d" (int_of_n e)
      | ISolNewRequest -> "sol_new_request"
      | ISolWrongSeq (e, s) -> Printf.sprintf "sol_wrong_seq %d %d" (int_of_n e) (int_of_n s)
      | IUnexpectedConfirm (u, s) -> Printf.sprintf "unexpected_confirm %s %d" (bool01 u) (int_of_n s)
      | IEnterUnsolWait e -> Printf.sprintf "enter_unsol_wait %d" (int_of_n e)
      | IUnsolTimeout (e, r) -> Printf.sprintf "unsol_timeout %d %s" (int_of_n e) (bool01 r)
      | IUnsolConfirmed e -> Printf.sprintf "unsol_confirmed %d" (int_of_n e)
      | IClearRestart -> "clear_restart_iin"))
  | OSessionEnd -> Some "session-end"
  | OMissingAnswer -> Some "model-missing-answer"
  | OOutOfFuel -> Some "model-out-of-fuel"
  | OAt _ -> None

let opt_restart s = match s with
  | "none" -> None
  | x -> (match split_on ':' x with
      | ["s"; v] -> Some (false, nn v) | ["ms"; v] -> Some (true, nn v) | _ -> failwith "bad restart delay")

let cfg_of (s : script) : ocfg = {
  o_master = n_of_int (cfg_int s "master" 1);
  o_any_master = cfg_int s "anymaster" 0 <> 0;
  o_unsol = cfg_int s "unsol" 0 <> 0;
  o_broadcast = cfg_int s "broadcast" 1 <> 0;
  o_confirm_ms = z_of_int (cfg_int s "confirm_ms" 5000);
  o_select_ms = z_of_int (cfg_int s "select_ms" 5000);
  o_retries = (match cfg_str s "retries" "none" with "none" -> None | x -> Some (nat_of_int (int_of_string x)));
  o_retry_delay_ms = z_of_int (cfg_int s "retry_delay_ms" 5000);
  o_max_controls = (match cfg_int s "maxctl" 0 with 0 -> None | x -> Some (n_of_int x));
  o_sol_tx = nat_of_int (cfg_int s "soltx" 2048);
  o_delay_ms = n_of_int (cfg_int s "delay" 0);
  o_cold = opt_restart (cfg_str s "cold" "none");
  o_warm = opt_restart (cfg_str s "warm" "none");
  o_wtime = n_of_int (cfg_int s "wtime" 0);
  o_freeze = n_of_int (cfg_int s "freeze" 1);
}

(* group the trace lines into events with their digest and answers *)
type ev = { op : string list; mutable dig : digest option; mutable answers : answer list }

let run_outstation_engine (s : script) : string list =
  let cfg = cfg_of s in
  let initial = { op = []; dig = None; answers = [] } in
  let evs = ref [initial] in
  List.iter (fun toks ->
      match toks with
      | _ :: "op" :: rest -> evs := { op = rest; dig = None; answers = [] } :: !evs
      | _ :: ">" :: "digest" :: rest -> (List.hd !evs).dig <- Some (parse_digest rest)
      | _ :: ">" :: rest ->
        (match parse_answer rest with
         | Some a -> let e = List.hd !evs in e.answers <- e.answers @ [a]
         | None -> ())
      | _ -> ()) s.ops;
  let evs = List.rev !evs in
  let out = ref [] in
  let now = ref 0 in
  let print obs =
    List.iter (fun o -> match o with
        | OAt t -> now := int_of_z t
        | _ -> (match obs_text o with Some l -> out := (string_of_int !now ^ " " ^ l) :: !out | None -> ())) obs in
  let st = ref (let (st0, o) = ostart cfg (n_of_int (cfg_int s "sel" 0)) (n_of_int (cfg_int s "op" 0))
                    (n_of_int (cfg_int s "appiin" 0)) (List.hd evs).answers in print o; st0) in
  List.iter (fun e ->
      let event = match e.op with
        | ["rx"; from; bc; h] ->
          (match e.dig with Some d -> Some (ERx (nn from, bcast_of bc, unhex h, d)) | None -> failwith "rx without digest")
        | ["sleep"; ms] -> Some (ESleep (z_of_int (int_of_string ms)))
        | "add" :: _ | "update" :: _ -> Some EDbChange
        | ["handler"; a; b] -> Some (EHandler (nn a, nn b))
        | ["appiin"; v] -> Some (EAppIin (nn v))
        | ["disconnect"] | ["bounce"] -> Some EDisconnect
        | _ -> failwith ("bad op " ^ String.concat " " e.op) in
      match event with
      | None -> ()
      | Some ev ->
        now := int_of_z (s_now !st);
        let (st1, o) = ostep cfg !st ev e.answers in
        print o; st := st1) (List.tl evs);
  List.rev !out

let () = register "outstation" run_outstation_engine
