(* engine tsync (property C18): the extracted model of Master/TimeSync.v run on the scripts of
   /verif/harness/tsync.rs.  Hand-written glue only: number conversion, script reader, printers, and a
   cross-check of the closed form `plain_sync` (the function the theorems are about) against the
   simulated engine `run_tsync` for scripts that declare themselves plain (cfg plain=1). *)
open Model
open Driver

let z_of_int (i : int) : z =
  if i = 0 then Z0 else if i > 0 then Zpos (pos_of_int i) else Zneg (pos_of_int (- i))
let int_of_z (x : z) : int = match x with Z0 -> 0 | Zpos p -> int_of_pos p | Zneg p -> - (int_of_pos p)

let terr_text = function
  | TsETimeout -> "timeout" | TsEIin2 -> "iin2" | TsEHeaders -> "headers" | TsEMultiFrag -> "multifrag"
  | TsEDelay d -> Printf.sprintf "delay %d" (int_of_z d) | TsEOverflow -> "overflow"
  | TsENeedTime -> "needtime" | TsENoSysTime -> "nosystime"

let procedure_of s = match cfg_str s "proc" "lan" with
  | "lan" -> TsLan | "nonlan" -> TsNonLan | "direct" -> TsDirect | _ -> failwith "bad procedure"
let mode_of s = match cfg_str s "need" "auto" with
  | "auto" -> TsNAuto | "stuck" -> TsNStuck | "clear" -> TsNClear | _ -> failwith "bad need mode"

let run_tsync_engine (s : script) : string list =
  let tokens = ref [] in
  let tok_id t =
    (match List.assoc_opt t !tokens with
     | Some i -> i
     | None -> let i = List.length !tokens in tokens := !tokens @ [(t, i)]; i) in
  let tok_name i = fst (List.find (fun (_, j) -> j = i) !tokens) in
  let zi x = z_of_int (int_of_string x) in
  let ops = List.map (function
    | ["sync"; t] -> TsOpSync (n_of_int (tok_id t))
    | ["fwd"; d] -> TsOpFwd (zi d) | ["back"; d] -> TsOpBack (zi d) | ["hold"; d] -> TsOpHold (zi d)
    | ["proc"; d] -> TsOpProc (zi d)
    | ["drop"; "fwd"] -> TsOpDrop false | ["drop"; "back"] -> TsOpDrop true
    | ["dup"; "fwd"; e] -> TsOpDup (false, zi e) | ["dup"; "back"; e] -> TsOpDup (true, zi e)
    | ["tamper"; "objs"; h] -> TsOpTamper (TsTObjs (unhex h))
    | ["tamper"; "iin"; h] -> (match unhex h with [a; b] -> TsOpTamper (TsTIin (a, b)) | _ -> failwith "bad tamper iin")
    | ["tamper"; "ctl"; h] -> (match unhex h with [a] -> TsOpTamper (TsTCtl a) | _ -> failwith "bad tamper ctl")
    | ["mclock"; "on"] -> TsOpClock true | ["mclock"; "off"] -> TsOpClock false
    | ["inject_master"; h] -> TsOpInject (unhex h)
    | ["run"; d] -> TsOpRun (zi d)
    | l -> failwith ("bad tsync op " ^ String.concat "_" l)) s.ops in
  let cfg = { tsc_c0 = z_of_int (cfg_int s "c0" 0); tsc_proc = procedure_of s;
              tsc_tmo = z_of_int (cfg_int s "timeout" 5000); tsc_mode = mode_of s } in
  let obs = run_tsync cfg ops in
  let arr = function Some a -> string_of_int (int_of_z a) | None -> "drop" in
  let lines = List.map (function
    | TsM2O (t, a, d) -> Printf.sprintf "m2o %d %s %s" (int_of_z t) (arr a) (hex d)
    | TsO2M (t, a, d) -> Printf.sprintf "o2m %d %s %s" (int_of_z t) (arr a) (hex d)
    | TsInj (t, d) -> Printf.sprintf "inj %d %s" (int_of_z t) (hex d)
    | TsWritten (t, v) -> Printf.sprintf "written %d %d" (int_of_z t) (int_of_z v)
    | TsRes (tok, None) -> Printf.sprintf "res %s ok" (tok_name (int_of_n tok))
    | TsRes (tok, Some e) -> Printf.sprintf "res %s err %s" (tok_name (int_of_n tok)) (terr_text e)
    | TsClock (t, Some c) -> Printf.sprintf "clock %d %d" (int_of_z t) (int_of_z c)
    | TsClock (t, None) -> Printf.sprintf "clock %d none" (int_of_z t)
    | TsAmbiguous -> "ambiguous"
    | TsUnsupported -> "unsupported"
    | TsStall -> "model-out-of-fuel") obs in
  (* closed form against the simulated engine *)
  if cfg_int s "plain" 0 = 0 then lines else begin
    let p = { tsp_c0 = cfg.tsc_c0; tsp_on = (cfg_int s "pon" 1 <> 0); tsp_t0 = z_of_int (cfg_int s "pt0" 0);
              tsp_f1 = z_of_int (cfg_int s "pf1" 0); tsp_b1 = z_of_int (cfg_int s "pb1" 0);
              tsp_f2 = z_of_int (cfg_int s "pf2" 0); tsp_b2 = z_of_int (cfg_int s "pb2" 0);
              tsp_tmo = cfg.tsc_tmo; tsp_rep = z_of_int (min 65535 (cfg_int s "prep" 0)); tsp_mode = cfg.tsc_mode;
              tsp_need0 = (cfg.tsc_mode <> TsNClear); tsp_rec0 = None } in
    let tok = cfg_str s "ptok" "a" in
    let expect_res, expect_written = match plain_sync cfg.tsc_proc p with
      | TsSuccess (w, t) -> (Printf.sprintf "res %s ok" tok, Some (Printf.sprintf "written %d %d" (int_of_z t) (int_of_z w)))
      | TsFailure e -> (Printf.sprintf "res %s err %s" tok (terr_text e), None) in
    let res_ok = List.mem expect_res lines in
    let written_ok = match expect_written with
      | Some w -> List.mem w lines
      | None -> true in
    if res_ok && written_ok then lines
    else lines @ [Printf.sprintf "closed-form-mismatch expected: %s / %s" expect_res
                    (match expect_written with Some w -> w | None -> "-")]
  end

let () = register "tsync" run_tsync_engine
