open Model
open Driver

(* ---- conv engine (C10): the trips of /verif/harness/conv.rs through the extracted model ------- *)
(* numbers up to 2^64 do not fit an OCaml int: decimal / hex strings <-> Coq N without native ints *)
let n_two = n_of_int 2
let n_ten = n_of_int 10
let n_sixteen = n_of_int 16

let n_of_digits (base : n) (digit : char -> int) (s : string) : n =
  let acc = ref N0 in
  String.iter (fun c -> acc := N.add (N.mul !acc base) (n_of_int (digit c))) s;
  !acc
let dec_digit c = if c >= '0' && c <= '9' then Char.code c - 48 else failwith "bad decimal"
let hex_digit c =
  if c >= '0' && c <= '9' then Char.code c - 48
  else if c >= 'a' && c <= 'f' then Char.code c - 87
  else if c >= 'A' && c <= 'F' then Char.code c - 55 else failwith "bad hex"
let n_of_dec s = n_of_digits n_ten dec_digit s
let n_of_hex s = n_of_digits n_sixteen hex_digit s

let rec string_of_n_base (base : n) (x : n) : string =
  let digits = "0123456789abcdef" in
  let (q, r) = N.div_eucl x base in
  let d = String.make 1 digits.[int_of_n r] in
  if q = N0 then d else string_of_n_base base q ^ d
let dec_of_n x = string_of_n_base n_ten x
let hex16_of_n x = let s = string_of_n_base n_sixteen x in String.make (max 0 (16 - String.length s)) '0' ^ s

let gv_of s =
  (* g<G>v<V> *)
  let i = String.index s 'v' in
  (n_of_dec (String.sub s 1 (i - 1)), n_of_dec (String.sub s (i + 1) (String.length s - i - 1)))

let is_analog ty = ty = "ai" || ty = "aos" || ty = "fai"

let time_of s =
  if s = "n" then None
  else let q = (match s.[0] with 's' -> Sync | 'u' -> Unsync | _ -> failwith "bad time") in
    Some (q, n_of_dec (String.sub s 1 (String.length s - 1)))
let time_text = function
  | None -> "n"
  | Some (Sync, t) -> "s" ^ dec_of_n t
  | Some (Unsync, t) -> "u" ^ dec_of_n t

let static_group = function
  | "bi" -> 1 | "dbi" -> 3 | "bos" -> 10 | "ctr" -> 20 | "fctr" -> 21 | "ai" -> 30 | "aos" -> 40 | "oct" -> 110
  | _ -> failwith "bad type"
let event_group = function
  | "bi" -> 2 | "dbi" -> 4 | "bos" -> 11 | "ctr" -> 22 | "fctr" -> 23 | "ai" -> 32 | "aos" -> 42 | "oct" -> 111
  | _ -> failwith "bad type"

let type_text = function
  | OT BI -> "bi" | OT DBI -> "dbi" | OT BOS -> "bos" | OT CTR -> "ctr" | OT FCTR -> "fctr"
  | OT AI -> "ai" | OT AOS -> "aos" | OT FAI -> "fai" | OOct -> "oct"

let rec entries ty group = function
  | [] -> []
  | idx :: var :: value :: flags :: time :: rest ->
    let (value_n, bytes) =
      if ty = "oct" then (N0, unhex value)
      else if is_analog ty then (n_of_hex value, [])
      else (n_of_dec value, []) in
    let v = if ty = "oct" then N0 else snd (gv_of var) in
    { cp_idx = n_of_dec idx; cp_group = n_of_int group; cp_var = v;
      cp_meas = { cm_value = value_n; cm_flags = n_of_dec flags; cm_time = time_of time; cm_bytes = bytes } }
    :: entries ty group rest
  | _ -> failwith "entry count does not match"

let obs_lines (raw, res) =
  ("raw " ^ hex raw) ::
  (match res with
   | None -> ["parse-error"]
   | Some obs -> List.map (function
       | OHdr (g, v, q, ie, hf) ->
         Printf.sprintf "hdr %d %d %d %d %d" (int_of_n g) (int_of_n v) (int_of_n q) (if ie then 1 else 0) (if hf then 1 else 0)
       | OMeas (t, idx, m) ->
         let value = (match t with
             | OOct -> hex m.cm_bytes
             | OT (AI | AOS | FAI) -> hex16_of_n m.cm_value
             | _ -> dec_of_n m.cm_value) in
         Printf.sprintf "m %s %d %s %d %s" (type_text t) (int_of_n idx) value (int_of_n m.cm_flags) (time_text m.cm_time)) obs)

let parse_selector s =
  (* g<G>v<V> or g<G>v<V>:a-b *)
  match String.index_opt s ':' with
  | None -> (gv_of s, None)
  | Some i ->
    let r = String.sub s (i + 1) (String.length s - i - 1) in
    let j = String.index r '-' in
    (gv_of (String.sub s 0 i),
     Some (n_of_dec (String.sub r 0 j), n_of_dec (String.sub r (j + 1) (String.length r - j - 1))))

let run_conv_engine (s : script) : string list =
  let lines = List.concat_map (fun op ->
      match op with
      | kind :: ty :: sel :: n :: rest ->
        if List.length rest <> 5 * int_of_string n then failwith "entry count does not match";
        (match kind with
         | "st" ->
           let pts = entries ty (static_group ty) rest in
           let selection =
             if sel = "c0" then { sel_var = N0; sel_range = None }
             else let ((_, v), r) = parse_selector sel in { sel_var = v; sel_range = r } in
           obs_lines (trip_static selection pts)
         | "ev" ->
           let evs = entries ty (event_group ty) rest in
           (* the event variation of a cpoint is the one of its first occurrence *)
           let first = Hashtbl.create 8 in
           let evs = List.map (fun p ->
               let k = int_of_n p.cp_idx in
               if not (Hashtbl.mem first k) then Hashtbl.add first k p.cp_var;
               { p with cp_var = Hashtbl.find first k }) evs in
           let req = if sel = "c1" || sel = "r1" then N0 else snd (fst (parse_selector sel)) in
           obs_lines (trip_event req evs)
         | _ -> failwith "bad op")
      | _ -> failwith "bad op") s.ops in
  lines @ ["end"]

let () = register "conv" run_conv_engine
