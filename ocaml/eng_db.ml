open Model
open Driver

(* ---- db engine: the extracted Outstation/Database.v behind the script language of
   /verif/harness/db.rs (same ops, same observation lines) -------------------------------------- *)

(* numbers that do not fit an OCaml int are built / printed bit by bit *)
let n_double = function N0 -> N0 | Npos p -> Npos (XO p)
let n_succ_double = function N0 -> Npos XH | Npos p -> Npos (XI p)
let n_of_hex (s : string) : n =
  let acc = ref N0 in
  String.iter (fun c ->
    let d = int_of_string ("0x" ^ String.make 1 c) in
    for k = 3 downto 0 do
      acc := if (d lsr k) land 1 = 1 then n_succ_double !acc else n_double !acc
    done) s;
  !acc
let rec pos_bits (p : positive) : int list = (* least significant first *)
  match p with XH -> [1] | XO q -> 0 :: pos_bits q | XI q -> 1 :: pos_bits q
let hex16_of_n (x : n) : string =
  let bits = Array.make 64 0 in
  (match x with N0 -> () | Npos p -> List.iteri (fun i b -> if i < 64 then bits.(i) <- b) (pos_bits p));
  String.concat "" (List.init 16 (fun k ->
    let base = 60 - 4 * k in
    Printf.sprintf "%x" (bits.(base) + 2 * bits.(base+1) + 4 * bits.(base+2) + 8 * bits.(base+3))))
let n_of_dec (s : string) : n = n_of_int (int_of_string s)
let dec (x : n) : string = string_of_int (int_of_n x)

let ptype_of = function
  | "bi" -> TBinary | "dbi" -> TDoubleBit | "bos" -> TBos | "ctr" -> TCounter
  | "fctr" -> TFrozen | "ai" -> TAnalog | "aos" -> TAos | "oct" -> TOctet
  | x -> failwith ("bad type " ^ x)

let gv (s : string) : int * int =
  Scanf.sscanf s "g%dv%d" (fun g v -> (g, v))

let svar_tok s = let (g, v) = gv s in
  match svar_of (n_of_int g) (n_of_int v) with Some x -> x | None -> failwith ("bad svar " ^ s)
let evar_tok s = let (g, v) = gv s in
  match evar_of (n_of_int g) (n_of_int v) with Some x -> x | None -> failwith ("bad evar " ^ s)

let class_of = function
  | "0" -> None | "1" -> Some Class1 | "2" -> Some Class2 | "3" -> Some Class3
  | x -> failwith ("bad class " ^ x)

let time_of (s : string) : (bool * n) option =
  if s = "n" then None
  else
    let v = n_of_dec (String.sub s 1 (String.length s - 1)) in
    match s.[0] with 's' -> Some (true, v) | 'u' -> Some (false, v) | _ -> failwith "bad time"
let time_text = function
  | None -> "n"
  | Some (true, v) -> "s" ^ dec v
  | Some (false, v) -> "u" ^ dec v

let mode_of (s : string) : bool * event_mode =
  (s.[1] = '1', match s.[0] with 'd' -> Detect | 'f' -> Force | 's' -> Suppress | _ -> failwith "bad mode")

let is_analog = function TAnalog | TAos -> true | _ -> false

let meas_of (t : ptype) (v : string) (flags : string) (time : string) : meas =
  match t with
  | TOctet -> { m_val = N0; m_flags = n_of_dec flags; m_time = time_of time; m_oct = unhex v }
  | TAnalog | TAos -> { m_val = n_of_hex v; m_flags = n_of_dec flags; m_time = time_of time; m_oct = [] }
  | _ -> { m_val = n_of_dec v; m_flags = n_of_dec flags; m_time = time_of time; m_oct = [] }

let info_text prefix = function
  | UNoPoint -> prefix ^ " nopoint"
  | UNoEvent -> prefix ^ " noevent"
  | UCreated id -> Printf.sprintf "%s created %s" prefix (dec id)
  | UOverflow (c, d) -> Printf.sprintf "%s overflow %s %s" prefix (dec c) (dec d)

let b01 b = if b then "1" else "0"

(* one traversal for both output modes: per operation the text line of the trace and the numeric code of the
   same result computed by the EXTRACTED serialiser of coq/Codes/CodesDb.v (extraction cross-check) *)
let db_traverse (s : script) : (string * n list) list =
  let ci k = n_of_int (cfg_int s k 0) in
  let cfg = { max_bi = ci "mb"; max_dbi = ci "mdb"; max_bos = ci "mbos"; max_ctr = ci "mc";
              max_fctr = ci "mfc"; max_ai = ci "ma"; max_aos = ci "maos"; max_oct = ci "mo" } in
  let c0s = cfg_str s "c0" "11111110" in
  let c0 (t : ptype) : bool =
    let k = match t with TBinary -> 0 | TDoubleBit -> 1 | TBos -> 2 | TCounter -> 3
                       | TFrozen -> 4 | TAnalog -> 5 | TAos -> 6 | TOctet -> 7 in
    c0s.[k] = '1' in
  let maxsel = match List.assoc_opt "maxsel" s.cfg with Some x -> Some (n_of_dec x) | None -> None in
  let d = ref (db_new maxsel c0 cfg) in
  let obs = ref [] in
  let emit l c = obs := (l, c) :: !obs in
  List.iter (fun op ->
    match op with
    | "add" :: ty :: idx :: cl :: sv :: ev :: rest ->
      let t = ptype_of ty in
      let deadband = match t, rest with
        | (TCounter | TFrozen), [x] -> n_of_dec x
        | (TAnalog | TAos), [x] -> n_of_hex x
        | _ -> N0 in
      let pc = if t = TOctet then { pc_class = class_of cl; pc_svar = G110; pc_evar = G111; pc_deadband = N0 }
        else { pc_class = class_of cl; pc_svar = svar_tok sv; pc_evar = evar_tok ev; pc_deadband = deadband } in
      if is_analog t && deadband <> N0 then failwith "analog dead-band other than 0.0 is not modelled";
      let (d', ok) = db_add !d t (n_of_dec idx) pc in
      d := d'; emit ("add " ^ b01 ok) (cx_db_add ok)
    | ["rm"; ty; idx] ->
      let (d', ok) = db_remove !d (ptype_of ty) (n_of_dec idx) in
      d := d'; emit ("rm " ^ b01 ok) (cx_db_rm ok)
    | ["upd"; ty; idx; v; flags; time; mode] ->
      let t = ptype_of ty in
      let (us, m) = mode_of mode in
      let (d', info) = db_update !d t (n_of_dec idx) (meas_of t v flags time) us m in
      d := d'; emit (info_text "upd" info) (cx_db_upd info)
    | ["updf"; ty; idx; flags; time; mode] ->
      let (us, m) = mode_of mode in
      let (d', info) = db_update_flags !d (ptype_of ty) (n_of_dec idx) (n_of_dec flags) (time_of time) us m in
      d := d'; emit (info_text "updf" info) (cx_db_updf info)
    | ["get"; ty; idx] ->
      let t = ptype_of ty in
      let r = db_get !d t (n_of_dec idx) in
      let emit l = emit l (cx_db_get r) in
      (match r with
       | None -> emit "get none"
       | Some m ->
         let v = match t with
           | TOctet -> hex m.m_oct
           | TAnalog | TAos -> hex16_of_n m.m_val
           | _ -> dec m.m_val in
         if t = TOctet then emit (Printf.sprintf "get %s 0 n" v)
         else emit (Printf.sprintf "get %s %s %s" v (dec m.m_flags) (time_text m.m_time)))
    | "sel" :: g :: v :: q ->
      let q = match q with
        | ["all"] -> QAll
        | ["c8"; n] | ["c16"; n] -> QCount (n_of_dec n)
        | ["r8"; a; b] | ["r16"; a; b] -> QRange (n_of_dec a, n_of_dec b)
        | _ -> failwith "bad qualifier" in
      (match read_header_of (n_of_dec g) (n_of_dec v) q with
       | None -> emit "sel unsupported" (cx_db_sel None)
       | Some h ->
         let (d', iin) = db_select !d h in
         d := d'; emit ("sel " ^ dec iin) (cx_db_sel (Some iin)))
    | ["selm"; m] ->
      let (d', n) = db_select_event_classes !d (m.[0] = '1') (m.[1] = '1') (m.[2] = '1') in
      d := d'; emit ("selm " ^ dec n) (cx_db_selm n)
    | ["wr"; budget] ->
      let (d', r) = db_write_response !d (n_of_dec budget) in
      let ((bytes, has_events), complete) = r in
      d := d'; emit (Printf.sprintf "wr %s %s %s" (hex bytes) (b01 has_events) (b01 complete)) (cx_db_wr r)
    | ["wre"; budget] ->
      let (d', r) = db_write_events_only !d (n_of_dec budget) in
      let (bytes, n) = r in
      d := d'; emit (Printf.sprintf "wre %s %s" (hex bytes) (dec n)) (cx_db_wre r)
    | ["clr"] ->
      let (d', r) = db_clear_written !d in
      let (ids, c) = r in
      let emit l = emit l (cx_db_clr r) in
      d := d';
      let ids = if ids = [] then "-" else String.concat " " (List.map dec ids) in
      emit (Printf.sprintf "clr %s | %s %s %s | %s %s %s %s %s %s %s %s" ids
              (dec c.c_c1) (dec c.c_c2) (dec c.c_c3)
              (dec c.c_bi) (dec c.c_dbi) (dec c.c_bos) (dec c.c_ctr) (dec c.c_fctr)
              (dec c.c_ai) (dec c.c_aos) (dec c.c_oct))
    | ["rst"] -> d := db_reset !d; emit "rst" cx_db_rst
    | ["iin"] ->
      let cl = db_unwritten_classes !d in
      let ((c1, c2), c3) = cl in
      let ovf = db_is_overflown !d in
      emit (Printf.sprintf "iin %s%s%s %s" (b01 c1) (b01 c2) (b01 c3) (b01 ovf)) (cx_db_iin cl ovf)
    | _ -> failwith ("db engine: bad op " ^ String.concat "_" op)) s.ops;
  List.rev !obs

let run_db_engine (s : script) : string list = List.map fst (db_traverse s) @ ["end"]
let run_db_codes (s : script) : string list = List.map (fun (_, c) -> code_line c) (db_traverse s)

let () = register "db" run_db_engine; register_coder "db" run_db_codes
