(* engine `msfull` (second pass of C17, C19): engine `msched` (eng_msched.ml, same scripts, same lines) with the
   received fragment computed in Coq (Master/MSFull.v) instead of parsed by the glue.
   Hand-written glue: script ops -> model events, observations -> text lines in the
   canonical order of /verif/harness/msched.rs: sorted by (time, stream), stream 0 = callbacks of
   the master task (conn/closed/cb/info/txlink), 1 = fragments written, 2 = completions of user
   requests, 3 = now.  Model-only observations (MsOUnsolIgnored, MsOSleep, MsORestartSeen, MsOCleared, MsOAssoc,
   MsOLinkEnd) are not printed. *)
open Model
open Driver

(* ---- numbers ------------------------------------------------------------------------------------ *)
let z_of_int (i : int) : z = if i = 0 then Z0 else if i > 0 then Zpos (pos_of_int i) else Zneg (pos_of_int (-i))
let int_of_z (x : z) : int = match x with Z0 -> 0 | Zpos p -> int_of_pos p | Zneg p -> - (int_of_pos p)

let z_of_string (s : string) : z =
  let acc = ref Z0 in
  String.iter (fun c ->
    if c < '0' || c > '9' then failwith "bad decimal";
    acc := ms_zadd (ms_zmul !acc (z_of_int 10)) (z_of_int (Char.code c - 48))) s;
  !acc

let rec string_of_z (x : z) : string =
  match x with
  | Z0 -> "0"
  | Zneg p -> "-" ^ string_of_z (Zpos p)
  | Zpos _ ->
    let base = z_of_int 1000000000 in
    let q = ms_zdiv x base and r = int_of_z (ms_zmod x base) in
    if q = Z0 then string_of_int r else string_of_z q ^ Printf.sprintf "%09d" r

(* ---- configuration -------------------------------------------------------------------------------- *)
let assoc_cfg (spec : string) =
  match List.map int_of_string (String.split_on_char ':' spec) with
  | [dis; integ; en; ts; ovf; ev; rmin; rmax; ka; rto; maxq] ->
    { ms_c_disable = n_of_int dis; ms_c_integrity = n_of_int integ; ms_c_enable = n_of_int en;
      ms_c_tsync = n_of_int ts; ms_c_ovf = (ovf <> 0); ms_c_evscan = n_of_int ev;
      ms_c_rmin = z_of_int rmin; ms_c_rmax = z_of_int rmax;
      ms_c_keepalive = (if ka = 0 then None else Some (z_of_int ka));
      ms_c_rto = z_of_int rto; ms_c_maxq = nat_of_int maxq }
  | _ -> failwith "association spec needs 11 fields"

let systime_of = function "none" -> None | x -> Some (z_of_string x)

(* ---- received fragments ---------------------------------------------------------------------------- *)
(* engine `msched` reads the header fields and the objects with a hand-written three-form grammar here; this
   engine has NO parser in its glue: the extracted [ms_rx_of] (Master/MSFull.v: MParse + App/Grammar.v + the
   conversion model of C10) computes the whole record from the octets *)
let parse_rx (bytes : n list) = ms_rx_of bytes

(* ---- printing ----------------------------------------------------------------------------------------- *)
let err_text = function
  | MsETooManyRequests -> "too-many-requests" | MsELink -> "link" | MsETransport -> "transport"
  | MsEIin2 -> "iin2" | MsEMalformed -> "malformed" | MsEUnexpectedHeaders -> "unexpected-headers"
  | MsENonFinWithoutCon -> "non-fin-without-con" | MsENeverFir -> "never-fir"
  | MsEUnexpectedFir -> "unexpected-fir" | MsEMultiFragment -> "multi-fragment"
  | MsETimeout -> "timeout" | MsENoConnection -> "no-connection" | MsEDisabled -> "disabled"
  | MsEBadDelay -> "bad-delay" | MsEOverflow -> "overflow" | MsEStillNeedsTime -> "still-needs-time"
  | MsENoSystemTime -> "no-system-time"

let ttype_text = function
  | MsKUserRead -> "user-read" | MsKPoll -> "poll" | MsKIntegrity -> "integrity"
  | MsKEventScan -> "event-scan" | MsKClearRestart -> "clear-restart" | MsKEnableUnsol -> "enable-unsol"
  | MsKDisableUnsol -> "disable-unsol" | MsKTimeSync -> "time-sync" | MsKEmpty -> "empty-7"

let rtype_text = function
  | MsRtIntegrity -> "integrity" | MsRtUnsol -> "unsol" | MsRtSingle -> "single" | MsRtPoll -> "poll"

let idx (a : n) = int_of_n a - 1024

(* (time, stream, line) *)
let render (o : ms_obs) : (int * int * string) option =
  let t x = int_of_z x in
  match o with
  | MsOConn x -> Some (t x, 0, Printf.sprintf "conn %d" (t x))
  | MsOClosed (x, e) -> Some (t x, 0, Printf.sprintf "closed %d %s" (t x) (err_text e))
  | MsOTx (x, b) -> Some (t x, 1, Printf.sprintf "tx %d %s" (t x) (hex b))
  | MsOTxLink (x, a, _) -> Some (t x, 0, Printf.sprintf "txlink %d %d" (t x) (idx a))
  | MsOCb (x, a, rt, n) -> Some (t x, 0, Printf.sprintf "cb %d %d %s %d" (t x) (idx a) (rtype_text rt) (int_of_n n))
  | MsOStart (x, a, k, fc, s) ->
    Some (t x, 0, Printf.sprintf "info %d %d start %s %d %d" (t x) (idx a) (ttype_text k) (int_of_n fc) (int_of_n s))
  | MsOOk (x, a, k, fc, s) ->
    Some (t x, 0, Printf.sprintf "info %d %d ok %s %d %d" (t x) (idx a) (ttype_text k) (int_of_n fc) (int_of_n s))
  | MsOFail (x, a, k, e) ->
    Some (t x, 0, Printf.sprintf "info %d %d fail %s %s" (t x) (idx a) (ttype_text k) (err_text e))
  | MsOUnsol (x, a, dup, s) ->
    Some (t x, 0, Printf.sprintf "info %d %d unsol %d %d" (t x) (idx a) (if dup then 1 else 0) (int_of_n s))
  | MsORes (x, tok, None) -> Some (t x, 2, Printf.sprintf "res %d %d ok" (t x) (int_of_n tok))
  | MsORes (x, tok, Some e) -> Some (t x, 2, Printf.sprintf "res %d %d err %s" (t x) (int_of_n tok) (err_text e))
  | MsONow x -> Some (t x, 3, Printf.sprintf "now %d" (t x))
  | MsOStall x -> Some (max_int, 4, "stall")
  | MsOUnsolIgnored _ | MsOSleep _ | MsORestartSeen _ | MsOCleared _ | MsOAssoc _ | MsOLinkEnd _ -> None

(* ---- the engine ------------------------------------------------------------------------------------------- *)
let fuel = lazy (nat_of_int 300000)

let dur_of (s : string) : z =
  match String.split_on_char ':' s with
  | [a; b] -> ms_zadd (ms_zmul (z_of_string a) (z_of_int 1000000000)) (z_of_string b)
  | _ -> failwith "secs:nanos"
let dur_text (x : z) : string =
  let base = z_of_int 1000000000 in
  string_of_z (ms_zdiv x base) ^ ":" ^ string_of_z (ms_zmod x base)

let backoff_line = function
  | [_; mn; mx; n] ->
    let (ds, again) = ms_run_backoff ms_limit_ns (dur_of mn) (dur_of mx) (nat_of_int (int_of_string n)) in
    "delays" ^ String.concat "" (List.map (fun d -> " " ^ dur_text d) ds) ^ " reset " ^ dur_text again
  | _ -> failwith "backoff <min> <max> <n>"

(* one script = a model state, the observations so far and the number of polls per association *)
type item = Obs of ms_obs | Line of (int * int * string)
type runner = { mutable st : ms_mstate; mutable out : item list; npolls : int array }

let feed (r : runner) ev =
  let (st1, o) = ms_mstep (Lazy.force fuel) r.st ev in
  r.st <- st1; r.out <- List.rev_append (List.map (fun x -> Obs x) o) r.out

let start_runner (s : script) : runner =
  let n = cfg_int s "n" 1 in
  let r = { st = ms_set_systime ms_m_init (systime_of (cfg_str s "systime" "none")); out = [];
            npolls = Array.make n 0 } in
  feed r MsEStart;
  for i = 0 to n - 1 do
    feed r (MsEAddAssoc (n_of_int (1024 + i), assoc_cfg (cfg_str s (Printf.sprintf "a%d" i) "0:0:0:0:0:0:1000:10000:0:1000:16")))
  done;
  feed r (MsETick (z_of_int 1));
  r

let exec_op (r : runner) (op : string list) : unit =
  (match op with
   | ("user" | "demand" | "add_poll" | "enable" | "disable" | "reconnect") :: _ ->
     let t = int_of_z r.st.ms_m_now in
     r.out <- Line (t, 0, Printf.sprintf "op %d %s" t (String.concat " " op)) :: r.out
   | _ -> ());
  (match op with
   | ["rx"; from; h] ->
     let b = unhex h in
     (* the harness hands a fragment to the master only while it is connected, and marks it *)
     if b <> [] && (match r.st.ms_m_phase with MsPDown -> false | _ -> true) then begin
       let t = int_of_z r.st.ms_m_now in
       r.out <- Line (t, 0, Printf.sprintf "rx %d %s" t from) :: r.out;
       feed r (MsERx (n_of_int (int_of_string from), parse_rx b))
     end
   | ["sleep"; d] -> feed r (MsETick (z_of_string d))
   | ["add_poll"; a; period; m] ->
     let a = int_of_string a in
     r.npolls.(a) <- r.npolls.(a) + 1;
     feed r (MsEAddPoll (n_of_int (1024 + a), z_of_string period, n_of_int (int_of_string m)))
   | ["demand"; a; p] ->
     let a = int_of_string a and p = int_of_string p in
     if p < r.npolls.(a) then feed r (MsEDemand (n_of_int (1024 + a), n_of_int p))
   | "user" :: a :: tok :: kind :: rest ->
     let arg = match rest with x :: _ -> int_of_string x | [] -> 0 in
     let k = match kind with
       | "read" -> MsUKRead (n_of_int arg) | "link" -> MsUKLink | "empty" -> MsUKEmpty
       | "tsync" -> MsUKTsync (n_of_int arg) | _ -> failwith "unknown user request kind" in
     feed r (MsEUser (n_of_int (1024 + int_of_string a), n_of_int (int_of_string tok), k))
   | ["enable"] -> feed r MsEEnable
   | ["disable"] -> feed r MsEDisable
   | ["reconnect"] -> feed r MsEReconnect
   | ["systime"; v] -> feed r (MsESysTime (systime_of v))
   | ["now"] -> feed r MsENowEv
   | _ -> failwith "unknown msched op");
  feed r (MsETick (z_of_int 1))

let run_msfull_engine (s : script) : string list =
  if List.for_all (function "backoff" :: _ -> true | _ -> false) s.ops then
    List.map backoff_line s.ops @ ["end"]
  else begin
    let r = start_runner s in
    List.iter (exec_op r) s.ops;
    let rendered = List.filter_map (function Obs o -> render o | Line l -> Some l) (List.rev r.out) in
    let indexed = List.mapi (fun i (t, stream, l) -> (t, stream, i, l)) rendered in
    let sorted = List.sort compare indexed in
    let lines = List.map (fun (_, _, _, l) -> l) sorted in
    if List.mem "stall" lines then List.filter (fun l -> l <> "stall") lines @ ["stall"]
    else lines @ ["end"]
  end

let () = register "msfull" run_msfull_engine
