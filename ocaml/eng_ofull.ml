(* engine `ofull`: the COMPOSED outstation model (coq/Outstation/Full.v: parser digest from App/Grammar.v,
   session from Outstation/Session.v, database from Outstation/Database.v).  Its input is the ORIGINAL
   script of the `outstation` engine (ops rx / sleep / add / update / handler / appiin / disconnect), not
   the implementation's trace; its output is line for line the trace the harness prints
   (harness/outstation.rs + hooks H5), including the `op`, `> digest`, `> <answer>`, `> cb`, `> txparse`
   and `end` lines. *)
open Model
open Driver

let z_of_int (i : int) : z = if i = 0 then Z0 else if i > 0 then Zpos (pos_of_int i) else Zneg (pos_of_int (-i))
let int_of_z = function Z0 -> 0 | Zpos p -> int_of_pos p | Zneg p -> - (int_of_pos p)
let nn s = n_of_int (int_of_string s)

let bcast_of = function
  | "none" -> None | "opt" -> Some BOptional | "mand" -> Some BMandatory | "notreq" -> Some BNotRequired
  | _ -> failwith "bad broadcast mode"

let split_on c s = String.split_on_char c s
let bool01 x = if x then "1" else "0"
let bcn = function OpSbo -> "sbo" | OpDo -> "do" | OpDoNr -> "donr"
let d x = string_of_int (int_of_n x)

(* numbers that do not fit an OCaml int: the 64 bits of an f64 *)
let n_of_int64 (x : int64) : n =
  let acc = ref N0 in
  for k = 63 downto 0 do
    let bit = Int64.logand (Int64.shift_right_logical x k) 1L = 1L in
    acc := (match !acc with
        | N0 -> if bit then Npos XH else N0
        | Npos p -> Npos (if bit then XI p else XO p))
  done;
  !acc

(* ---- printing ----------------------------------------------------------------------------------- *)

let hdr_text (h : whdr) : string =
  match h with
  | WIin bits ->
    "iin:" ^ (if bits = [] then "-" else String.concat "," (List.map (fun (i, v) -> d i ^ "=" ^ bool01 v) bits))
  | WAbsTime None -> "abstime:none"
  | WAbsTime (Some t) -> "abstime:" ^ d t
  | WLastRec None -> "lrtime:none"
  | WLastRec (Some t) -> "lrtime:" ^ d t
  | WCls c -> "cls:" ^ d c
  | WFrzAll -> "frz:all"
  | WFrzRange (a, b) -> Printf.sprintf "frz:%s:%s" (d a) (d b)
  | WFt None -> "ft:none"
  | WFt (Some (t, i)) -> Printf.sprintf "ft:%s:%s" (d t) (d i)
  | WAttr -> "attr"
  | WDb34 -> "db34"
  | WCtl (g, v, p, items) ->
    Printf.sprintf "ctl:%s:%s:%s:%s" (d g) (d v) (d p)
      (if items = [] then "-" else String.concat "," (List.map (fun (i, o) -> d i ^ "=" ^ hex o) items))
  | WOther -> "other"

let digest_text (dg : digest) (rv : n) : string =
  match dg with
  | DInsuf -> "hp=insuf"
  | DUnknown (seq, code) -> Printf.sprintf "hp=unkfn:%s:%s" (d seq) (d code)
  | DOk (ctl, fn, _, obj) ->
    let rvt = match int_of_n rv with 0 -> "ok" | 1 -> "unexpfn" | 2 -> "nonfirfin" | _ -> "unexpuns" in
    let head = Printf.sprintf "hp=ok ctl=%s fn=%s rv=%s" (d ctl) (d fn) rvt in
    (match obj with
     | ObjErr iin2 -> head ^ " obj=err:" ^ d iin2
     | ObjOk (hdrs, rh) ->
       head ^ " obj=ok" ^ String.concat "" (List.map (fun h -> " H" ^ hdr_text h) hdrs)
       ^ " rh=" ^ (if rh = [] then "-" else String.concat "" (List.map bool01 rh)))

let obs_text = function
  | OTx (dst, bytes) -> Some (Printf.sprintf "tx %d %s" (int_of_n dst) (hex bytes))
  | ODb c -> Some ("db " ^ (match c with
      | DbSelect -> "select" | DbWrite -> "write"
      | DbWriteUnsol (a, b, c) -> "write_unsol " ^ bool01 a ^ bool01 b ^ bool01 c
      | DbClearWritten -> "clear_written" | DbReset -> "reset" | DbEvinfo -> "evinfo"
      | DbDeferredSelect -> "deferred_select"))
  | OCb c -> Some ("cb " ^ (match c with
      | CbBeginFragment -> "begin_fragment" | CbEndFragment -> "end_fragment"
      | CbSelect (g, v, i, o) -> Printf.sprintf "select g%dv%d %d %s" (int_of_n g) (int_of_n v) (int_of_n i) (hex o)
      | CbOperate (g, v, i, t, o) -> Printf.sprintf "operate g%dv%d %d %s %s" (int_of_n g) (int_of_n v) (int_of_n i) (bcn t) (hex o)
      | CbWriteTime t -> Printf.sprintf "write_time %d" (int_of_n t)
      | CbColdRestart -> "cold_restart" | CbWarmRestart -> "warm_restart"
      | CbFreeze (ind, ft, t, i) ->
        Printf.sprintf "freeze %s %s" (match ind with None -> "all" | Some (a, b) -> Printf.sprintf "%d:%d" (int_of_n a) (int_of_n b))
          (match int_of_n ft with 0 -> "imm" | 1 -> "clear" | _ -> Printf.sprintf "at:%d:%d" (int_of_n t) (int_of_n i))
      | CbWriteAttr -> "write_attr"))
  | OInfo i -> Some ("info " ^ (match i with
      | IIdleRequest (f, s) -> Printf.sprintf "idle_request %d %d" (int_of_n f) (int_of_n s)
      | IBroadcast (f, a, arg) -> Printf.sprintf "broadcast %d %s" (int_of_n f)
                                    (match int_of_n a with 0 -> "processed" | 1 -> "ignored" | 2 -> "badobj" | _ -> Printf.sprintf "unsupported:%d" (int_of_n arg))
      | IEnterSolWait e -> Printf.sprintf "enter_sol_wait %d" (int_of_n e)
      | ISolTimeout e -> Printf.sprintf "sol_timeout %d" (int_of_n e)
      | ISolConfirmed e -> Printf.sprintf "sol_confirmed %d" (int_of_n e)
      | ISolNewRequest -> "sol_new_request"
      | ISolWrongSeq (e, s) -> Printf.sprintf "sol_wrong_seq %d %d" (int_of_n e) (int_of_n s)
      | IUnexpectedConfirm (u, s) -> Printf.sprintf "unexpected_confirm %s %d" (bool01 u) (int_of_n s)
      | IEnterUnsolWait e -> Printf.sprintf "enter_unsol_wait %d" (int_of_n e)
      | IUnsolTimeout (e, r) -> Printf.sprintf "unsol_timeout %d %s" (int_of_n e) (bool01 r)
      | IUnsolConfirmed e -> Printf.sprintf "unsol_confirmed %d" (int_of_n e)
      | IClearRestart -> "clear_restart_iin"))
  | OSessionEnd -> Some "session-end"
  | OMissingAnswer -> Some "model-missing-answer"
  | OOutOfFuel -> Some "model-out-of-fuel"
  | OAt _ -> None

let answer_text = function
  | AIin2 v -> "> iin2 " ^ d v
  | AWrite (c, e, body) -> Printf.sprintf "> write %s %s %s" (bool01 c) (bool01 e) (hex body)
  | AUnsol (k, body) -> Printf.sprintf "> unsol %s %s" (d k) (hex body)
  | AEvinfo (a, b, c, o) -> Printf.sprintf "> evinfo %s %s %s %s" (bool01 a) (bool01 b) (bool01 c) (bool01 o)

(* ---- configuration and operations --------------------------------------------------------------- *)

let opt_restart s = match s with
  | "none" -> None
  | x -> (match split_on ':' x with
      | ["s"; v] -> Some (false, nn v) | ["ms"; v] -> Some (true, nn v) | _ -> failwith "bad restart delay")

let cfg_of (s : script) : fcfg = {
  f_o = {
    o_master = n_of_int (cfg_int s "master" 1);
    o_any_master = cfg_int s "anymaster" 0 <> 0;
    o_unsol = cfg_int s "unsol" 0 <> 0;
    o_broadcast = cfg_int s "broadcast" 1 <> 0;
    o_confirm_ms = z_of_int (cfg_int s "confirm_ms" 5000);
    o_select_ms = z_of_int (cfg_int s "select_ms" 5000);
    o_retries = (match cfg_str s "retries" "none" with "none" -> None | x -> Some (nat_of_int (int_of_string x)));
    o_retry_delay_ms = z_of_int (cfg_int s "retry_delay_ms" 5000);
    o_max_controls = (match cfg_int s "maxctl" 0 with 0 -> None | x -> Some (n_of_int x));
    o_sol_tx = nat_of_int (cfg_int s "soltx" 2048);
    o_delay_ms = n_of_int (cfg_int s "delay" 0);
    o_cold = opt_restart (cfg_str s "cold" "none");
    o_warm = opt_restart (cfg_str s "warm" "none");
    o_wtime = n_of_int (cfg_int s "wtime" 0);
    o_freeze = n_of_int (cfg_int s "freeze" 1);
  };
  f_unsol_tx = n_of_int (cfg_int s "unsoltx" 2048);
  f_evbuf = n_of_int (cfg_int s "evbuf" 5);
}

let ptype_of = function
  | "binary" -> TBinary | "double" -> TDoubleBit | "bos" -> TBos | "counter" -> TCounter
  | "frozen" -> TFrozen | "analog" -> TAnalog | "aos" -> TAos | "octet" -> TOctet
  | x -> failwith ("bad type " ^ x)

let class_of = function
  | "0" -> None | "1" -> Some Class1 | "2" -> Some Class2 | "3" -> Some Class3
  | x -> failwith ("bad class " ^ x)

(* the measurement the harness builds for `update <type> <index> <value> <flags> <time>`:
   Time::Synchronized(time); analog values are decimal strings parsed as f64 *)
let meas_of (t : ptype) (v : string) (flags : string) (time : string) : meas =
  let tm = Some (true, nn time) in
  match t with
  | TBinary -> { m_val = (if v <> "0" then n_of_int 1 else N0); m_flags = nn flags; m_time = tm; m_oct = [] }
  | TCounter -> { m_val = nn v; m_flags = nn flags; m_time = tm; m_oct = [] }
  | TAnalog -> { m_val = n_of_int64 (Int64.bits_of_float (float_of_string v)); m_flags = nn flags; m_time = tm; m_oct = [] }
  | TOctet -> { m_val = N0; m_flags = N0; m_time = None; m_oct = unhex v }
  | _ -> failwith "update: type not covered by the harness"

let op_of (toks : string list) : fop =
  match toks with
  | ["rx"; from; bc; h] -> FRx (nn from, bcast_of bc, unhex h)
  | ["sleep"; ms] -> FSleep (z_of_int (int_of_string ms))
  | ["add"; ty; idx; cl] -> FAdd (ptype_of ty, nn idx, class_of cl)
  | ["update"; ty; idx; v; flags; time] -> let t = ptype_of ty in FUpdate (t, nn idx, meas_of t v flags time)
  | ["handler"; a; b] -> FHandler (nn a, nn b)
  | ["appiin"; v] -> FAppIin (nn v)
  | ["disconnect"] | ["bounce"] -> FDisconnect
  | _ -> failwith ("bad op " ^ String.concat "_" toks)

(* the one traversal of a script, shared by the text mode and the codes mode: start-up, then per
   operation the clock before it and the observations of `fstep` *)
let traverse (s : script) (on_log : fobs list -> unit) (on_op : fstate -> string list -> unit) (on_end : fstate -> unit) : unit =
  let cfg = cfg_of s in
  let (st0, log0) = fstart cfg (n_of_int (cfg_int s "sel" 0)) (n_of_int (cfg_int s "op" 0)) (n_of_int (cfg_int s "appiin" 0)) in
  on_log log0;
  let st = ref st0 in
  List.iter (fun toks ->
      on_op !st toks;
      let (st1, log) = fstep cfg !st (op_of toks) in
      on_log log;
      st := st1) s.ops;
  on_end !st

let run_ofull_engine (s : script) : string list =
  let out = ref [] in
  let now = ref 0 in
  let emit l = out := (string_of_int !now ^ " " ^ l) :: !out in
  let print (log : fobs list) =
    List.iter (fun o -> match o with
        | FObs (OAt t) -> now := int_of_z t
        | FObs x -> (match obs_text x with Some l -> emit l | None -> ())
        | FDigest (dg, rv) -> emit ("> digest " ^ digest_text dg rv)
        | FUser (added, ok) -> emit ((if added then "> added " else "> updated ") ^ bool01 ok)
        | FAns a -> emit (answer_text a)
        | FCleared (ids, c1, c2, c3) ->
          emit "> cb begin_confirm";
          List.iter (fun i -> emit ("> cb event_cleared " ^ d i)) ids;
          emit (Printf.sprintf "> cb end_confirm %s %s %s" (d c1) (d c2) (d c3))
        | FTxParse v ->
          emit ("> txparse " ^ (match int_of_n v with 0 -> "ok" | 1 -> "header-error" | 2 -> "not-a-response" | _ -> "object-error"))
        | FUnmodelled -> emit "model-unmodelled"
        | FReplayError -> emit "model-replay-error") log in
  traverse s print
    (fun st toks -> now := int_of_z (fnow st); emit ("op " ^ String.concat " " toks))
    (fun st -> now := int_of_z (fnow st); emit "end");
  List.rev !out

(* codes mode (extraction cross-check, tools/coqeval.py): the same traversal; every observation goes through
   the EXTRACTED serialiser cx_fobs of coq/Codes/CodesOfull.v, nothing is formatted here *)
let run_ofull_codes (s : script) : string list =
  let out = ref [] in
  traverse s (List.iter (fun o -> out := code_line (cx_fobs o) :: !out))
    (fun st _ -> out := code_line (cx_op_mark st) :: !out)
    (fun st -> out := code_line (cx_end_mark st) :: !out);
  List.rev !out

let () = register "ofull" run_ofull_engine; register_coder "ofull" run_ofull_codes
