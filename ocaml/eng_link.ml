open Model
open Driver

(* ---- link engine ------------------------------------------------------------------------- *)
let perr_text = function
  | EStart1 x -> Printf.sprintf "start1 %d" (int_of_n x)
  | EStart2 x -> Printf.sprintf "start2 %d" (int_of_n x)
  | ELength x -> Printf.sprintf "length %d" (int_of_n x)
  | EHeaderCrc -> "hcrc" | EBodyCrc -> "bcrc" | ELogicSize -> "logic-size"
let rerr_text = function RParse e -> perr_text e | REof -> "stdio UnexpectedEof"

let error_mode s = match cfg_str s "mode" "close" with
  | "close" -> Close | "discard" -> Discard | _ -> failwith "bad mode"
let read_mode s = match cfg_str s "read" "stream" with
  | "stream" -> Stream | "datagram" -> Datagram | _ -> failwith "bad read mode"

let run_link_engine (s : script) : string list =
  let feeds = List.filter_map (function ["feed"; h] -> Some (unhex h) | _ -> None) s.ops in
  if List.length feeds <> List.length s.ops then failwith "link engine: only feed ops are modelled";
  let obs = run_link (error_mode s) (read_mode s) (nat_of_int (cfg_int s "frag" 2048)) feeds in
  let stopped = ref false in
  let lines = List.map (function
    | OFrame (h, p) -> Printf.sprintf "frame %d %d %d %s" (int_of_n (control_to h.h_control))
                         (int_of_n (address_value h.h_dest)) (int_of_n (address_value h.h_src)) (hex p)
    | OErr e -> stopped := true; "err " ^ rerr_text e
    | OOverflow -> stopped := true; "overflow"
    | OStall -> stopped := true; "model-out-of-fuel") obs in
  if !stopped then lines @ ["end"] else lines @ ["end"]

(* --concretize: replace every "stream <hex> <size>..." op of a link-type script by the feed ops
   the model's buffer geometry allows (each read at most the writable space) *)
let concretize_link_script (s : script) : string list =
  match s.ops with
  | [("stream" :: h :: sizes)] ->
    let feeds = concretize_link (error_mode s) (read_mode s) (nat_of_int (cfg_int s "frag" 2048))
        (unhex h) (List.map (fun x -> nat_of_int (int_of_string x)) sizes) in
    List.map (fun c -> "feed " ^ hex c) feeds
  | ops -> List.map (String.concat " ") ops

(* codes mode (extraction cross-check, tools/coqeval.py): same parsing, same call; every observation goes
   through the EXTRACTED serialiser of coq/Codes/CodesLink.v *)
let link_feeds (s : script) =
  let feeds = List.filter_map (function ["feed"; h] -> Some (unhex h) | _ -> None) s.ops in
  if List.length feeds <> List.length s.ops then failwith "link engine: only feed ops are modelled";
  feeds

let run_link_codes (s : script) : string list =
  List.map (fun o -> code_line (cx_robs o))
    (run_link (error_mode s) (read_mode s) (nat_of_int (cfg_int s "frag" 2048)) (link_feeds s))

let () = register "link" run_link_engine; register_concretizer "link" concretize_link_script;
  register_coder "link" run_link_codes

(* engines layer, treader, twriter over the extracted model *)

let bcast_text = function
  | None -> "none" | Some BOptional -> "opt" | Some BMandatory -> "mand" | Some BNotRequired -> "notreq"

let role s = match cfg_str s "role" "outstation" with
  | "master" -> Master | "outstation" -> Outstation | _ -> failwith "bad role"

let lcfg_of s = { l_type = role s; l_self = (cfg_int s "self" 0 <> 0); l_addr = n_of_int (cfg_int s "addr" 1024) }

let feeds_of (s : script) =
  let feeds = List.filter_map (function ["feed"; h] -> Some (unhex h) | _ -> None) s.ops in
  if List.length feeds <> List.length s.ops then failwith "only feed ops are modelled";
  feeds

let run_layer_engine (s : script) : string list =
  let obs = run_layer (error_mode s) (read_mode s) (nat_of_int (cfg_int s "frag" 2048)) (lcfg_of s) (feeds_of s) in
  List.map (function
    | LTx b -> "tx " ^ hex b
    | LInfo (i, p) -> Printf.sprintf "info %d %s %s %s" (int_of_n i.fi_source) (bcast_text i.fi_broadcast)
                        (match i.fi_type with FData -> "data" | FLinkStatusRequest -> "lsreq" | FLinkStatusResponse -> "lsresp") (hex p)
    | LErr e -> "err " ^ rerr_text e
    | LOverflow -> "overflow"
    | LStall -> "model-out-of-fuel") obs @ ["end"]

let run_treader_engine (s : script) : string list =
  let obs = run_treader (error_mode s) (read_mode s) (nat_of_int (cfg_int s "frag" 2048)) (lcfg_of s) (feeds_of s) in
  List.map (function
    | TTx b -> "tx " ^ hex b
    | TFrag (fi, d) -> Printf.sprintf "frag %d %d %s %s" (int_of_n fi.fg_id) (int_of_n fi.fg_source) (bcast_text fi.fg_broadcast) (hex d)
    | TLinkMsg (src, req) -> Printf.sprintf "llmsg %d %s" (int_of_n src) (if req then "req" else "resp")
    | TErr e -> "err " ^ rerr_text e
    | TOverflow -> "overflow"
    | TStall -> "model-out-of-fuel") obs @ ["end"]

let twriter_obs (s : script) =
  let ops = List.map (function
    | ["write"; d; h] -> WWrite (n_of_int (int_of_string d), unhex h)
    | ["lsreq"; d] -> WLinkStatus (n_of_int (int_of_string d))
    | ["reset"] -> WReset
    | _ -> failwith "bad twriter op") s.ops in
  run_twriter { w_type = role s; w_addr = n_of_int (cfg_int s "addr" 1024) } N0 ops

let run_twriter_engine (s : script) : string list =
  List.map (function Some b -> "tx " ^ hex b | None -> "reset") (twriter_obs s) @ ["end"]

(* codes mode (extraction cross-check): the observations through the EXTRACTED serialisers *)
let run_layer_codes (s : script) : string list =
  List.map (fun o -> code_line (cx_lobs o))
    (run_layer (error_mode s) (read_mode s) (nat_of_int (cfg_int s "frag" 2048)) (lcfg_of s) (feeds_of s))
let run_treader_codes (s : script) : string list =
  List.map (fun o -> code_line (cx_tobs o))
    (run_treader (error_mode s) (read_mode s) (nat_of_int (cfg_int s "frag" 2048)) (lcfg_of s) (feeds_of s))
let run_twriter_codes (s : script) : string list =
  List.map (fun o -> code_line (cx_wobs o)) (twriter_obs s)

let () =
  register "layer" run_layer_engine; register_concretizer "layer" concretize_link_script;
  register "treader" run_treader_engine; register_concretizer "treader" concretize_link_script;
  register "twriter" run_twriter_engine;
  register_coder "layer" run_layer_codes; register_coder "treader" run_treader_codes;
  register_coder "twriter" run_twriter_codes
