open Model
open Driver

(* ---- pairabs engine (C02, trace abstraction): runs the acceptance function `explain` extracted from
   coq/System/PairTrace.v on the label list / observations that tools/props/c02abs.py derived from a
   trace of the REAL stack.  One op per label, carrying the label and what the real trace showed there:
     upd <p> <v> <0|1> <created|none>     Update p v ev            / OUpdate created []
     ovf <ids> <ids>                      Overflow ids             / OOverflow ids
     take <points>                        TakeSnapshot ps          / OSilent
     dsnap <p>:<c>,<c>;<p>:...            DeliverSnapshot          / OHandler objects (admissible codes)
     send <n> <m>                         SendEvents n             / OSent m
     sel <ids> <m>                        SendSelected ids         / OSent m
     dev <p>:<c>,<c>;...                  DeliverEvents            / OHandler objects
     conf <ids>                           Confirm                  / OReleased ids
     lose                                 LoseConnection           / OSilent
     fin <p> <codes> <codes>              final observation: Database::get / last value seen
   Output: `explained <labels>` (+ `settled <0|1>`, `drained <0|1>` when there is a final observation:
   do the shapes hold under which C02_explained_converged / C02_explained_events_reach_handler conclude),
   or `unexplained ...` with the first label whose abstract effect is not what was observed. ---------- *)

let num (s : string) : n = n_of_int (int_of_string s)
let ids (s : string) : n list =
  if s = "-" then [] else List.map num (String.split_on_char ',' s)
let objs (s : string) : (n * n list) list =
  if s = "-" then [] else List.map (fun o ->
    match String.split_on_char ':' o with
    | [p; a] -> (num p, (if a = "" then [] else ids a))
    | _ -> failwith "bad object") (String.split_on_char ';' s)

let show_ids (l : n list) = "[" ^ String.concat "," (List.map (fun x -> string_of_int (int_of_n x)) l) ^ "]"
let show_effect = function
  | FUpdate (c, d) -> "update:created=" ^ (match c with None -> "none" | Some x -> string_of_int (int_of_n x)) ^ ",discarded=" ^ show_ids d
  | FOverflow d -> "overflow:discarded=" ^ show_ids d
  | FSilent -> "silent"
  | FSent k -> "sent:" ^ string_of_int (int_of_nat k)
  | FHandler l -> "handler:" ^ String.concat ";" (List.map (fun (p, v) -> string_of_int (int_of_n p) ^ "=" ^ string_of_int (int_of_n v)) l)
  | FReleased d -> "released:" ^ show_ids d

let run_pairabs (s : script) : string list =
  let cap = nat_of_int (cfg_int s "cap" 0) in
  let iv = fun (_ : n) -> N0 in
  let labels = ref [] and obs = ref [] and fin = ref [] and text = ref [] in
  let push l o op = labels := l :: !labels; obs := o :: !obs; text := String.concat "_" op :: !text in
  List.iter (fun op -> match op with
    | ["upd"; p; v; ev; c] -> push (Update (num p, num v, ev = "1")) (OUpdate ((if c = "none" then None else Some (num c)), [])) op
    | ["ovf"; a; b] -> push (Overflow (ids a)) (OOverflow (ids b)) op
    | ["take"; ps] -> push (TakeSnapshot (ids ps)) OSilent op
    | ["lose"] -> push LoseConnection OSilent op
    | ["send"; a; b] -> push (SendEvents (nat_of_int (int_of_string a))) (OSent (nat_of_int (int_of_string b))) op
    | ["sel"; a; b] -> push (SendSelected (ids a)) (OSent (nat_of_int (int_of_string b))) op
    | ["dsnap"; o] -> push DeliverSnapshot (OHandler (objs o)) op
    | ["dev"; o] -> push DeliverEvents (OHandler (objs o)) op
    | ["conf"; a] -> push Confirm (OReleased (ids a)) op
    | ["fin"; p; a; b] -> fin := (num p, (ids a, ids b)) :: !fin
    | _ -> failwith ("bad op " ^ String.concat "_" op)) s.ops;
  let ls = List.rev !labels and os = List.rev !obs and fin = List.rev !fin and text = List.rev !text in
  let n = List.length ls in
  if explain cap iv ls os fin then
    ("explained " ^ string_of_int n) ::
    (if fin = [] then [] else
       ["settled " ^ (if all_settled ls fin then "1" else "0");
        "drained " ^ (if drained_after ls os then "1" else "0")])
  else begin
    let fs = trace_of cap iv ls in
    let k = int_of_nat (agree fs os) in
    if k < n then
      [Printf.sprintf "unexplained correspondence-pair-abstraction: label %d of %d `%s`: the abstract system shows %s" k n
         (String.map (fun c -> if c = '_' then ' ' else c) (List.nth text k)) (show_effect (List.nth fs k))]
    else
      [Printf.sprintf "unexplained correspondence-pair-abstraction: all %d labels agree, but the database / the master's view at the end of the abstract run is not what Database::get / the handler's last delivery showed" n]
  end

let () = register "pairabs" run_pairabs
