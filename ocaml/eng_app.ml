open Model
open Driver

(* ---- app engine: the extracted model of the application-layer codec (App/AppHeader.v, App/Grammar.v,
   App/Writers.v) printing the same canonical listing as /verif/harness/app.rs ----------------------- *)

let list_limit = 300
let edge = 4
let sum_mod = 4294967291

let sp = Printf.sprintf
let i = int_of_n

let attr_err_text = function
  | AARead -> "read"
  | AAUnknownType x -> sp "unknown-type %d" (i x)
  | AAIntLength x -> sp "int-length %d" (i x)
  | AAFloatLength x -> sp "float-length %d" (i x)
  | AATimeLength x -> sp "time-length %d" (i x)
  | AAListLength x -> sp "list-length %d" (i x)
  | AAVisibleString -> "vstr"
  | AASetId x -> sp "set-id %d" (i x)
  | AACount x -> sp "count %d" (i x)

let obj_err_text = function
  | OEUnknownGV (g, v) -> sp "unknown-gv %d %d" (i g) (i v)
  | OEUnknownQual q -> sp "unknown-qual %d" (i q)
  | OEInsufficient -> "insufficient"
  | OEInvalidRange (a, b) -> sp "invalid-range %d %d" (i a) (i b)
  | OEInvalidQual (g, v, q) -> sp "invalid-qual %d %d %d" (i g) (i v) (i q)
  | OEFreeCount c -> sp "free-count %d" (i c)
  | OEZeroLength -> "zero-length"
  | OEBadAttr e -> "bad-attr " ^ attr_err_text e
  | OEBadEncoding -> "bad-encoding"

(* numbers that may exceed OCaml's 63-bit int (f64 bit patterns): decimal rendering of an N *)
let rec n_to_string (x : n) : string =
  let rec to_digits (x : n) (acc : string list) =
    match x with
    | N0 -> acc
    | _ -> let (q, r) = N.div_eucl x (n_of_int 1000000000) in
      (match q with
       | N0 -> string_of_int (i r) :: acc
       | _ -> to_digits q (sp "%09d" (i r) :: acc)) in
  match x with N0 -> "0" | _ -> String.concat "" (to_digits x [])

let checksum (objs : (n option * n list) list) : int =
  List.fold_left (fun h (idx, data) ->
      let h = (h * 31 + (match idx with Some x -> i x + 1 | None -> 0)) mod sum_mod in
      List.fold_left (fun h b -> (h * 31 + i b + 1) mod sum_mod) h data) 0 objs

let obj_line (idx, data) =
  match idx with
  | Some x -> sp "o %d %s" (i x) (hex data)
  | None -> sp "o - %s" (hex data)

let rec take_n k l = if k = 0 then [] else match l with [] -> [] | x :: r -> x :: take_n (k - 1) r
let rec drop_n k l = if k = 0 then l else match l with [] -> [] | _ :: r -> drop_n (k - 1) r

let list_objs (objs : (n option * n list) list) : string list =
  let len = List.length objs in
  sp "n %d" len ::
  (if len <= list_limit then List.map obj_line objs
   else List.map obj_line (take_n edge objs) @ List.map obj_line (drop_n (len - edge) objs)
        @ [sp "sum %d" (checksum objs)])

let attr_line (a : aattribute) : string =
  let value = match a.aa_value with
    | AvVStr b -> "vstr " ^ hex b
    | AvUInt x -> sp "uint %d" (i x)
    | AvInt x -> sp "int %d" (i x)
    | AvF32 x -> sp "f32 %d" (i x)
    | AvF64 x -> "f64 " ^ n_to_string x
    | AvOStr b -> "ostr " ^ hex b
    | AvBStr b -> "bstr " ^ hex b
    | AvTime x -> sp "time %d" (i x)
    | AvList b -> "list " ^ hex (aattr_items b) in
  sp "a %d %d %s" (i a.aa_set) (i a.aa_var) value

let header_lines (h : aobj_header) : string list =
  let g = i h.oh_g and v = i h.oh_v and q = i (aqualifier h.oh_details) in
  let head = match h.oh_details with
    | HAll -> sp "h %d %d %d" g v q
    | HRange8 (a, b) | HRange16 (a, b) -> sp "h %d %d %d %d %d" g v q (i a) (i b)
    | HCount8 c | HCount16 c | HPrefix8 c | HPrefix16 c | HFree c -> sp "h %d %d %d %d" g v q (i c) in
  head ::
  (match h.oh_payload with
   | PyAttr a -> [attr_line a]
   | PyFree (_, _, info) -> [String.concat " " (sp "f %d" v :: List.map (fun x -> string_of_int (i x)) info)]
   | _ -> list_objs (alisting h))

let bit x = if x then "1" else "0"

let parse_and_list (o : aopts) (mode : string) (data : n list) : string list =
  match parse_fragment o data with
  | AErr AHInsufficient -> ["hdr-err insufficient"; "end"]
  | AErr (AHUnknownFunction (seq, code)) -> [sp "hdr-err unknown-function %d %d" (i seq) (i code); "end"]
  | AOk pf ->
    let h = pf.pf_header in
    let c = h.ah_control in
    let iin = match h.ah_iin with Some (a, b) -> sp "%d %d" (i a) (i b) | None -> "-" in
    let l1 = sp "frag %d %s%s%s%s %d %s" (i h.ah_function) (bit c.ac_fir) (bit c.ac_fin) (bit c.ac_con)
        (bit c.ac_uns) (i c.ac_seq) iin in
    let l2 = match mode with
      | "req" -> (match ato_request h with
          | None -> "req ok"
          | Some ARUnexpectedFunction -> "req err unexpected-function"
          | Some ARNonFirFin -> "req err non-fir-fin"
          | Some ARUnexpectedUns -> "req err unexpected-uns")
      | "resp" -> (match ato_response h with
          | None -> "resp ok"
          | Some APUnexpectedFunction -> "resp err unexpected-function"
          | Some APSolWithUns -> "resp err sol-with-uns"
          | Some APUnsolWithoutUns -> "resp err unsol-without-uns"
          | Some APUnsolWithoutFirFin -> "resp err unsol-without-firfin")
      | _ -> failwith "bad parse mode" in
    let objs = match headers_of pf with
      | AErr e -> ["obj-err " ^ obj_err_text e]
      | AOk hs -> List.concat_map header_lines hs in
    [l1; l2] @ objs @ ["end"]

(* ---- encode: the model of the request builders (App/Writers.v) -------------------------------------- *)

let rec split_on (sep : string) (l : string list) : string list list =
  match l with
  | [] -> [[]]
  | x :: r when x = sep -> [] :: split_on sep r
  | x :: r -> (match split_on sep r with h :: t -> (x :: h) :: t | [] -> [[x]])

let ni s = n_of_int (int_of_string s)

(* decimal string of any size -> N (f64 bit patterns exceed OCaml's int) *)
let n_of_dec (s : string) : n =
  let ten = n_of_int 10 in
  let acc = ref N0 in
  String.iter (fun c -> acc := N.add (N.mul !acc ten) (n_of_int (Char.code c - 48))) s;
  !acc

let gv_of_name (s : string) : n * n =
  Scanf.sscanf s "g%dv%d" (fun g v -> (n_of_int g, n_of_int v))

let encode_header (h : string list) : awheader =
  match h with
  | ["all"; g; v] -> WAll (ni g, ni v)
  | ["range8"; g; v; a; b] -> WRange8 (ni g, ni v, ni a, ni b)
  | ["range16"; g; v; a; b] -> WRange16 (ni g, ni v, ni a, ni b)
  | ["count8"; g; v; c] -> WCount8 (ni g, ni v, ni c)
  | ["count16"; g; v; c] -> WCount16 (ni g, ni v, ni c)
  | ["classes"; c] -> WClasses (c.[0] = '1', c.[1] = '1', c.[2] = '1', c.[3] = '1')
  | "cmd" :: gv :: prefix :: items ->
    let (g, v) = gv_of_name gv in
    let items = List.map (fun a -> match String.index_opt a ':' with
        | Some k -> (ni (String.sub a 0 k), unhex (String.sub a (k + 1) (String.length a - k - 1)))
        | None -> failwith "item without :") items in
    WPrefixed (g, v, (if prefix = "8" then n_of_int 1 else n_of_int 2), items)
  | ["one"; gv; h] -> let (g, v) = gv_of_name gv in WCountOfOne (g, v, unhex h)
  | ["restart"] -> WClearRestart
  | ["attr"; set; var; ty; value] ->
    let big x = n_of_dec x in
    let v = match ty with
      | "int" -> let x = int_of_string value in WaInt (n_of_int (if x < 0 then x + 4294967296 else x))
      | "uint" -> WaUInt (big value)
      | "vstr" -> WaVStr (unhex value) | "ostr" -> WaOStr (unhex value) | "bstr" -> WaBStr (unhex value)
      | "f32" -> WaF32 (big value) | "f64" -> WaF64 (big value) | "time" -> WaTime (big value)
      | _ -> failwith "bad attribute type" in
    WAttr (ni set, ni var, v)
  | "free" :: v :: args ->
    (* free <v> <fields...>: numbers in the order of the Rust struct, strings / data as hex of their bytes *)
    let big x = n_of_dec x in
    WFree (match v, args with
        | "2", [key; user; pass] ->
          F70v2 { f2_auth_key = big key; f2_user_name = unhex user; f2_password = unhex pass }
        | "3", [time; perm; key; size; mode; mbs; rid; name] ->
          F70v3 { f3_time = big time; f3_permissions = big perm; f3_auth_key = big key; f3_file_size = big size;
                  f3_mode = big mode; f3_max_block_size = big mbs; f3_request_id = big rid; f3_file_name = unhex name }
        | "4", [handle; size; mbs; rid; status; text] ->
          F70v4 { f4_file_handle = big handle; f4_file_size = big size; f4_max_block_size = big mbs;
                  f4_request_id = big rid; f4_status = big status; f4_text = unhex text }
        | "5", [handle; block; data] ->
          F70v5 { f5_file_handle = big handle; f5_block_number = big block; f5_file_data = unhex data }
        | "6", [handle; block; status; text] ->
          F70v6 { f6_file_handle = big handle; f6_block_number = big block; f6_status = big status; f6_text = unhex text }
        | "7", [ty; size; time; perm; rid; name] ->
          F70v7 { f7_file_type = big ty; f7_file_size = big size; f7_time = big time; f7_permissions = big perm;
                  f7_request_id = big rid; f7_file_name = unhex name }
        | "8", [spec] -> F70v8 (unhex spec)
        | _ -> failwith "bad free-format header")
  | _ -> failwith "bad encode header"

let encode_op (s : script) (o : aopts) (op : string list) : string list =
  match op with
  | _ :: seq :: fc :: rest ->
    let headers = List.map encode_header (List.filter (fun h -> h <> []) (split_on "/" rest)) in
    (match awrite_request (n_of_int (cfg_int s "cap" 2048)) (ni seq) (ni fc) headers with
     | AOk bytes -> sp "bytes %s" (hex bytes) :: parse_and_list o "req" bytes
     | AErr WEOverflow -> ["encode-err write-overflow"; "end"]
     | AErr WEBadSeek -> ["encode-err bad-seek"; "end"]
     | AErr WENumeric -> ["encode-err numeric-overflow"; "end"]
     | AErr WEAttrLength -> ["encode-err attr-bad-length"; "end"])
  | _ -> failwith "bad encode op"

let run_app_engine (s : script) : string list =
  let o = cfg_int s "zls" 0 <> 0 in
  List.concat_map (fun op -> match op with
      | ["parse"; mode; h] -> parse_and_list o mode (unhex h)
      | ["display"; level; h] ->
        (match parse_fragment o (unhex h) with
         | AOk _ -> [sp "display %s ok" level; "end"]
         | AErr _ -> [sp "display %s hdr-err" level; "end"])
      | "encode" :: _ -> encode_op s o op
      | "dbwrite" :: _ -> ["not-modelled"; "end"]   (* the outstation writers are modelled by the db engine *)
      | _ -> failwith "app engine: unknown op") s.ops

let () = register "app" run_app_engine
