(* Driver for the extracted Coq model (model.ml).  Reads the same script files as the Rust harness
   (/verif/harness/mod.rs) and prints traces in the same textual form.  Hand-written glue: number
   conversions, hex, the script reader and the printers of observations. *)
open Model

let rec pos_of_int (i : int) : positive =
  if i = 1 then XH else if i land 1 = 0 then XO (pos_of_int (i lsr 1)) else XI (pos_of_int (i lsr 1))
let n_of_int (i : int) : n = if i = 0 then N0 else Npos (pos_of_int i)
let rec int_of_pos (p : positive) : int =
  match p with XH -> 1 | XO q -> 2 * int_of_pos q | XI q -> 2 * int_of_pos q + 1
let int_of_n (x : n) : int = match x with N0 -> 0 | Npos p -> int_of_pos p
let rec nat_of_int (i : int) : nat = if i = 0 then O else S (nat_of_int (i - 1))
let rec int_of_nat (x : nat) : int = match x with O -> 0 | S y -> 1 + int_of_nat y

let unhex (s : string) : n list =
  if s = "-" then [] else begin
    let len = String.length s in
    if len mod 2 <> 0 then failwith "odd hex";
    let rec go i acc = if i < 0 then acc
      else go (i - 2) (n_of_int (int_of_string ("0x" ^ String.sub s i 2)) :: acc) in
    go (len - 2) []
  end
let hex (l : n list) : string =
  if l = [] then "-" else String.concat "" (List.map (fun b -> Printf.sprintf "%02x" (int_of_n b)) l)

type script = { id : string; engine : string; cfg : (string * string) list; ops : string list list }

let cfg_str s k d = try List.assoc k s.cfg with Not_found -> d
let cfg_int s k d = try int_of_string (List.assoc k s.cfg) with Not_found -> d

let split_ws (line : string) : string list =
  List.filter (fun x -> x <> "") (String.split_on_char ' ' (String.trim line))

let read_scripts (path : string) : script list =
  let ic = open_in path in
  let out = ref [] and cur = ref None in
  (try while true do
    let line = input_line ic in
    match split_ws line with
    | [] -> ()
    | t :: _ when String.length t > 0 && t.[0] = '#' -> ()
    | "S" :: id :: engine :: kvs ->
      let cfg = List.map (fun kv -> match String.index_opt kv '=' with
        | Some i -> (String.sub kv 0 i, String.sub kv (i+1) (String.length kv - i - 1))
        | None -> failwith "cfg token without =") kvs in
      cur := Some { id; engine; cfg; ops = [] }
    | ["E"] -> (match !cur with Some s -> out := { s with ops = List.rev s.ops } :: !out; cur := None
                | None -> failwith "E without S")
    | toks -> (match !cur with Some s -> cur := Some { s with ops = toks :: s.ops }
               | None -> failwith "op outside script")
  done with End_of_file -> close_in ic);
  List.rev !out

(* ---- link engine ------------------------------------------------------------------------- *)
let perr_text = function
  | EStart1 x -> Printf.sprintf "start1 %d" (int_of_n x)
  | EStart2 x -> Printf.sprintf "start2 %d" (int_of_n x)
  | ELength x -> Printf.sprintf "length %d" (int_of_n x)
  | EHeaderCrc -> "hcrc" | EBodyCrc -> "bcrc" | ELogicSize -> "logic-size"
let rerr_text = function RParse e -> perr_text e | REof -> "stdio UnexpectedEof"

let error_mode s = match cfg_str s "mode" "close" with
  | "close" -> Close | "discard" -> Discard | _ -> failwith "bad mode"
let read_mode s = match cfg_str s "read" "stream" with
  | "stream" -> Stream | "datagram" -> Datagram | _ -> failwith "bad read mode"

let run_link_engine (s : script) : string list =
  let feeds = List.filter_map (function ["feed"; h] -> Some (unhex h) | _ -> None) s.ops in
  if List.length feeds <> List.length s.ops then failwith "link engine: only feed ops are modelled";
  let obs = run_link (error_mode s) (read_mode s) (nat_of_int (cfg_int s "frag" 2048)) feeds in
  let stopped = ref false in
  let lines = List.map (function
    | OFrame (h, p) -> Printf.sprintf "frame %d %d %d %s" (int_of_n (control_to h.h_control))
                         (int_of_n (address_value h.h_dest)) (int_of_n (address_value h.h_src)) (hex p)
    | OErr e -> stopped := true; "err " ^ rerr_text e
    | OOverflow -> stopped := true; "overflow"
    | OStall -> stopped := true; "model-out-of-fuel") obs in
  if !stopped then lines @ ["end"] else lines @ ["end"]

(* --concretize: replace every "stream <hex> <size>..." op of a link-type script by the feed ops
   the model's buffer geometry allows (each read at most the writable space) *)
let concretize_script (s : script) : unit =
  print_string (String.concat " " (["S"; s.id; s.engine] @ List.map (fun (k, v) -> k ^ "=" ^ v) s.cfg) ^ "\n");
  (match s.ops with
   | [("stream" :: h :: sizes)] ->
     let feeds = concretize_link (error_mode s) (read_mode s) (nat_of_int (cfg_int s "frag" 2048))
         (unhex h) (List.map (fun x -> nat_of_int (int_of_string x)) sizes) in
     List.iter (fun c -> print_string ("feed " ^ hex c ^ "\n")) feeds
   | ops -> List.iter (fun op -> print_string (String.concat " " op ^ "\n")) ops);
  print_string "E\n"

let () =
  if Sys.argv.(1) = "--concretize" then begin
    List.iter concretize_script (read_scripts Sys.argv.(2)); exit 0
  end;
  let path = Sys.argv.(1) in
  let scripts = read_scripts path in
  List.iter (fun s ->
    let lines = try (match s.engine with
      | "link" -> run_link_engine s
      | e -> ["unknown-engine " ^ e])
      with Failure m -> ["model-failure " ^ (String.map (fun c -> if c = ' ' then '_' else c) m)] in
    print_string ("T " ^ s.id ^ "\n");
    List.iter (fun l -> print_string l; print_char '\n') lines;
    print_string "E\n") scripts
