(* Driver for the extracted Coq models.  Reads the same script files as the Rust harness
   (/verif/harness/mod.rs) and prints traces in the same textual form.  This file: the script
   reader and the engine registry.  Each engine eng_<name>.ml is compiled together with the model
   extracted from coq/Extract/roots/<name>.txt (module Model_<name>, visible to the engine as
   `Model`) and with conv.inc (number conversions, hex) - see tools/driver.py build_model. *)

type script = { id : string; engine : string; cfg : (string * string) list; ops : string list list }

let cfg_str s k d = try List.assoc k s.cfg with Not_found -> d
let cfg_int s k d = try int_of_string (List.assoc k s.cfg) with Not_found -> d

let split_ws (line : string) : string list =
  List.filter (fun x -> x <> "") (String.split_on_char ' ' (String.trim line))

let read_scripts (path : string) : script list =
  let ic = open_in path in
  let out = ref [] and cur = ref None in
  (try while true do
    let line = input_line ic in
    match split_ws line with
    | [] -> ()
    | t :: _ when String.length t > 0 && t.[0] = '#' -> ()
    | "S" :: id :: engine :: kvs ->
      let cfg = List.map (fun kv -> match String.index_opt kv '=' with
        | Some i -> (String.sub kv 0 i, String.sub kv (i+1) (String.length kv - i - 1))
        | None -> failwith "cfg token without =") kvs in
      cur := Some { id; engine; cfg; ops = [] }
    | ["E"] -> (match !cur with Some s -> out := { s with ops = List.rev s.ops } :: !out; cur := None
                | None -> failwith "E without S")
    | toks -> (match !cur with Some s -> cur := Some { s with ops = toks :: s.ops }
               | None -> failwith "op outside script")
  done with End_of_file -> close_in ic);
  List.rev !out


(* engines register themselves here: name -> script -> observation lines *)
let engines : (string, script -> string list) Hashtbl.t = Hashtbl.create 16
let concretizers : (string, script -> string list) Hashtbl.t = Hashtbl.create 16
let register name f = Hashtbl.replace engines name f
let register_concretizer name f = Hashtbl.replace concretizers name f
(* extraction cross-check (tools/coqeval.py): name -> script -> one line of decimal numbers per observation,
   the numeric serialisation of coq/Codes/Codes*.v computed by the EXTRACTED serialiser *)
let coders : (string, script -> string list) Hashtbl.t = Hashtbl.create 16
let register_coder name f = Hashtbl.replace coders name f
