(* Driver for the extracted Coq model (model.ml).  Reads the same script files as the Rust harness
   (/verif/harness/mod.rs) and prints traces in the same textual form.  Hand-written glue: number
   conversions, hex, the script reader and the printers of observations. *)
open Model

let rec pos_of_int (i : int) : positive =
  if i = 1 then XH else if i land 1 = 0 then XO (pos_of_int (i lsr 1)) else XI (pos_of_int (i lsr 1))
let n_of_int (i : int) : n = if i = 0 then N0 else Npos (pos_of_int i)
let rec int_of_pos (p : positive) : int =
  match p with XH -> 1 | XO q -> 2 * int_of_pos q | XI q -> 2 * int_of_pos q + 1
let int_of_n (x : n) : int = match x with N0 -> 0 | Npos p -> int_of_pos p
let rec nat_of_int (i : int) : nat = if i = 0 then O else S (nat_of_int (i - 1))
let rec int_of_nat (x : nat) : int = match x with O -> 0 | S y -> 1 + int_of_nat y

let unhex (s : string) : n list =
  if s = "-" then [] else begin
    let len = String.length s in
    if len mod 2 <> 0 then failwith "odd hex";
    let rec go i acc = if i < 0 then acc
      else go (i - 2) (n_of_int (int_of_string ("0x" ^ String.sub s i 2)) :: acc) in
    go (len - 2) []
  end
let hex (l : n list) : string =
  if l = [] then "-" else String.concat "" (List.map (fun b -> Printf.sprintf "%02x" (int_of_n b)) l)

type script = { id : string; engine : string; cfg : (string * string) list; ops : string list list }

let cfg_str s k d = try List.assoc k s.cfg with Not_found -> d
let cfg_int s k d = try int_of_string (List.assoc k s.cfg) with Not_found -> d

let split_ws (line : string) : string list =
  List.filter (fun x -> x <> "") (String.split_on_char ' ' (String.trim line))

let read_scripts (path : string) : script list =
  let ic = open_in path in
  let out = ref [] and cur = ref None in
  (try while true do
    let line = input_line ic in
    match split_ws line with
    | [] -> ()
    | t :: _ when String.length t > 0 && t.[0] = '#' -> ()
    | "S" :: id :: engine :: kvs ->
      let cfg = List.map (fun kv -> match String.index_opt kv '=' with
        | Some i -> (String.sub kv 0 i, String.sub kv (i+1) (String.length kv - i - 1))
        | None -> failwith "cfg token without =") kvs in
      cur := Some { id; engine; cfg; ops = [] }
    | ["E"] -> (match !cur with Some s -> out := { s with ops = List.rev s.ops } :: !out; cur := None
                | None -> failwith "E without S")
    | toks -> (match !cur with Some s -> cur := Some { s with ops = toks :: s.ops }
               | None -> failwith "op outside script")
  done with End_of_file -> close_in ic);
  List.rev !out


(* engines register themselves here: name -> script -> observation lines *)
let engines : (string, script -> string list) Hashtbl.t = Hashtbl.create 16
let concretizers : (string, script -> string list) Hashtbl.t = Hashtbl.create 16
let register name f = Hashtbl.replace engines name f
let register_concretizer name f = Hashtbl.replace concretizers name f
