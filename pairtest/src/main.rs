//! Engine `pair` of property C02: a master and an outstation of the real library talk over loopback
//! TCP through a byte-level proxy that re-chunks the stream and cuts the connection.
//!
//! usage: pairtest <script file>          (several scripts per file)
//!
//! script:  S <id> pair key=value ...   /  one op per line  /  E
//! trace:   T <id>                      /  observation lines /  E
//!
//! Observation lines (all numbers decimal, floats as the hex bit pattern of the f64):
//!   op <n>                                   the n-th op line (0-based) is about to be executed
//!   updinfo <created|none> <discarded|none>  result of the n-th `update` op (UpdateInfo), in op order
//!   nopoint                                  (instead of updinfo) the point does not exist
//!   cmdupd aos <i> <value> <flags> <time> <created|none> <discarded|none>   update made by the ControlHandler
//!   cmdres ok|<error>                        result of a `command` op as seen by the master
//!   h <type> <i> <value> <flags> <time> <static|event>     one measurement handed to the ReadHandler
//!   frag b|e <readtype> <fir><fin><con><uns> <seq> <iin1> <iin2>           ReadHandler::begin/end_fragment
//!   cleared <id>                             OutstationApplication::event_cleared
//!   conn <state>                             master channel ClientState
//!   oconn connected|disconnected             the outstation's session on a TCP connection started / ended
//!   popen                                    the proxy has opened a new TCP connection to the outstation
//!   oi solwait|solconf|soltimeout|unsolwait|unsolconf|unsoltimeout <seq> / oi solnewreq
//!                                            OutstationInformation: confirm waits entered and resolved
//!   cutfired <dir>                           an armed byte-offset cut fired
//!   flipfired <dir>                          an armed byte corruption was applied
//!   quiesced <rounds> | timeout              outcome of `quiesce`
//!   qerr <count> <what>                      (before `timeout`) why the attempts of `quiesce` failed
//!   db <type> <i> <value> <flags> <time>     Database::get on the outstation after quiescence
//!   seen <type> <i> <value> <flags> <time>   last value the ReadHandler received (or `seen <type> <i> never`)
//!   panic <text>                             a panic anywhere in the process during this script
//!
//! Second mode, engine `accept` of property C01 (acceptance liveness of the real TCP servers):
//!
//! script:  S <id> accept role=master|outstation linkid=0|1 maxtasks=<n> idto=<ms> discard=0|1 workers=<n>
//!   role=master      a master in TCP SERVER mode (spawn_master_tcp_server); linkid=1: ConnectionHandler::accept
//!                    answers GetLinkIdentity (LinkIdConfig max_tasks = maxtasks, timeout = idto ms), the session is
//!                    configured from the identified addresses; linkid=0: every connection is accepted at once
//!   role=outstation  an outstation (address 1024, master 1, three binary inputs, no unsolicited) behind a TCP server
//!   ops:  bad <kind> <hex|-> <hold ms> fin|rst   a peer connects, sends these octets, keeps the connection open for
//!                                                `hold` ms (in the background: the script goes on) and closes it
//!                                                (fin = orderly shutdown, rst = SO_LINGER 0); <kind> is a label
//!         good <hex> <frames> <limit ms>         a peer connects, sends these octets (a well-formed request) and must
//!                                                receive <frames> complete link frames within <limit> ms
//!         wait <ms>
//! trace:  op <n>                                 as above
//!         bad <kind> sent|write-failed <octets> / bad <kind> connect-failed
//!         good served <frame>,<frame>...         the frames received (hex)
//!         good not-served connect-failed|write-failed|timeout|closed|bad-start|bad-length <received octets|->
//!         started <source> <destination> | started plain    ConnectionHandler::start_with_link_id / start
//!         rejected <source> <destination>        accept_link_id: the destination is not a legal master address
//!         oconn connected|disconnected           (role=outstation) as above
//!         panic <text>
use std::collections::HashMap;
use std::net::{IpAddr, Ipv4Addr, SocketAddr};
use std::sync::atomic::{AtomicI64, AtomicU64, AtomicUsize, Ordering};
use std::sync::{Arc, Mutex};
use std::time::{Duration, Instant};

use dnp3::app::control::*;
use dnp3::app::measurement::*;
use dnp3::app::*;
use dnp3::decode::*;
use dnp3::link::*;
use dnp3::master::*;
use dnp3::outstation::database::*;
use dnp3::outstation::*;
use dnp3::tcp::*;

use tokio::io::{AsyncReadExt, AsyncWriteExt};
use tokio::net::{TcpListener, TcpStream};

// ------------------------------------------------------------------------------------------------
// trace

#[derive(Clone)]
struct Trace(Arc<Mutex<Vec<String>>>);

impl Trace {
    fn new() -> Self {
        Trace(Arc::new(Mutex::new(Vec::new())))
    }
    fn log(&self, s: String) {
        // PAIR_TS=1 (debugging by hand only): microseconds since the process started, after the line
        let s = if *TS {
            format!("{} @{}", s, START.elapsed().as_micros())
        } else {
            s
        };
        self.0.lock().unwrap_or_else(|e| e.into_inner()).push(s);
    }
    fn take(&self) -> Vec<String> {
        std::mem::take(&mut *self.0.lock().unwrap_or_else(|e| e.into_inner()))
    }
}

static PANICS: Mutex<Vec<String>> = Mutex::new(Vec::new());
static START: std::sync::LazyLock<Instant> = std::sync::LazyLock::new(Instant::now);
static TS: std::sync::LazyLock<bool> = std::sync::LazyLock::new(|| std::env::var("PAIR_TS").is_ok());

// ------------------------------------------------------------------------------------------------
// canonical text of values

fn hex(b: &[u8]) -> String {
    if b.is_empty() {
        return "-".to_string();
    }
    b.iter().map(|x| format!("{:02x}", x)).collect()
}

fn unhex(s: &str) -> Vec<u8> {
    if s == "-" {
        return Vec::new();
    }
    (0..s.len() / 2)
        .map(|i| u8::from_str_radix(&s[2 * i..2 * i + 2], 16).unwrap_or(0))
        .collect()
}

fn time_str(t: Option<Time>) -> String {
    match t {
        None => "none".to_string(),
        Some(Time::Synchronized(ts)) => format!("s{}", ts.raw_value()),
        Some(Time::Unsynchronized(ts)) => format!("u{}", ts.raw_value()),
    }
}

fn parse_time(s: &str) -> Option<Time> {
    if s == "none" {
        None
    } else if let Some(r) = s.strip_prefix('s') {
        Some(Time::synchronized(r.parse().unwrap_or(0)))
    } else if let Some(r) = s.strip_prefix('u') {
        Some(Time::unsynchronized(r.parse().unwrap_or(0)))
    } else {
        None
    }
}

fn dbit_num(d: DoubleBit) -> u8 {
    match d {
        DoubleBit::Intermediate => 0,
        DoubleBit::DeterminedOff => 1,
        DoubleBit::DeterminedOn => 2,
        DoubleBit::Indeterminate => 3,
    }
}

fn dbit_of(n: u64) -> DoubleBit {
    match n & 3 {
        0 => DoubleBit::Intermediate,
        1 => DoubleBit::DeterminedOff,
        2 => DoubleBit::DeterminedOn,
        _ => DoubleBit::Indeterminate,
    }
}

fn f64_str(x: f64) -> String {
    format!("{:016x}", x.to_bits())
}

/// "<value> <flags> <time>"
trait Canon {
    fn canon(&self) -> String;
}
impl Canon for BinaryInput {
    fn canon(&self) -> String {
        format!("{} {} {}", self.value as u8, self.flags.value, time_str(self.time))
    }
}
impl Canon for DoubleBitBinaryInput {
    fn canon(&self) -> String {
        format!("{} {} {}", dbit_num(self.value), self.flags.value, time_str(self.time))
    }
}
impl Canon for BinaryOutputStatus {
    fn canon(&self) -> String {
        format!("{} {} {}", self.value as u8, self.flags.value, time_str(self.time))
    }
}
impl Canon for Counter {
    fn canon(&self) -> String {
        format!("{} {} {}", self.value, self.flags.value, time_str(self.time))
    }
}
impl Canon for FrozenCounter {
    fn canon(&self) -> String {
        format!("{} {} {}", self.value, self.flags.value, time_str(self.time))
    }
}
impl Canon for AnalogInput {
    fn canon(&self) -> String {
        format!("{} {} {}", f64_str(self.value), self.flags.value, time_str(self.time))
    }
}
impl Canon for AnalogOutputStatus {
    fn canon(&self) -> String {
        format!("{} {} {}", f64_str(self.value), self.flags.value, time_str(self.time))
    }
}

// ------------------------------------------------------------------------------------------------
// master side: the measurement handler

struct HState {
    last: HashMap<(&'static str, u16), String>,
    /// number of event objects handed to the handler so far
    events: u64,
}

struct Handler {
    trace: Trace,
    state: Arc<Mutex<HState>>,
}

impl Handler {
    fn deliver(&mut self, ty: &'static str, index: u16, canon: String, info: &HeaderInfo) {
        let kind = if info.is_event { "event" } else { "static" };
        // state first, then the trace line: the trace order is the order of handler calls
        {
            let mut st = self.state.lock().unwrap();
            st.last.insert((ty, index), canon.clone());
            if info.is_event {
                st.events += 1;
            }
        }
        self.trace.log(format!("h {} {} {} {}", ty, index, canon, kind));
    }

    fn frag(&self, which: &str, rt: ReadType, h: ResponseHeader) {
        let rt = match rt {
            ReadType::StartupIntegrity => "startup",
            ReadType::Unsolicited => "unsol",
            ReadType::SinglePoll => "single",
            ReadType::PeriodicPoll => "periodic",
        };
        let c = h.control;
        self.trace.log(format!(
            "frag {} {} {}{}{}{} {} {} {}",
            which,
            rt,
            c.fir as u8,
            c.fin as u8,
            c.con as u8,
            c.uns as u8,
            c.seq.value(),
            h.iin.iin1.value,
            h.iin.iin2.value
        ));
    }
}

impl ReadHandler for Handler {
    fn begin_fragment(&mut self, read_type: ReadType, header: ResponseHeader) -> MaybeAsync<()> {
        self.frag("b", read_type, header);
        MaybeAsync::ready(())
    }

    fn end_fragment(&mut self, read_type: ReadType, header: ResponseHeader) -> MaybeAsync<()> {
        self.frag("e", read_type, header);
        MaybeAsync::ready(())
    }

    fn handle_binary_input(
        &mut self,
        info: HeaderInfo,
        iter: &mut dyn Iterator<Item = (BinaryInput, u16)>,
    ) {
        for (v, i) in iter {
            self.deliver("bi", i, v.canon(), &info);
        }
    }

    fn handle_double_bit_binary_input(
        &mut self,
        info: HeaderInfo,
        iter: &mut dyn Iterator<Item = (DoubleBitBinaryInput, u16)>,
    ) {
        for (v, i) in iter {
            self.deliver("dbbi", i, v.canon(), &info);
        }
    }

    fn handle_binary_output_status(
        &mut self,
        info: HeaderInfo,
        iter: &mut dyn Iterator<Item = (BinaryOutputStatus, u16)>,
    ) {
        for (v, i) in iter {
            self.deliver("bos", i, v.canon(), &info);
        }
    }

    fn handle_counter(&mut self, info: HeaderInfo, iter: &mut dyn Iterator<Item = (Counter, u16)>) {
        for (v, i) in iter {
            self.deliver("ctr", i, v.canon(), &info);
        }
    }

    fn handle_frozen_counter(
        &mut self,
        info: HeaderInfo,
        iter: &mut dyn Iterator<Item = (FrozenCounter, u16)>,
    ) {
        for (v, i) in iter {
            self.deliver("fctr", i, v.canon(), &info);
        }
    }

    fn handle_analog_input(
        &mut self,
        info: HeaderInfo,
        iter: &mut dyn Iterator<Item = (AnalogInput, u16)>,
    ) {
        for (v, i) in iter {
            self.deliver("ai", i, v.canon(), &info);
        }
    }

    fn handle_analog_output_status(
        &mut self,
        info: HeaderInfo,
        iter: &mut dyn Iterator<Item = (AnalogOutputStatus, u16)>,
    ) {
        for (v, i) in iter {
            self.deliver("aos", i, v.canon(), &info);
        }
    }

    fn handle_octet_string<'a>(
        &mut self,
        info: HeaderInfo,
        iter: &'a mut dyn Iterator<Item = (&'a [u8], u16)>,
    ) {
        for (v, i) in iter {
            self.deliver("os", i, format!("{} - -", hex(v)), &info);
        }
    }
}

struct AssocHandler;
impl AssociationHandler for AssocHandler {}
struct AssocInfo;
impl AssociationInformation for AssocInfo {}

struct ConnListener(Trace);
impl Listener<ClientState> for ConnListener {
    fn update(&mut self, value: ClientState) -> MaybeAsync<()> {
        let s = match value {
            ClientState::Disabled => "disabled",
            ClientState::Connecting => "connecting",
            ClientState::Connected => "connected",
            ClientState::WaitAfterFailedConnect(_) => "wait-failed",
            ClientState::WaitAfterDisconnect(_) => "wait-disconnect",
            ClientState::Shutdown => "shutdown",
        };
        self.0.log(format!("conn {}", s));
        MaybeAsync::ready(())
    }
}

// ------------------------------------------------------------------------------------------------
// outstation side

/// the TCP server tells when a session of the outstation starts and ends (for either reason: link
/// error, or replaced by a newer connection)
struct OutConnListener(Trace);
impl Listener<ConnectionState> for OutConnListener {
    fn update(&mut self, value: ConnectionState) -> MaybeAsync<()> {
        self.0.log(format!(
            "oconn {}",
            match value {
                ConnectionState::Connected => "connected",
                ConnectionState::Disconnected => "disconnected",
            }
        ));
        MaybeAsync::ready(())
    }
}

struct OutApp(Trace);
impl OutstationApplication for OutApp {
    fn event_cleared(&mut self, id: u64) {
        self.0.log(format!("cleared {}", id));
    }
}

/// the confirm waits of the outstation, so that the oracle can tell whether a response was awaiting its
/// confirm when the master established a new connection
struct OutInfo(Trace);
impl OutstationInformation for OutInfo {
    fn enter_solicited_confirm_wait(&mut self, ecsn: Sequence) {
        self.0.log(format!("oi solwait {}", ecsn.value()));
    }
    fn solicited_confirm_timeout(&mut self, ecsn: Sequence) {
        self.0.log(format!("oi soltimeout {}", ecsn.value()));
    }
    fn solicited_confirm_received(&mut self, ecsn: Sequence) {
        self.0.log(format!("oi solconf {}", ecsn.value()));
    }
    fn solicited_confirm_wait_new_request(&mut self) {
        self.0.log("oi solnewreq".to_string());
    }
    fn enter_unsolicited_confirm_wait(&mut self, ecsn: Sequence) {
        self.0.log(format!("oi unsolwait {}", ecsn.value()));
    }
    fn unsolicited_confirm_timeout(&mut self, ecsn: Sequence, _retry: bool) {
        self.0.log(format!("oi unsoltimeout {}", ecsn.value()));
    }
    fn unsolicited_confirmed(&mut self, ecsn: Sequence) {
        self.0.log(format!("oi unsolconf {}", ecsn.value()));
    }
}

fn info_ids(info: UpdateInfo) -> String {
    match info {
        UpdateInfo::NoPoint => "nopoint".to_string(),
        UpdateInfo::NoEvent => "updinfo none none".to_string(),
        UpdateInfo::Created(id) => format!("updinfo {} none", id),
        UpdateInfo::Overflow { created, discarded } => format!("updinfo {} {}", created, discarded),
    }
}

/// a command on analog output `index` with value v sets the analog output status point `index` to
/// (v as f64, ONLINE, synchronized time 1_000_000 + (v as u32))
struct Controls(Trace);

impl Controls {
    fn apply(&self, value: f64, raw: u32, index: u16, db: &mut DatabaseHandle) -> CommandStatus {
        let m = AnalogOutputStatus::new(
            value,
            Flags::ONLINE,
            Time::synchronized(1_000_000 + raw as u64),
        );
        let info = db.transaction(|db| db.update2(index, &m, UpdateOptions::detect_event()));
        let ids = match info {
            UpdateInfo::NoPoint => "nopoint nopoint".to_string(),
            UpdateInfo::NoEvent => "none none".to_string(),
            UpdateInfo::Created(id) => format!("{} none", id),
            UpdateInfo::Overflow { created, discarded } => format!("{} {}", created, discarded),
        };
        self.0.log(format!("cmdupd aos {} {} {}", index, m.canon(), ids));
        if info == UpdateInfo::NoPoint {
            CommandStatus::NotSupported
        } else {
            CommandStatus::Success
        }
    }
}

impl ControlHandler for Controls {}

impl ControlSupport<Group12Var1> for Controls {
    fn select(&mut self, _c: Group12Var1, _i: u16, _d: &mut DatabaseHandle) -> CommandStatus {
        CommandStatus::NotSupported
    }
    fn operate(
        &mut self,
        _c: Group12Var1,
        _i: u16,
        _o: OperateType,
        _d: &mut DatabaseHandle,
    ) -> CommandStatus {
        CommandStatus::NotSupported
    }
}

impl ControlSupport<Group41Var1> for Controls {
    fn select(&mut self, _c: Group41Var1, _i: u16, _d: &mut DatabaseHandle) -> CommandStatus {
        CommandStatus::Success
    }
    fn operate(
        &mut self,
        c: Group41Var1,
        i: u16,
        _o: OperateType,
        d: &mut DatabaseHandle,
    ) -> CommandStatus {
        self.apply(c.value as f64, c.value as u32, i, d)
    }
}

macro_rules! unsupported_control {
    ($t:ty) => {
        impl ControlSupport<$t> for Controls {
            fn select(&mut self, _c: $t, _i: u16, _d: &mut DatabaseHandle) -> CommandStatus {
                CommandStatus::NotSupported
            }
            fn operate(
                &mut self,
                _c: $t,
                _i: u16,
                _o: OperateType,
                _d: &mut DatabaseHandle,
            ) -> CommandStatus {
                CommandStatus::NotSupported
            }
        }
    };
}
unsupported_control!(Group41Var2);
unsupported_control!(Group41Var3);
unsupported_control!(Group41Var4);

// ------------------------------------------------------------------------------------------------
// byte-level proxy

struct ProxyCtl {
    chunk: AtomicUsize,
    gap_us: AtomicU64,
    linger_ms: AtomicU64,
    /// bytes still to forward before the cut, per direction (0 = master->outstation, 1 = back); -1 = not armed
    cutat: [AtomicI64; 2],
    /// bytes still to forward before ONE byte is corrupted (xor with flipmask), per direction; -1 = not armed
    flipat: [AtomicI64; 2],
    flipmask: [AtomicU64; 2],
    cut: tokio::sync::watch::Sender<u64>,
    trace: Trace,
}

impl ProxyCtl {
    fn cut_now(&self) {
        self.cut.send_modify(|g| *g += 1);
    }
}

async fn forward(
    dir: usize,
    rd: &mut tokio::net::tcp::OwnedReadHalf,
    wr: &mut tokio::net::tcp::OwnedWriteHalf,
    ctl: Arc<ProxyCtl>,
) {
    let mut buf = vec![0u8; 4096];
    loop {
        let n = match rd.read(&mut buf).await {
            Ok(0) | Err(_) => return,
            Ok(n) => n,
        };
        let mut off = 0;
        while off < n {
            let mut c = ctl.chunk.load(Ordering::Relaxed).clamp(1, 4096).min(n - off);
            let rem = ctl.cutat[dir].load(Ordering::SeqCst);
            if rem == 0 {
                ctl.cutat[dir].store(-1, Ordering::SeqCst);
                ctl.trace.log(format!("cutfired {}", dir));
                ctl.cut_now();
                return;
            }
            if rem > 0 {
                c = c.min(rem as usize);
            }
            let fl = ctl.flipat[dir].load(Ordering::SeqCst);
            if fl >= 0 {
                if (fl as usize) < c {
                    buf[off + fl as usize] ^= ctl.flipmask[dir].load(Ordering::SeqCst) as u8;
                    ctl.flipat[dir].store(-1, Ordering::SeqCst);
                    ctl.trace.log(format!("flipfired {}", dir));
                } else {
                    ctl.flipat[dir].store(fl - c as i64, Ordering::SeqCst);
                }
            }
            if wr.write_all(&buf[off..off + c]).await.is_err() {
                return;
            }
            let _ = wr.flush().await;
            off += c;
            if rem > 0 {
                let left = rem - c as i64;
                if left == 0 {
                    ctl.cutat[dir].store(-1, Ordering::SeqCst);
                    ctl.trace.log(format!("cutfired {}", dir));
                    ctl.cut_now();
                    return;
                }
                ctl.cutat[dir].store(left, Ordering::SeqCst);
            }
            let gap = ctl.gap_us.load(Ordering::Relaxed);
            if gap > 0 {
                tokio::time::sleep(Duration::from_micros(gap)).await;
            } else {
                tokio::task::yield_now().await;
            }
        }
    }
}

async fn proxy(listener: TcpListener, target: SocketAddr, ctl: Arc<ProxyCtl>) {
    loop {
        let (m, _) = match listener.accept().await {
            Ok(x) => x,
            Err(_) => return,
        };
        let ctl = ctl.clone();
        tokio::spawn(async move {
            let mut cut_rx = ctl.cut.subscribe();
            cut_rx.borrow_and_update();
            let o = match TcpStream::connect(target).await {
                Ok(o) => o,
                Err(_) => return,
            };
            ctl.trace.log("popen".to_string());
            let _ = m.set_nodelay(true);
            let _ = o.set_nodelay(true);
            let (mut mr, mut mw) = m.into_split();
            let (mut or, mut ow) = o.into_split();
            tokio::select! {
                _ = forward(0, &mut mr, &mut ow, ctl.clone()) => {}
                _ = forward(1, &mut or, &mut mw, ctl.clone()) => {}
                _ = cut_rx.changed() => {}
            }
            // the master's connection is closed at once; the outstation's side after `linger` ms (a
            // half-open connection: the peer is gone but the FIN has not arrived yet)
            drop(mr);
            drop(mw);
            let linger = ctl.linger_ms.load(Ordering::Relaxed);
            if linger > 0 {
                tokio::time::sleep(Duration::from_millis(linger)).await;
            }
            drop(or);
            drop(ow);
        });
    }
}

// ------------------------------------------------------------------------------------------------
// scripts

struct Script {
    id: String,
    cfg: HashMap<String, String>,
    ops: Vec<Vec<String>>,
}

fn parse_scripts(text: &str) -> Vec<Script> {
    let mut out = Vec::new();
    let mut cur: Option<Script> = None;
    for line in text.lines() {
        let t: Vec<String> = line.split_whitespace().map(|s| s.to_string()).collect();
        if t.is_empty() {
            continue;
        }
        if t[0] == "S" && t.len() >= 3 {
            let mut cfg = HashMap::new();
            for kv in &t[3..] {
                if let Some((k, v)) = kv.split_once('=') {
                    cfg.insert(k.to_string(), v.to_string());
                }
            }
            cfg.insert("engine".to_string(), t[2].clone());
            cur = Some(Script { id: t[1].clone(), cfg, ops: Vec::new() });
        } else if t[0] == "E" {
            if let Some(s) = cur.take() {
                out.push(s);
            }
        } else if let Some(s) = cur.as_mut() {
            s.ops.push(t);
        }
    }
    out
}

impl Script {
    fn int(&self, key: &str, default: u64) -> u64 {
        self.cfg.get(key).and_then(|v| v.parse().ok()).unwrap_or(default)
    }
}

const LOCALHOST: IpAddr = IpAddr::V4(Ipv4Addr::LOCALHOST);

fn class_of(s: &str) -> Option<EventClass> {
    match s {
        "1" => Some(EventClass::Class1),
        "2" => Some(EventClass::Class2),
        "3" => Some(EventClass::Class3),
        _ => None,
    }
}

fn add_point(db: &mut Database, ty: &str, index: u16, class: Option<EventClass>) -> bool {
    // static variations WITH flags (frozen counter: with flags and time), event variations with
    // flags and absolute time: nothing is lost on the wire except what the oracle accounts for
    match ty {
        "bi" => db.add(
            index,
            class,
            BinaryInputConfig::new(StaticBinaryInputVariation::Group1Var2, EventBinaryInputVariation::Group2Var2),
        ),
        "dbbi" => db.add(
            index,
            class,
            DoubleBitBinaryInputConfig::new(
                StaticDoubleBitBinaryInputVariation::Group3Var2,
                EventDoubleBitBinaryInputVariation::Group4Var2,
            ),
        ),
        "bos" => db.add(
            index,
            class,
            BinaryOutputStatusConfig::new(
                StaticBinaryOutputStatusVariation::Group10Var2,
                EventBinaryOutputStatusVariation::Group11Var2,
            ),
        ),
        "ctr" => db.add(
            index,
            class,
            CounterConfig::new(StaticCounterVariation::Group20Var1, EventCounterVariation::Group22Var5, 0),
        ),
        "fctr" => db.add(
            index,
            class,
            FrozenCounterConfig::new(
                StaticFrozenCounterVariation::Group21Var5,
                EventFrozenCounterVariation::Group23Var5,
                0,
            ),
        ),
        "ai" => db.add(
            index,
            class,
            AnalogInputConfig::new(StaticAnalogInputVariation::Group30Var6, EventAnalogInputVariation::Group32Var8, 0.0),
        ),
        "aos" => db.add(
            index,
            class,
            AnalogOutputStatusConfig::new(
                StaticAnalogOutputStatusVariation::Group40Var4,
                EventAnalogOutputStatusVariation::Group42Var8,
                0.0,
            ),
        ),
        "os" => db.add(index, class, OctetStringConfig),
        _ => false,
    }
}

struct Upd {
    ty: String,
    index: u16,
    value: String,
    flags: u8,
    time: Option<Time>,
    force: bool,
}

fn parse_update(op: &[String]) -> Option<Upd> {
    if op.len() < 6 {
        return None;
    }
    Some(Upd {
        ty: op[1].clone(),
        index: op[2].parse().ok()?,
        value: op[3].clone(),
        flags: op[4].parse().unwrap_or(0),
        time: parse_time(&op[5]),
        force: op.get(6).map(|m| m == "force").unwrap_or(false),
    })
}

fn apply_update(db: &mut Database, u: &Upd) -> UpdateInfo {
    let opt = UpdateOptions::new(true, if u.force { EventMode::Force } else { EventMode::Detect });
    let flags = Flags::new(u.flags);
    let t = u.time;
    let num = || u.value.parse::<u64>().unwrap_or(0);
    let fl = || f64::from_bits(u64::from_str_radix(&u.value, 16).unwrap_or(0));
    match u.ty.as_str() {
        "bi" => db.update2(u.index, &BinaryInput { value: num() != 0, flags, time: t }, opt),
        "dbbi" => db.update2(u.index, &DoubleBitBinaryInput { value: dbit_of(num()), flags, time: t }, opt),
        "bos" => db.update2(u.index, &BinaryOutputStatus { value: num() != 0, flags, time: t }, opt),
        "ctr" => db.update2(u.index, &Counter { value: num() as u32, flags, time: t }, opt),
        "fctr" => db.update2(u.index, &FrozenCounter { value: num() as u32, flags, time: t }, opt),
        "ai" => db.update2(u.index, &AnalogInput { value: fl(), flags, time: t }, opt),
        "aos" => db.update2(u.index, &AnalogOutputStatus { value: fl(), flags, time: t }, opt),
        "os" => match OctetString::new(&unhex(&u.value)) {
            Ok(s) => db.update2(u.index, &s, opt),
            Err(_) => UpdateInfo::NoPoint,
        },
        _ => UpdateInfo::NoPoint,
    }
}

fn get_point(db: &Database, ty: &str, index: u16) -> Option<String> {
    match ty {
        "bi" => Get::<BinaryInput>::get(db, index).map(|v| v.canon()),
        "dbbi" => Get::<DoubleBitBinaryInput>::get(db, index).map(|v| v.canon()),
        "bos" => Get::<BinaryOutputStatus>::get(db, index).map(|v| v.canon()),
        "ctr" => Get::<Counter>::get(db, index).map(|v| v.canon()),
        "fctr" => Get::<FrozenCounter>::get(db, index).map(|v| v.canon()),
        "ai" => Get::<AnalogInput>::get(db, index).map(|v| v.canon()),
        "aos" => Get::<AnalogOutputStatus>::get(db, index).map(|v| v.canon()),
        "os" => Get::<OctetString>::get(db, index).map(|v| format!("{} - -", hex(v.value()))),
        _ => None,
    }
}

fn static_type(ty: &str) -> &'static str {
    match ty {
        "bi" => "bi",
        "dbbi" => "dbbi",
        "bos" => "bos",
        "ctr" => "ctr",
        "fctr" => "fctr",
        "ai" => "ai",
        "aos" => "aos",
        _ => "os",
    }
}

fn decode_level() -> DecodeLevel {
    if std::env::var("PAIR_LOG").is_ok() {
        let mut d = DecodeLevel::nothing();
        d.application = AppDecodeLevel::ObjectValues;
        d.link = LinkDecodeLevel::Header;
        d
    } else {
        DecodeLevel::nothing()
    }
}

fn buffer_size(n: u64) -> BufferSize {
    BufferSize::try_from(n as usize).unwrap_or_else(|_| BufferSize::min())
}

async fn run_script(s: &Script, trace: Trace) {
    let lem = if s.int("discard", 0) != 0 { LinkErrorMode::Discard } else { LinkErrorMode::Close };
    let master_addr = EndpointAddress::try_new(1).unwrap();
    let out_addr = EndpointAddress::try_new(1024).unwrap();

    // ---- outstation -------------------------------------------------------------------------
    let ev: Vec<u16> = s
        .cfg
        .get("ev")
        .map(|v| v.split(',').map(|x| x.parse().unwrap_or(3)).collect())
        .unwrap_or_default();
    let evn = |i: usize| *ev.get(i).unwrap_or(&3);
    let evcfg = EventBufferConfig::new(evn(0), evn(1), evn(2), evn(3), evn(4), evn(5), evn(6), evn(7));
    let mut ocfg = OutstationConfig::new(out_addr, master_addr, evcfg);
    ocfg.solicited_buffer_size = buffer_size(s.int("osol", 2048));
    ocfg.unsolicited_buffer_size = buffer_size(s.int("ounsol", 2048));
    ocfg.rx_buffer_size = buffer_size(s.int("orx", 2048));
    ocfg.confirm_timeout = Timeout::from_millis(s.int("cto", 300)).unwrap();
    ocfg.unsolicited_retry_delay = Duration::from_millis(s.int("uretry", 30));
    ocfg.max_unsolicited_retries = match s.int("umax", 0) {
        0 => None,
        n => Some(n as usize),
    };
    ocfg.keep_alive_timeout = None;
    ocfg.class_zero.octet_string = true;
    ocfg.decode_level = decode_level();

    let mut server = Server::new_tcp_server(lem, SocketAddr::new(LOCALHOST, 0));
    let outstation = match server.add_outstation(
        ocfg,
        Box::new(OutApp(trace.clone())),
        Box::new(OutInfo(trace.clone())),
        Box::new(Controls(trace.clone())),
        Box::new(OutConnListener(trace.clone())),
        AddressFilter::Any,
    ) {
        Ok(o) => o,
        Err(e) => {
            trace.log(format!("setup-error add_outstation {:?}", e));
            return;
        }
    };
    let server_handle = match server.bind().await {
        Ok(h) => h,
        Err(e) => {
            trace.log(format!("setup-error bind {}", e));
            return;
        }
    };
    let out_port = server_handle.local_addr().map(|a| a.port()).unwrap_or(0);

    // ---- proxy ------------------------------------------------------------------------------
    let (cut_tx, _cut_rx) = tokio::sync::watch::channel(0u64);
    let ctl = Arc::new(ProxyCtl {
        chunk: AtomicUsize::new(s.int("chunk", 4096) as usize),
        gap_us: AtomicU64::new(s.int("gap", 0)),
        linger_ms: AtomicU64::new(s.int("linger", 0)),
        cutat: [AtomicI64::new(-1), AtomicI64::new(-1)],
        flipat: [AtomicI64::new(-1), AtomicI64::new(-1)],
        flipmask: [AtomicU64::new(0), AtomicU64::new(0)],
        cut: cut_tx,
        trace: trace.clone(),
    });
    let listener = match TcpListener::bind(SocketAddr::new(LOCALHOST, 0)).await {
        Ok(l) => l,
        Err(e) => {
            trace.log(format!("setup-error proxy bind {}", e));
            return;
        }
    };
    let proxy_port = listener.local_addr().map(|a| a.port()).unwrap_or(0);
    let proxy_task = tokio::spawn(proxy(listener, SocketAddr::new(LOCALHOST, out_port), ctl.clone()));

    // ---- master -----------------------------------------------------------------------------
    let mut mcfg = MasterChannelConfig::new(master_addr);
    mcfg.decode_level = decode_level();
    mcfg.tx_buffer_size = BufferSize::try_from(s.int("mtx", 2048) as usize).unwrap_or_else(|_| BufferSize::min());
    let reconnect = Duration::from_millis(s.int("reconnect", 15));
    let mut master = spawn_master_tcp_client(
        lem,
        mcfg,
        EndpointList::single(format!("127.0.0.1:{proxy_port}")),
        ConnectStrategy::new(reconnect, reconnect * 2, reconnect),
        Box::new(ConnListener(trace.clone())),
    );
    let unsol = s.int("unsol", 1) != 0;
    let mut acfg = AssociationConfig::new(
        EventClasses::all(),
        if unsol { EventClasses::all() } else { EventClasses::none() },
        Classes::all(),
        if s.int("evscan", 0) != 0 { EventClasses::all() } else { EventClasses::none() },
    );
    acfg.response_timeout = Timeout::from_millis(s.int("rto", 500)).unwrap();
    acfg.auto_tasks_retry_strategy = RetryStrategy::new(Duration::from_millis(20), Duration::from_millis(100));
    acfg.auto_integrity_scan_on_buffer_overflow = true;
    acfg.keep_alive_timeout = None;
    acfg.auto_time_sync = None;

    let hstate = Arc::new(Mutex::new(HState { last: HashMap::new(), events: 0 }));
    let handler = Handler { trace: trace.clone(), state: hstate.clone() };
    let mut assoc = match master
        .add_association(out_addr, acfg, Box::new(handler), Box::new(AssocHandler), Box::new(AssocInfo))
        .await
    {
        Ok(a) => a,
        Err(e) => {
            trace.log(format!("setup-error add_association {:?}", e));
            return;
        }
    };
    let poll_ms = s.int("poll", 50);
    let _poll = if poll_ms > 0 {
        assoc
            .add_poll(ReadRequest::class_scan(Classes::class123()), Duration::from_millis(poll_ms))
            .await
            .ok()
    } else {
        None
    };
    if master.enable().await.is_err() {
        trace.log("setup-error enable".to_string());
        return;
    }

    // ---- ops --------------------------------------------------------------------------------
    let mut points: Vec<(String, u16)> = Vec::new();
    let mut batch: Option<Vec<(usize, Upd)>> = None;
    for (n, op) in s.ops.iter().enumerate() {
        let name = op[0].as_str();
        if batch.is_none() || name != "update" {
            trace.log(format!("op {}", n));
        }
        match name {
            "add" if op.len() >= 4 => {
                let index: u16 = op[2].parse().unwrap_or(0);
                let ok = outstation.transaction(|db| add_point(db, &op[1], index, class_of(&op[3])));
                if ok {
                    points.push((op[1].clone(), index));
                } else {
                    trace.log("add-failed".to_string());
                }
            }
            "begin" => batch = Some(Vec::new()),
            "update" => match parse_update(op) {
                None => trace.log("bad-op".to_string()),
                Some(u) => {
                    if let Some(b) = batch.as_mut() {
                        b.push((n, u));
                    } else {
                        let info = outstation.transaction(|db| apply_update(db, &u));
                        trace.log(info_ids(info));
                    }
                }
            },
            "commit" => {
                if let Some(b) = batch.take() {
                    // the markers of all updates of the transaction come before the transaction
                    for (k, _) in &b {
                        trace.log(format!("op {}", k));
                    }
                    let infos: Vec<UpdateInfo> =
                        outstation.transaction(|db| b.iter().map(|(_, u)| apply_update(db, u)).collect());
                    for i in infos {
                        trace.log(info_ids(i));
                    }
                }
            }
            "command" if op.len() >= 3 => {
                let index: u16 = op[1].parse().unwrap_or(0);
                let value: i32 = op[2].parse().unwrap_or(0);
                let res = assoc
                    .operate(
                        CommandMode::DirectOperate,
                        CommandBuilder::single_header_u16(Group41Var1::new(value), index),
                    )
                    .await;
                match res {
                    Ok(()) => trace.log("cmdres ok".to_string()),
                    Err(e) => trace.log(format!("cmdres {}", format!("{:?}", e).replace(' ', ""))),
                }
            }
            "cut" => ctl.cut_now(),
            "cutat" if op.len() >= 3 => {
                let dir = if op[1] == "o2m" { 1 } else { 0 };
                ctl.cutat[dir].store(op[2].parse().unwrap_or(1), Ordering::SeqCst);
            }
            "flipat" if op.len() >= 4 => {
                let dir = if op[1] == "o2m" { 1 } else { 0 };
                ctl.flipmask[dir].store(op[3].parse().unwrap_or(1), Ordering::SeqCst);
                ctl.flipat[dir].store(op[2].parse().unwrap_or(0), Ordering::SeqCst);
            }
            "chunk" if op.len() >= 2 => ctl.chunk.store(op[1].parse().unwrap_or(4096), Ordering::Relaxed),
            "linger" if op.len() >= 2 => ctl.linger_ms.store(op[1].parse().unwrap_or(0), Ordering::Relaxed),
            "gap" if op.len() >= 2 => ctl.gap_us.store(op[1].parse().unwrap_or(0), Ordering::Relaxed),
            "wait" if op.len() >= 2 => {
                tokio::time::sleep(Duration::from_millis(op[1].parse().unwrap_or(0))).await
            }
            "quiesce" => {
                let limit = Duration::from_millis(s.int("qlimit", 10_000));
                let start = Instant::now();
                let mut rounds = 0u32;
                let mut done = false;
                // why the attempts failed (kept for the `timeout` case): error text -> count
                let mut errors: Vec<(String, u32)> = Vec::new();
                let mut note = |e: String| match errors.iter_mut().find(|x| x.0 == e) {
                    Some(x) => x.1 += 1,
                    None => errors.push((e, 1)),
                };
                while start.elapsed() < limit {
                    rounds += 1;
                    let left = limit.saturating_sub(start.elapsed());
                    // an integrity poll that starts now, i.e. after the last update / command / cut
                    let r = tokio::time::timeout(left, assoc.read(ReadRequest::class_scan(Classes::all()))).await;
                    match r {
                        Ok(Ok(())) => {}
                        Ok(Err(e)) => {
                            note(format!("integrity:{:?}", e).replace(' ', ""));
                            tokio::time::sleep(Duration::from_millis(20)).await;
                            continue;
                        }
                        Err(_) => {
                            note("integrity:never-completed".to_string());
                            continue;
                        }
                    }
                    let before = hstate.lock().unwrap().events;
                    let left = limit.saturating_sub(start.elapsed());
                    let r = tokio::time::timeout(left, assoc.read(ReadRequest::class_scan(Classes::class123()))).await;
                    match r {
                        Ok(Ok(())) => {}
                        Ok(Err(e)) => {
                            note(format!("eventpoll:{:?}", e).replace(' ', ""));
                            tokio::time::sleep(Duration::from_millis(20)).await;
                            continue;
                        }
                        Err(_) => {
                            note("eventpoll:never-completed".to_string());
                            continue;
                        }
                    }
                    // the event poll (and everything else since the integrity poll completed) delivered
                    // no event; static data of automatic integrity polls in between does not count
                    if hstate.lock().unwrap().events == before {
                        done = true;
                        break;
                    }
                    note("eventpoll:delivered-events".to_string());
                }
                if !done {
                    for (e, n) in &errors {
                        trace.log(format!("qerr {} {}", n, e));
                    }
                }
                let _ = master.disable().await;
                // let a handler call that may be in flight finish before the state is read
                tokio::time::sleep(Duration::from_millis(20)).await;
                trace.log(if done { format!("quiesced {}", rounds) } else { "timeout".to_string() });
                let st = hstate.lock().unwrap();
                for (ty, index) in &points {
                    let dbv = outstation.transaction(|db| get_point(db, ty, *index));
                    trace.log(format!("db {} {} {}", ty, index, dbv.unwrap_or_else(|| "missing".to_string())));
                    match st.last.get(&(static_type(ty), *index)) {
                        Some(v) => trace.log(format!("seen {} {} {}", ty, index, v)),
                        None => trace.log(format!("seen {} {} never", ty, index)),
                    }
                }
            }
            _ => trace.log("bad-op".to_string()),
        }
    }

    // ---- teardown: nothing may survive the script ---------------------------------------------
    proxy_task.abort();
    ctl.cut_now();
    drop(assoc);
    drop(master);
    drop(server_handle);
    drop(outstation);
}

// ------------------------------------------------------------------------------------------------
// engine `accept` (property C01): hostile and well-formed peers against the connection-accepting code

struct NoRead;
impl ReadHandler for NoRead {}

/// the channels the server handed out: a dropped MasterChannel shuts its session down
type Kept = Arc<Mutex<Vec<(MasterChannel, Option<AssociationHandle>)>>>;

struct AcceptHandler {
    trace: Trace,
    linkid: bool,
    lem: LinkErrorMode,
    kept: Kept,
}

impl AcceptHandler {
    fn channel_config(&self, master: EndpointAddress) -> AcceptConfig {
        let mut config = MasterChannelConfig::new(master);
        config.decode_level = decode_level();
        AcceptConfig { error_mode: self.lem, config }
    }

    /// association for the peer's address (start-up integrity poll as the first request), then enable
    async fn begin(&mut self, mut channel: MasterChannel, source: u16) {
        let mut assoc = None;
        if let Ok(addr) = EndpointAddress::try_new(source) {
            let mut acfg = AssociationConfig::new(
                EventClasses::none(),
                EventClasses::none(),
                Classes::all(),
                EventClasses::none(),
            );
            acfg.response_timeout = Timeout::from_millis(1000).unwrap();
            acfg.keep_alive_timeout = None;
            acfg.auto_time_sync = None;
            assoc = channel
                .add_association(addr, acfg, Box::new(NoRead), Box::new(AssocHandler), Box::new(AssocInfo))
                .await
                .ok();
        }
        let _ = channel.enable().await;
        self.kept.lock().unwrap_or_else(|e| e.into_inner()).push((channel, assoc));
    }
}

impl ConnectionHandler for AcceptHandler {
    async fn accept(&mut self, _: SocketAddr) -> Result<AcceptAction, Reject> {
        if self.linkid {
            Ok(AcceptAction::GetLinkIdentity)
        } else {
            Ok(AcceptAction::Accept(self.channel_config(EndpointAddress::try_new(1).unwrap())))
        }
    }

    async fn start(&mut self, channel: MasterChannel, _: SocketAddr) {
        self.trace.log("started plain".to_string());
        self.begin(channel, 1024).await;
    }

    async fn accept_link_id(&mut self, _: SocketAddr, source: u16, destination: u16) -> Result<AcceptConfig, Reject> {
        match EndpointAddress::try_new(destination) {
            Ok(master) => Ok(self.channel_config(master)),
            Err(_) => {
                self.trace.log(format!("rejected {} {}", source, destination));
                Err(Reject)
            }
        }
    }

    async fn start_with_link_id(&mut self, channel: MasterChannel, _: SocketAddr, source: u16, destination: u16) {
        self.trace.log(format!("started {} {}", source, destination));
        self.begin(channel, source).await;
    }
}

async fn peer_close(mut s: TcpStream, rst: bool) {
    if rst {
        let _ = s.set_linger(Some(Duration::ZERO));
    } else {
        let _ = s.shutdown().await;
    }
    drop(s);
}

/// octets of the link frame whose LENGTH octet is `len`: header block + user data with a CRC per 16 octets
fn link_frame_size(len: u8) -> Option<usize> {
    if len < 5 {
        return None;
    }
    let n = len as usize - 5;
    Some(10 + n + 2 * ((n + 15) / 16))
}

/// a well-formed peer: connect, send the request, collect `nframes` link frames before the deadline
async fn good_peer(addr: SocketAddr, request: &[u8], nframes: usize, limit: Duration) -> String {
    let deadline = tokio::time::Instant::now() + limit;
    let mut s = match tokio::time::timeout_at(deadline, TcpStream::connect(addr)).await {
        Ok(Ok(s)) => s,
        _ => return "good not-served connect-failed -".to_string(),
    };
    let _ = s.set_nodelay(true);
    if s.write_all(request).await.is_err() {
        return "good not-served write-failed -".to_string();
    }
    let mut buf: Vec<u8> = Vec::new();
    let mut frames: Vec<Vec<u8>> = Vec::new();
    let received = |frames: &Vec<Vec<u8>>, buf: &Vec<u8>| {
        let all: Vec<u8> = frames.iter().flatten().chain(buf.iter()).copied().collect();
        hex(&all)
    };
    let why = loop {
        loop {
            if (!buf.is_empty() && buf[0] != 0x05) || (buf.len() >= 2 && buf[1] != 0x64) {
                return format!("good not-served bad-start {}", received(&frames, &buf));
            }
            if buf.len() < 10 {
                break;
            }
            match link_frame_size(buf[2]) {
                None => return format!("good not-served bad-length {}", received(&frames, &buf)),
                Some(n) if buf.len() >= n => frames.push(buf.drain(..n).collect()),
                Some(_) => break,
            }
        }
        if frames.len() >= nframes {
            let _ = s.shutdown().await;
            let list: Vec<String> = frames.iter().map(|f| hex(f)).collect();
            return format!("good served {}", list.join(","));
        }
        let mut chunk = [0u8; 1024];
        match tokio::time::timeout_at(deadline, s.read(&mut chunk)).await {
            Err(_) => break "timeout",
            Ok(Ok(0)) | Ok(Err(_)) => break "closed",
            Ok(Ok(n)) => buf.extend_from_slice(&chunk[..n]),
        }
    };
    format!("good not-served {} {}", why, received(&frames, &buf))
}

async fn run_accept_script(s: &Script, trace: Trace) {
    let lem = if s.int("discard", 0) != 0 { LinkErrorMode::Discard } else { LinkErrorMode::Close };
    let role_master = s.cfg.get("role").map(|r| r != "outstation").unwrap_or(true);
    let kept: Kept = Arc::new(Mutex::new(Vec::new()));

    // ---- the server under test ------------------------------------------------------------------
    let mut _outstation = None;
    let server_handle = if role_master {
        let config = LinkIdConfig::new()
            .max_tasks(std::num::NonZeroUsize::new(s.int("maxtasks", 16).max(1) as usize).unwrap())
            .timeout(Timeout::from_millis(s.int("idto", 300)).unwrap_or_else(|_| Timeout::from_secs(5).unwrap()));
        let handler = AcceptHandler {
            trace: trace.clone(),
            linkid: s.int("linkid", 1) != 0,
            lem,
            kept: kept.clone(),
        };
        match spawn_master_tcp_server(SocketAddr::new(LOCALHOST, 0), config, handler).await {
            Ok(h) => h,
            Err(e) => {
                trace.log(format!("setup-error master server {}", e));
                return;
            }
        }
    } else {
        let mut ocfg = OutstationConfig::new(
            EndpointAddress::try_new(1024).unwrap(),
            EndpointAddress::try_new(1).unwrap(),
            EventBufferConfig::all_types(3),
        );
        ocfg.features.unsolicited = Feature::Disabled;
        ocfg.keep_alive_timeout = None;
        ocfg.decode_level = decode_level();
        let mut server = Server::new_tcp_server(lem, SocketAddr::new(LOCALHOST, 0));
        let outstation = match server.add_outstation(
            ocfg,
            Box::new(OutApp(trace.clone())),
            Box::new(OutInfo(trace.clone())),
            Box::new(Controls(trace.clone())),
            Box::new(OutConnListener(trace.clone())),
            AddressFilter::Any,
        ) {
            Ok(o) => o,
            Err(e) => {
                trace.log(format!("setup-error add_outstation {:?}", e));
                return;
            }
        };
        outstation.transaction(|db| {
            for i in 0..3 {
                add_point(db, "bi", i, Some(EventClass::Class1));
            }
        });
        _outstation = Some(outstation);
        match server.bind().await {
            Ok(h) => h,
            Err(e) => {
                trace.log(format!("setup-error bind {}", e));
                return;
            }
        }
    };
    let addr = match server_handle.local_addr() {
        Some(a) => SocketAddr::new(LOCALHOST, a.port()),
        None => {
            trace.log("setup-error no local address".to_string());
            return;
        }
    };

    // ---- ops ------------------------------------------------------------------------------------
    for (n, op) in s.ops.iter().enumerate() {
        trace.log(format!("op {}", n));
        match op[0].as_str() {
            "bad" if op.len() >= 5 => {
                let kind = &op[1];
                let data = unhex(&op[2]);
                let hold: u64 = op[3].parse().unwrap_or(0);
                let rst = op[4] == "rst";
                match tokio::time::timeout(Duration::from_secs(3), TcpStream::connect(addr)).await {
                    Ok(Ok(mut peer)) => {
                        let _ = peer.set_nodelay(true);
                        let sent = data.is_empty() || peer.write_all(&data).await.is_ok();
                        if hold == 0 {
                            peer_close(peer, rst).await;
                        } else {
                            tokio::spawn(async move {
                                tokio::time::sleep(Duration::from_millis(hold)).await;
                                peer_close(peer, rst).await;
                            });
                        }
                        trace.log(format!("bad {} {} {}", kind, if sent { "sent" } else { "write-failed" }, data.len()));
                    }
                    _ => trace.log(format!("bad {} connect-failed", kind)),
                }
            }
            "good" if op.len() >= 4 => {
                let request = unhex(&op[1]);
                let nframes: usize = op[2].parse().unwrap_or(1);
                let limit = Duration::from_millis(op[3].parse().unwrap_or(3000));
                let outcome = good_peer(addr, &request, nframes, limit).await;
                trace.log(outcome);
            }
            "wait" if op.len() >= 2 => {
                tokio::time::sleep(Duration::from_millis(op[1].parse().unwrap_or(0))).await
            }
            _ => trace.log("bad-op".to_string()),
        }
    }

    // ---- teardown -------------------------------------------------------------------------------
    kept.lock().unwrap_or_else(|e| e.into_inner()).clear();
    drop(server_handle);
    drop(_outstation);
}

fn main() {
    let path = match std::env::args().nth(1) {
        Some(p) => p,
        None => {
            eprintln!("usage: pairtest <script file>");
            std::process::exit(2);
        }
    };
    let text = std::fs::read_to_string(&path).expect("cannot read the script file");
    // PAIR_LOG=1: the library's own log (tracing) on stderr, for looking into a failing script by hand
    let debug_log = std::env::var("PAIR_LOG").is_ok();
    if debug_log {
        tracing_subscriber::fmt()
            .with_max_level(tracing::Level::DEBUG)
            .with_target(false)
            .with_writer(std::io::stderr)
            .init();
    }
    std::panic::set_hook(Box::new(|info| {
        let msg = format!("{}", info).replace('\n', " ");
        PANICS.lock().unwrap_or_else(|e| e.into_inner()).push(msg);
    }));
    use std::io::Write;
    let stdout = std::io::stdout();
    for s in parse_scripts(&text) {
        let trace = Trace::new();
        let engine = s.cfg.get("engine").cloned().unwrap_or_default();
        if engine != "pair" && engine != "accept" {
            let mut o = stdout.lock();
            let _ = writeln!(o, "T {}\nunknown-engine\nE", s.id);
            continue;
        }
        let rt = tokio::runtime::Builder::new_multi_thread()
            .enable_all()
            .worker_threads(s.int("workers", 4).clamp(1, 16) as usize)
            .build()
            .expect("runtime");
        let hard_limit = Duration::from_millis(s.int("hardlimit", 60_000));
        let t2 = trace.clone();
        let finished = rt.block_on(async {
            if engine == "accept" {
                tokio::time::timeout(hard_limit, run_accept_script(&s, t2)).await.is_ok()
            } else {
                tokio::time::timeout(hard_limit, run_script(&s, t2)).await.is_ok()
            }
        });
        // kills every task of the script: master, outstation, server, proxy; closes every socket
        rt.shutdown_timeout(Duration::from_millis(500));
        let mut lines = trace.take();
        if !finished {
            lines.push("script-hard-timeout".to_string());
        }
        for p in std::mem::take(&mut *PANICS.lock().unwrap_or_else(|e| e.into_inner())) {
            lines.push(format!("panic {}", p));
        }
        let mut o = stdout.lock();
        let _ = writeln!(o, "T {}", s.id);
        for l in lines {
            let _ = writeln!(o, "{}", l);
        }
        let _ = writeln!(o, "E");
        let _ = o.flush();
    }
}
