#!/usr/bin/env python3
"""regenerates seeded/README.md from seeded/*/meta.json; `seed_readme.py note <name> <text>` records my own
confirmation and an optional note (a note starting with `first run:` marks a change that escaped at first)"""
import glob, json, os, sys
ROOT = os.path.dirname(os.path.dirname(os.path.abspath(__file__)))
if len(sys.argv) >= 3 and sys.argv[1] == "note":
    p = os.path.join(ROOT, "seeded", sys.argv[2], "meta.json")
    d = json.load(open(p))
    d["confirmed_by_me"] = ["in the scratch worktree: demo fails with patch.diff applied, passes with it reverted; `cargo test -p dnp3 --lib --offline` with patch.diff only: 245 passed",
                            "applied patch.diff to /repo (git apply), ran the quick check(s), un-applied it (git apply -R)"]
    d["check_result"] = [l.rstrip("\n") for l in open(os.path.join(ROOT, "seeded", sys.argv[2], "check_output.txt"))]
    d["caught"] = any(l.startswith("VIOLATION") and "no-failing-input-found" not in l for l in d["check_result"])
    if len(sys.argv) > 3: d["note"] = sys.argv[3]
    json.dump(d, open(p, "w"), indent=1)
rows, first, later = [], 0, 0
for f in sorted(glob.glob(os.path.join(ROOT, "seeded", "*", "meta.json"))):
    d = json.load(open(f)); name = f.split("/")[-2]
    if name.startswith("harmless"): continue
    note = d.get("note")
    import re
    if note and (note.startswith("first run:") or re.search(r"[Ff]irst run: (ESCAPED|only|one model|[0-9]+ model|reported only|NOT CAUGHT|mismatches only)", note)):
        later += 1; outcome = "caught: " + note
    else: first += 1; outcome = "caught: caught at first run" + ("; " + note if note else "")
    if not d.get("caught"): outcome = "NOT CAUGHT " + (note or "")
    cell = lambda s: " ".join(str(s).split()).replace("|", "/")
    rows.append("| %s | %s | %s | %s | %s |" % (name, d["property"], cell(d["summary"])[:400], cell(d["needs"])[:400], cell(outcome)))
head = open(os.path.join(ROOT, "seeded", "README.md")).read().split("Summary:")[0]
txt = head + ("Summary: %d seeded changes; %d caught (VIOLATION with a concrete failing input) at the first run, %d escaped or were\n"
              "reported only as a broken correspondence at first and are caught with a concrete input after the generators/oracles\n"
              "were strengthened (what was added is in the `note` field and in DESIGN.md section 12).\n\n"
              "| seed | property | change | needs | outcome |\n|---|---|---|---|---|\n" % (len(rows), first, later)) + "\n".join(rows) + "\n"
open(os.path.join(ROOT, "seeded", "README.md"), "w").write(txt)
print("%d seeds, %d first run, %d later" % (len(rows), first, later))
