#!/bin/bash
# usage: tools/mutate_revert.sh <commit> <check id>...   - reverts one fix commit of /repo in the working tree,
# runs the named checks, and re-applies the commit (only the hunks of that commit are touched)
c=$1; shift
git -C /repo show $c | git -C /repo apply -R || exit 2
for p in "$@"; do (cd /verif && ./check $p quick 2>&1 | grep -E "^C[0-9]+ quick|VIOLATION|KNOWN" | head -4); done
git -C /repo show $c | git -C /repo apply
