"""Independent reference encoders used by the script generators (NOT derived from /repo):
DNP3 CRC from its polynomial, link frames, transport segments."""

def crc16_dnp(data):
    # polynomial x^16+x^13+x^12+x^11+x^10+x^8+x^6+x^5+x^2+1 (0x3D65), reflected = 0xA6BC,
    # initial value 0, output complemented (IEEE 1815 / IEC 60870-5-1)
    crc = 0
    for b in data:
        crc ^= b
        for _ in range(8):
            crc = (crc >> 1) ^ 0xA6BC if crc & 1 else crc >> 1
    return (~crc) & 0xFFFF

def with_crc(block):
    c = crc16_dnp(block)
    return bytes(block) + bytes([c & 0xFF, c >> 8])

def link_frame(ctrl, dest, src, payload=b""):
    assert len(payload) <= 250
    hdr = bytes([0x05, 0x64, len(payload) + 5, ctrl, dest & 0xFF, dest >> 8, src & 0xFF, src >> 8])
    out = with_crc(hdr)
    for i in range(0, len(payload), 16):
        out += with_crc(payload[i:i + 16])
    return out

def tp_header(fin, fir, seq):
    return (0x80 if fin else 0) | (0x40 if fir else 0) | (seq & 0x3F)

def segments(fragment, seq0=0):
    """list of (transport byte, chunk) as a conforming sender produces them"""
    chunks = [fragment[i:i + 249] for i in range(0, len(fragment), 249)]
    out = []
    for i, c in enumerate(chunks):
        out.append((tp_header(i == len(chunks) - 1, i == 0, (seq0 + i) & 0x3F), c))
    return out

def flip_bits(data, positions):
    b = bytearray(data)
    for p in positions:
        b[p // 8] ^= 1 << (p % 8)
    return bytes(b)


def frames_present(stream):
    """every link frame that is present INTACT in a byte stream, wherever it starts (start octets, header CRC and
    every block CRC valid): list of (ctrl, dest, src, payload).  Independent reference for "was this frame in the
    stream": a truncated frame directly followed by another frame's 10-octet header can form such a frame by
    construction (8 octets + their CRC are a valid body block) - the format is ambiguous there."""
    out = []
    n = len(stream)
    for i in range(n - 9):
        if stream[i] != 0x05 or stream[i + 1] != 0x64:
            continue
        hdr = stream[i:i + 8]
        if with_crc(hdr) != stream[i:i + 10]:
            continue
        L = hdr[2]
        if L < 5:
            continue
        need = L - 5
        pos = i + 10
        payload = b""
        ok = True
        while need > 0:
            k = min(16, need)
            blk = stream[pos:pos + k + 2]
            if len(blk) < k + 2 or with_crc(blk[:k]) != blk:
                ok = False
                break
            payload += blk[:k]
            pos += k + 2
            need -= k
        if ok:
            out.append((hdr[3], hdr[4] | (hdr[5] << 8), hdr[6] | (hdr[7] << 8), payload))
    return out
