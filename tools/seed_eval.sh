#!/bin/bash
# usage: tools/seed_eval.sh <worktree> <name> <check id>...
# 1. confirms the seeded change in its scratch worktree (suite passes except the demo; demo passes without the patch)
# 2. stores it under /verif/seeded/<name>/
# 3. applies the library patch to /repo, runs the named checks, and un-applies it
wt=$1; name=$2; shift 2
export CARGO_NET_OFFLINE=true CARGO_TARGET_DIR=$wt/target
demo=$(python3 -c "import json;print(json.load(open('$wt/SEED/meta.json'))['demo_cmd'])" | sed 's/CARGO_[A-Z_]*=[^ ]* //g')
cd $wt || exit 2
echo "== demo with patch (expect failure)"; (eval "$demo" 2>&1 | grep -E "^test result|FAILED|panicked" | head -3)
git apply -R SEED/patch.diff || exit 2
echo "== demo without patch (expect pass)"; (eval "$demo" 2>&1 | grep -E "^test result" | head -2)
git apply SEED/patch.diff
git stash -q 2>/dev/null; git apply SEED/patch.diff
echo "== existing suite with patch only"; (cargo test -p dnp3 --lib --offline 2>&1 | grep -E "^test result" | head -1)
git checkout -q -- . ; git stash pop -q 2>/dev/null
mkdir -p /verif/seeded/$name && cp SEED/patch.diff SEED/demo.diff SEED/meta.json /verif/seeded/$name/
cd /verif
git -C /repo apply $wt/SEED/patch.diff || { echo "patch does not apply to /repo"; exit 3; }
for p in "$@"; do ./check $p quick 2>&1 | grep -E "^C[0-9]+ quick|VIOLATION|KNOWN" | head -4; done > /verif/seeded/$name/check_output.txt
git -C /repo apply -R $wt/SEED/patch.diff
# evidence files must describe the unchanged tree
for p in "$@"; do ./check $p quick >/dev/null 2>&1; done
cat /verif/seeded/$name/check_output.txt
