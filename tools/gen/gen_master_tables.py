#!/usr/bin/env python3
"""Translator: dnp3/src/master/{association.rs,task.rs,tasks/*.rs,tasks/file/*.rs,error.rs,request.rs},
dnp3/src/app/{retry.rs,timeout.rs,types.rs,header.rs,app_enums.rs,format/write.rs} -> coq/gen/MasterTables.v

Plain data (no proofs) about the MASTER, re-extracted from the current source on every run; the
hand-written models coq/Master/{Assoc,Sched,Backoff,MTask,TimeSync}.v are proved to agree with these tables
in coq/Master/TablesAgree.v (properties C15-C19).

 (a) gm_auto_order            TaskStates::next: the automatic tasks in the order they are considered, the
                              kind of guard of each and the AssociationConfig field in the guard
 (b) gm_task_states_new, gm_on_restart_iin_demands, gm_handlers, gm_association_reset, gm_association_new
                              which automatic task states / association fields the start-up, restart and
                              reset functions set to which constants
 (c) gm_process_iin_*         Association::process_iin: IIN bit -> handler, event class bits, event scan
 (d) gm_config_*, gm_*_default_*   AssociationConfig::{new,quiet,default}, RetryStrategy::default,
                              Timeout::default, default_max_queued_user_requests, MIN_RETRY_DELAY
 (e) gm_backoff_*             ExponentialBackOff::on_failure: first delay, doubling factor, overflow, clamp
 (f) gm_task_function, gm_validate_non_read_response, gm_process_read_response, gm_*_after_accept,
     gm_iin2_bad_request_bits, gm_next_task_sources, gm_map_next_task_passes, gm_queue_admit
                              function code of every task, ordered response validation, scheduling order
 (g) gm_timesync_*            TimeSyncProcedure -> first state, per state: function code, object written,
                              next state, checks of the response; Timestamp::MAX_VALUE; the /2

Every function is located by a PINNED header inside a pinned `impl`; a statement, condition or match
arm outside the closed vocabulary below makes the translator fail loudly (`pinned line not found ...`,
`unexpected ...`): the tables are never silently incomplete."""
import hashlib, json, os, re, sys

REPO = os.environ.get("VERIF_REPO", "/repo")
OUT = os.environ.get("VERIF_GEN_OUT") or os.path.join(os.path.dirname(os.path.abspath(__file__)), "..", "..", "coq", "gen")

SOURCES = {}


def die(msg):
    sys.exit("gen_master_tables: " + msg)


def read(p):
    if p not in SOURCES:
        path = os.path.join(REPO, p)
        if not os.path.exists(path):
            die("pinned file not found: " + p)
        SOURCES[p] = open(path).read()
    return SOURCES[p]


def strip_comments(src):
    """remove // comments (the anchored files have no `//` inside string literals that matter: a
    tracing message containing `//` would only lose its tail, and tracing statements are skipped)"""
    return re.sub(r"//[^\n]*", "", src)


def block_after(src, start, what):
    """text between the `{` at/after index start and its matching `}`"""
    i = src.find("{", start)
    if i < 0:
        die("no block after " + what)
    depth = 0
    for j in range(i, len(src)):
        c = src[j]
        if c == "{":
            depth += 1
        elif c == "}":
            depth -= 1
            if depth == 0:
                return src[i + 1:j], j + 1
    die("unbalanced braces in " + what)


def item_body(path, src, header_regex, what):
    """body of the item (impl / fn / enum / struct) whose header matches; the header must be unique"""
    ms = list(re.finditer(header_regex, src))
    if len(ms) != 1:
        die("pinned line not found in %s (%s): /%s/ matches %d times" % (path, what, header_regex, len(ms)))
    body, _ = block_after(src, ms[0].end() - 1 if src[ms[0].end() - 1] == "{" else ms[0].end(), what)
    return body


def norm(s):
    return " ".join(s.split())


def pin(path, text, what, src=None):
    hay = norm(strip_comments(read(path))) if src is None else norm(src)
    if norm(text) not in hay:
        die("pinned line not found in %s (%s): %s" % (path, what, norm(text)))


# --------------------------------------------------------------------------------------------
# a small statement splitter for Rust blocks (enough for the anchored functions)

def _skip_ws(t, i):
    while i < len(t) and t[i].isspace():
        i += 1
    return i


def _find_block_open(t, i, what):
    """index of the `{` that opens the block of the `if`/`while`/`match` header starting at i"""
    depth = 0
    while i < len(t):
        c = t[i]
        if c in "([":
            depth += 1
        elif c in ")]":
            depth -= 1
        elif c == "{" and depth == 0:
            return i
        elif c == ";" and depth == 0:
            break
        i += 1
    die("no block found in " + what)


def split_stmts(t, what):
    """top-level statements of a block:
         ('if', cond, then_text, else_text or None)      else_text of `else if` is the nested if as text
         ('block', header, body)                         while / for / loop / match
         ('stmt', text)                                  terminated by `;`
         ('expr', text)                                  the trailing expression"""
    out = []
    i = 0
    while True:
        i = _skip_ws(t, i)
        if i >= len(t):
            return out
        m = re.match(r"(if|while|for|loop|match)\b", t[i:])
        if m:
            kw = m.group(1)
            j = _find_block_open(t, i, what)
            header = norm(t[i + len(kw):j])
            body, k = block_after(t, j, what)
            if kw == "if":
                k2 = _skip_ws(t, k)
                els = None
                if t.startswith("else", k2):
                    k3 = _skip_ws(t, k2 + 4)
                    if t.startswith("if", k3):
                        # else if: take the whole nested statement
                        rest = split_stmts(t[k3:], what)
                        first = rest[0]
                        # find where the nested if ends: re-scan
                        jj = _find_block_open(t, k3, what)
                        _, kk = block_after(t, jj, what)
                        while True:
                            k4 = _skip_ws(t, kk)
                            if t.startswith("else", k4):
                                jj = t.find("{", k4)
                                _, kk = block_after(t, jj, what)
                            else:
                                break
                        els = t[k3:kk]
                        k = kk
                    else:
                        els, k = block_after(t, k3, what)
                out.append(("if", header, body, els))
            else:
                out.append(("block", kw + " " + header, body))
            i = k
            i2 = _skip_ws(t, i)
            if i2 < len(t) and t[i2] == ";":
                i = i2 + 1
            continue
        # plain statement up to `;` at depth 0
        depth = 0
        j = i
        while j < len(t):
            c = t[j]
            if c in "([{":
                depth += 1
            elif c in ")]}":
                depth -= 1
            elif c == ";" and depth == 0:
                break
            j += 1
        if j >= len(t):
            out.append(("expr", norm(t[i:])))
            return out
        out.append(("stmt", norm(t[i:j])))
        i = j + 1


def is_tracing(s):
    return s[0] in ("stmt", "expr") and s[1].startswith("tracing::")


def match_arms(body, what):
    """arms `pattern => rhs` of the single top-level `match` of a function body, in order"""
    st = [s for s in split_stmts(body, what) if not is_tracing(s)]
    if len(st) != 1 or st[0][0] != "block" or not st[0][1].startswith("match "):
        die("unexpected shape of %s (a single match is expected)" % what)
    t = st[0][2]
    arms = []
    i = 0
    while True:
        i = _skip_ws(t, i)
        if i >= len(t):
            break
        j = t.find("=>", i)
        if j < 0:
            die("unexpected text in match of %s: %r" % (what, t[i:i + 60]))
        pat = norm(t[i:j])
        k = _skip_ws(t, j + 2)
        if t[k] == "{":
            rhs, k2 = block_after(t, k, what)
            rhs = norm(rhs)
        else:
            depth = 0
            k2 = k
            while k2 < len(t):
                c = t[k2]
                if c in "([{":
                    depth += 1
                elif c in ")]}":
                    depth -= 1
                elif c == "," and depth == 0:
                    break
                k2 += 1
            rhs = norm(t[k:k2])
        k2 = _skip_ws(t, k2)
        if k2 < len(t) and t[k2] == ",":
            k2 += 1
        arms.append((pat, rhs))
        i = k2
    return st[0][1][len("match "):], arms


def duration_ms(expr, what):
    m = re.fullmatch(r"Duration::from_(secs|millis)\((\d[\d_]*)\)", expr.strip())
    if not m:
        die("unexpected duration expression in %s: %s" % (what, expr))
    n = int(m.group(2).replace("_", ""))
    return n * 1000 if m.group(1) == "secs" else n


def num(txt):
    txt = txt.replace("_", "")
    if txt.startswith("0x"): return int(txt, 16)
    if txt.startswith("0b"): return int(txt, 2)
    return int(txt)


# --------------------------------------------------------------------------------------------
# Coq rendering

def qs(s):
    if '"' in s:
        die("cannot render string with a quote: " + s)
    return '"%s"' % s


def coq_list(items, indent="  "):
    if not items:
        return "[]"
    return "[\n" + ";\n".join(indent + x for x in items) + "]"


def main():
    os.makedirs(OUT, exist_ok=True)
    A = "dnp3/src/master/association.rs"
    T = "dnp3/src/master/task.rs"
    asrc = strip_comments(read(A))
    tsrc = strip_comments(read(T))

    # ---- function codes and qualifier codes (numbers of the names used below) --------------------
    enums = read("dnp3/src/app/app_enums.rs")
    i = enums.find("pub enum FunctionCode")
    if i < 0:
        die("pinned line not found in dnp3/src/app/app_enums.rs (enum FunctionCode): pub enum FunctionCode")
    fcodes = dict((n, int(c)) for n, c in re.findall(r"FunctionCode::(\w+) => (\d+),", enums[i:]))
    qcodes = dict((n, int(c, 16)) for n, c in re.findall(r"QualifierCode::(\w+) => (0x[0-9A-Fa-f]+),", enums[:i]))
    if not fcodes or "Count8" not in qcodes or "Range8" not in qcodes:
        die("FunctionCode::as_u8 / QualifierCode::as_u8 have unexpected shapes")

    def fc(name, what):
        if name not in fcodes:
            die("%s: unknown function code %s" % (what, name))
        return fcodes[name]

    # ---- IIN bits -----------------------------------------------------------------------------------
    H = "dnp3/src/app/header.rs"
    hsrc = strip_comments(read(H))
    iin_bits = {}
    for byte, impl in ((1, "impl Iin1 {"), (2, "impl Iin2 {")):
        body = item_body(H, hsrc, re.escape(impl), impl)
        for m in re.finditer(r"pub fn (get_\w+)\(self\) -> bool \{\s*self\.value\.bit_(\d)\(\)\s*\}", body):
            iin_bits[(byte, m.group(1))] = int(m.group(2))
    if len(iin_bits) < 14:
        die("Iin1/Iin2 getters have an unexpected shape (%d getters found)" % len(iin_bits))

    def iin_bit(expr, what):
        m = re.fullmatch(r"(?:response\.header\.)?(?:self\.)?iin\.iin([12])\.(get_\w+)\(\)", expr)
        if not m or (int(m.group(1)), m.group(2)) not in iin_bits:
            die("unexpected IIN test in %s: %s" % (what, expr))
        return int(m.group(1)), iin_bits[(int(m.group(1)), m.group(2))], m.group(2)

    body = item_body(H, hsrc, r"pub\(crate\) fn has_bad_request_error\(self\) -> bool \{", "Iin::has_bad_request_error")
    terms = [t.strip() for t in norm(body).split("||")]
    bad_bits = []
    for t in terms:
        m = re.fullmatch(r"self\.iin2\.(get_\w+)\(\)", t)
        if not m or (2, m.group(1)) not in iin_bits:
            die("unexpected term in Iin::has_bad_request_error: " + t)
        bad_bits.append(iin_bits[(2, m.group(1))])
    pin(H, "pub(crate) fn is_fir_and_fin(self) -> bool { self.fir && self.fin }", "ControlField::is_fir_and_fin")
    pin(H, "ResponseFunction::Response => false, ResponseFunction::UnsolicitedResponse => true,", "ResponseFunction::is_unsolicited")

    # ---- (a) TaskStates --------------------------------------------------------------------------------
    ts_fields = re.findall(r"(\w+): AutoTaskState,", item_body(A, asrc, r"pub\(crate\) struct TaskStates \{", "struct TaskStates"))
    if not ts_fields:
        die("struct TaskStates has an unexpected shape")
    cfg_struct = item_body(A, asrc, r"pub struct AssociationConfig \{", "struct AssociationConfig")
    cfg_fields = re.findall(r"pub (\w+): ([^,]+),", re.sub(r"#\[[^\]]*\]\s*", "", re.sub(r"#\[cfg_attr\((?:[^()]|\([^()]*\))*\)\]", "", cfg_struct)))
    cfg_names = [n for n, _ in cfg_fields]
    if len(cfg_names) < 5:
        die("struct AssociationConfig has an unexpected shape")

    impl_ts = item_body(A, asrc, r"impl TaskStates \{", "impl TaskStates")
    impl_auto = item_body(A, asrc, r"impl AutoTaskState \{", "impl AutoTaskState")
    impl_assoc = item_body(A, asrc, r"impl Association \{", "impl Association")
    impl_map = item_body(A, asrc, r"impl AssociationMap \{", "impl AssociationMap")

    # the meaning of the three states (hand-modelled: pinned)
    pin(A, "fn is_pending(&self) -> bool { !self.is_idle() }", "AutoTaskState::is_pending", impl_auto)
    pin(A, "fn is_idle(&self) -> bool { matches!(self, Self::Idle) }", "AutoTaskState::is_idle", impl_auto)
    pin(A, "Self::Idle => Next::None, Self::Pending => Next::Now(builder()), Self::Failed(_, next) => { if Instant::now() >= *next { Next::Now(builder()) } else { Next::NotBefore(*next) } }",
        "AutoTaskState::create_next_task", impl_auto)
    pin(A, "fn demand(&mut self) -> bool { if self.is_idle() { *self = Self::Pending; true } else { false } }", "AutoTaskState::demand", impl_auto)
    pin(A, "fn done(&mut self) { *self = Self::Idle; }", "AutoTaskState::done", impl_auto)

    new_body = item_body(A, impl_ts, r"pub\(crate\) fn new\(\) -> Self \{", "TaskStates::new")
    ts_new = re.findall(r"(\w+): AutoTaskState::(\w+),", new_body)
    if [n for n, _ in ts_new] != ts_fields or any(v not in ("Idle", "Pending") for _, v in ts_new):
        die("TaskStates::new has an unexpected shape")
    pin(A, "pub(crate) fn reset(&mut self) { *self = Self::new(); }", "TaskStates::reset", impl_ts)

    body = item_body(A, impl_ts, r"fn on_restart_iin\(&mut self\) \{", "TaskStates::on_restart_iin")
    restart_demands = []
    for s in split_stmts(body, "TaskStates::on_restart_iin"):
        m = re.fullmatch(r"self\.(\w+)\.demand\(\)", s[1]) if s[0] == "stmt" else None
        if not m or m.group(1) not in ts_fields:
            die("unexpected statement in TaskStates::on_restart_iin: %s" % (s,))
        restart_demands.append(m.group(1))

    body = item_body(A, impl_ts, r"fn next\(&self, config: &AssociationConfig, association: &Association\) -> Next<Task> \{", "TaskStates::next")
    stmts = split_stmts(body, "TaskStates::next")
    if not stmts or stmts[-1] != ("expr", "Next::None"):
        die("TaskStates::next does not end with Next::None")
    auto_order = []
    lets = {}

    def built_task(text, what):
        m = re.search(r"\b(AutoTask|ReadTask)::(\w+)", text)
        if m:
            return "%s::%s" % (m.group(1), m.group(2))
        if "TimeSyncTask::get_procedure(" in text:
            return "TimeSyncTask::get_procedure"
        die("unexpected task built in %s: %s" % (what, norm(text)))

    def returned_slot(text, what):
        st = split_stmts(text, what)
        if len(st) != 1 or st[0][0] != "stmt":
            die("unexpected body in %s: %s" % (what, norm(text)))
        m = re.fullmatch(r"return self\s*\.(\w+)\s*\.create_next_task\((.*)\)", st[0][1])
        if not m:
            die("unexpected body in %s: %s" % (what, st[0][1]))
        return m.group(1), built_task(m.group(2), what)

    for s in stmts[:-1]:
        if s[0] == "stmt":
            m = re.fullmatch(r"let (\w+) = association\.events_available & config\.(\w+)", s[1])
            if not m or m.group(2) not in cfg_names:
                die("unexpected statement in TaskStates::next: " + s[1])
            lets[m.group(1)] = m.group(2)
            continue
        if s[0] != "if" or s[3] is not None:
            die("unexpected statement in TaskStates::next: %s" % (s[:2],))
        cond = s[1]
        m1 = re.fullmatch(r"self\.(\w+)\.is_pending\(\)", cond)
        m2 = re.fullmatch(r"config\.(\w+)\.any\(\) && self\.(\w+)\.is_pending\(\)", cond)
        m3 = re.fullmatch(r"(\w+)\.any\(\)", cond)
        if m2:
            slot, task = returned_slot(s[2], "TaskStates::next")
            if slot != m2.group(2) or m2.group(1) not in cfg_names:
                die("TaskStates::next: guard on %s but task of %s" % (m2.group(2), slot))
            auto_order.append((slot, "GmCfgAnyAndPending %s" % qs(m2.group(1)), task))
        elif m1:
            inner = split_stmts(s[2], "TaskStates::next")
            if len(inner) == 1 and inner[0][0] == "if":
                mi = re.fullmatch(r"let Some\(\w+\) = config\.(\w+)", inner[0][1])
                if not mi or inner[0][3] is not None or mi.group(1) not in cfg_names:
                    die("unexpected inner condition in TaskStates::next: " + inner[0][1])
                slot, task = returned_slot(inner[0][2], "TaskStates::next")
                kind = "GmPendingAndCfgSome %s" % qs(mi.group(1))
            else:
                slot, task = returned_slot(s[2], "TaskStates::next")
                kind = "GmPending"
            if slot != m1.group(1):
                die("TaskStates::next: guard on %s but task of %s" % (m1.group(1), slot))
            auto_order.append((slot, kind, task))
        elif m3 and m3.group(1) in lets:
            slot, task = returned_slot(s[2], "TaskStates::next")
            auto_order.append((slot, "GmEventsAndCfg %s" % qs(lets[m3.group(1)]), task))
        else:
            die("unexpected condition in TaskStates::next: " + cond)
    if sorted(x[0] for x in auto_order) != sorted(ts_fields):
        die("TaskStates::next does not consider every field of TaskStates exactly once: %s" % [x[0] for x in auto_order])

    # ---- (b) handlers of Association ---------------------------------------------------------------------
    def action(s, what):
        """one statement -> Coq gm_action (or None for tracing)"""
        if is_tracing(s):
            return None
        if s[0] in ("stmt", "expr"):
            t = s[1]
            m = re.fullmatch(r"self\.auto_tasks\.(\w+)\.(demand|done)\(\)", t)
            if m and m.group(1) in ts_fields:
                return "Gm%s %s" % (m.group(2).capitalize(), qs(m.group(1)))
            m = re.fullmatch(r"self\.auto_tasks\.(\w+)\.failure\(&self\.config\)", t)
            if m and m.group(1) in ts_fields:
                return "GmFailure %s" % qs(m.group(1))
            m = re.fullmatch(r"self\.(\w+) = (true|false|None)", t)
            if m:
                return "GmAssign %s %s" % (qs(m.group(1)), qs(m.group(2)))
            if t == "self.auto_tasks.reset()":
                return "GmResetAutoTasks"
            if t == "self.auto_tasks.on_restart_iin()":
                return "GmOnRestartIin"
        if s[0] == "block" and norm(s[1]) == "while let Some(task) = self.request_queue.pop_front()" \
                and norm(s[2]) == "task.on_task_error(Some(self), err.into());":
            return "GmFailQueuedRequests"
        die("unexpected statement in %s: %s" % (what, s[1:3]))

    def actions(text, what):
        return [a for a in (action(s, what) for s in split_stmts(text, what)) if a]

    handlers = []
    for m in re.finditer(r"pub\(crate\) fn (on_\w+)\(&mut self(?:, (_?\w+): (\w+))?\) \{", impl_assoc):
        name = m.group(1)
        if name == "on_link_activity":
            continue
        hb, _ = block_after(impl_assoc, m.end() - 1, name)
        st = [s for s in split_stmts(hb, name) if not is_tracing(s)]
        guard, then, els = "GmAlways", None, []
        if len(st) == 1 and st[0][0] == "if":
            cond = st[0][1]
            mi = re.fullmatch(r"self\.auto_tasks\.(\w+)\.is_idle\(\)", cond)
            mc = re.fullmatch(r"self\.config\.(\w+) && (self\.auto_tasks\.\w+\.demand\(\))", cond)
            if mi and mi.group(1) in ts_fields and st[0][3] is None:
                guard, then = "GmWhenSlotIdle %s" % qs(mi.group(1)), actions(st[0][2], name)
            elif mc and mc.group(1) in cfg_names and st[0][3] is None:
                if actions(st[0][2], name):
                    die("unexpected body in %s" % name)
                guard, then = "GmWhenCfg %s" % qs(mc.group(1)), [action(("stmt", mc.group(2)), name)]
            elif cond.startswith("iin."):
                byte, bit, _g = iin_bit(cond, name)
                if st[0][3] is None:
                    die("unexpected shape of %s" % name)
                guard, then, els = "GmWhenIin %d%%N %d%%N" % (byte, bit), actions(st[0][2], name), actions(st[0][3], name)
            else:
                die("unexpected condition in %s: %s" % (name, cond))
        else:
            then = [a for a in (action(s, name) for s in st) if a]
        handlers.append((name, guard, then, els))
    if len(handlers) < 10:
        die("the on_* handlers of Association have an unexpected shape (%d found)" % len(handlers))
    hnames = [h[0] for h in handlers]

    body = item_body(A, impl_assoc, r"fn reset\(&mut self, err: RunError\) \{", "Association::reset")
    assoc_reset = actions(body, "Association::reset")
    pin(A, "pub(crate) fn reset(&mut self, err: RunError) { for association in &mut self.map.values_mut() { association.reset(err); } }",
        "AssociationMap::reset", impl_map)
    pin(T, "fn reset(&mut self, err: RunError) { self.associations.reset(err); }", "MasterSession::reset")
    pin(T, "if let Err(err) = result { self.reset(err);", "MasterSession::run resets on error")

    body = item_body(A, impl_assoc, r"pub\(crate\) fn new\(\s*address: FragmentAddr,\s*config: AssociationConfig,[^{]*\) -> Self \{", "Association::new")
    mm = re.search(r"Self \{", body)
    if not mm:
        die("Association::new has an unexpected shape")
    init, _ = block_after(body, mm.end() - 1, "Association::new")
    assoc_new = []
    depth = 0
    cur = ""
    for c in init + ",":
        if c in "([{": depth += 1
        elif c in ")]}": depth -= 1
        if c == "," and depth == 0:
            cur = norm(cur)
            if cur:
                m = re.fullmatch(r"(\w+)(?:: (.*))?", cur)
                if not m:
                    die("unexpected initialiser in Association::new: " + cur)
                assoc_new.append((m.group(1), m.group(2) if m.group(2) is not None else m.group(1)))
            cur = ""
        else:
            cur += c
    if len(assoc_new) < 10:
        die("Association::new has an unexpected shape")

    # ---- (c) process_iin -------------------------------------------------------------------------------------
    body = item_body(A, impl_assoc, r"pub\(crate\) fn process_iin\(&mut self, iin: Iin\) \{", "Association::process_iin")
    triggers, ev_bits, scan = [], [], None
    pending_let = {}
    for s in split_stmts(body, "Association::process_iin"):
        if is_tracing(s):
            continue
        if s[0] == "if" and s[1].startswith("iin."):
            byte, bit, getter = iin_bit(s[1], "process_iin")
            inner = [x for x in split_stmts(s[2], "process_iin") if not is_tracing(x)]
            m = re.fullmatch(r"self\.(on_\w+)\(\)", inner[0][1]) if len(inner) == 1 and inner[0][0] in ("stmt", "expr") else None
            if not m or s[3] is not None or m.group(1) not in hnames:
                die("unexpected body in process_iin under %s" % s[1])
            triggers.append((byte, bit, getter, m.group(1)))
        elif s[0] == "stmt" and s[1].startswith("self.events_available."):
            m = re.fullmatch(r"self\.events_available\.(class[123]) = (iin\.iin[12]\.get_\w+\(\))", s[1])
            if not m:
                die("unexpected statement in process_iin: " + s[1])
            byte, bit, getter = iin_bit(m.group(2), "process_iin")
            ev_bits.append((m.group(1), byte, bit, getter))
        elif s[0] == "stmt" and s[1].startswith("let "):
            m = re.fullmatch(r"let (\w+) = self\.events_available & self\.config\.(\w+)", s[1])
            if not m or m.group(2) not in cfg_names:
                die("unexpected statement in process_iin: " + s[1])
            pending_let[m.group(1)] = m.group(2)
        elif s[0] == "if":
            m = re.fullmatch(r"(\w+)\.any\(\) && self\.auto_tasks\.(\w+)\.demand\(\)", s[1])
            if not m or m.group(1) not in pending_let or m.group(2) not in ts_fields or s[3] is not None \
                    or [x for x in split_stmts(s[2], "process_iin") if not is_tracing(x)]:
                die("unexpected condition in process_iin: " + s[1])
            scan = (pending_let[m.group(1)], m.group(2))
        else:
            die("unexpected statement in process_iin: %s" % (s[:2],))
    if not triggers or len(ev_bits) != 3 or scan is None:
        die("Association::process_iin has an unexpected shape")
    pin(A, "pub(crate) fn is_integrity_complete(&self) -> bool { !self.config.startup_integrity_classes.any() || self.startup_integrity_done }",
        "Association::is_integrity_complete", impl_assoc)

    # ---- (d) defaults ---------------------------------------------------------------------------------------------
    impl_cfg = item_body(A, asrc, r"impl AssociationConfig \{", "impl AssociationConfig")
    m = re.search(r"const fn default_max_queued_user_requests\(\) -> usize \{\s*(\d+)\s*\}", impl_cfg)
    if not m:
        die("pinned line not found in %s (default_max_queued_user_requests): const fn default_max_queued_user_requests() -> usize { <n> }" % A)
    max_queued = int(m.group(1))

    def cfg_values(body, params, what):
        mm = re.search(r"Self \{", body)
        if not mm:
            die(what + " has an unexpected shape")
        init, _ = block_after(body, mm.end() - 1, what)
        vals = {}
        for part in init.split(","):
            part = norm(part)
            if not part:
                continue
            m = re.fullmatch(r"(\w+)(?:: (.*))?", part)
            if not m:
                die("unexpected initialiser in %s: %s" % (what, part))
            vals[m.group(1)] = m.group(2)
        if sorted(vals) != sorted(cfg_names):
            die("%s does not initialise every field of AssociationConfig" % what)
        out = []
        for n in cfg_names:
            v = vals[n]
            if v is None:
                if n not in params:
                    die("%s: field %s is not a parameter" % (what, n))
                out.append((n, "GmParam"))
            elif v == "Timeout::default()":
                out.append((n, "GmTimeoutDefault"))
            elif v == "RetryStrategy::default()":
                out.append((n, "GmRetryDefault"))
            elif v == "None":
                out.append((n, "GmNone"))
            elif v in ("true", "false"):
                out.append((n, "GmBool " + v))
            elif v in ("EventClasses::all()", "Classes::all()"):
                out.append((n, "GmAllClasses"))
            elif v in ("EventClasses::none()", "Classes::none()"):
                out.append((n, "GmNoClasses"))
            elif v == "Self::default_max_queued_user_requests()":
                out.append((n, "GmNat %d%%nat" % max_queued))
            else:
                die("unexpected default in %s: %s: %s" % (what, n, v))
        return out

    mnew = re.search(r"pub fn new\(([^)]*)\) -> Self \{", impl_cfg)
    if not mnew:
        die("pinned line not found in %s (AssociationConfig::new): pub fn new(...) -> Self {" % A)
    params = re.findall(r"(\w+):", mnew.group(1))
    nb, _ = block_after(impl_cfg, mnew.end() - 1, "AssociationConfig::new")
    cfg_new = cfg_values(nb, params, "AssociationConfig::new")
    cfg_quiet = cfg_values(item_body(A, impl_cfg, r"pub fn quiet\(\) -> Self \{", "AssociationConfig::quiet"), [], "AssociationConfig::quiet")
    impl_def = item_body(A, asrc, r"impl Default for AssociationConfig \{", "impl Default for AssociationConfig")
    cfg_default = cfg_values(item_body(A, impl_def, r"fn default\(\) -> Self \{", "AssociationConfig::default"), [], "AssociationConfig::default")
    # Classes / EventClasses constructors (hand-modelled as bit masks: pinned)
    R = "dnp3/src/master/request.rs"
    pin(R, "pub fn any(self) -> bool { self.class1 || self.class2 || self.class3 }", "EventClasses::any")
    pin(R, "pub const fn all() -> Self { Self { class1: true, class2: true, class3: true, } }", "EventClasses::all")
    pin(R, "pub const fn none() -> Self { Self { class1: false, class2: false, class3: false, } }", "EventClasses::none")
    pin(R, "pub const fn all() -> Self { Self::new(true, EventClasses::all()) }", "Classes::all")
    pin(R, "pub fn none() -> Self { Self::new(false, EventClasses::none()) }", "Classes::none")
    pin(R, "pub(crate) fn any(&self) -> bool { self.class0 || self.events.any() }", "Classes::any")

    RT = "dnp3/src/app/retry.rs"
    rsrc = strip_comments(read(RT))
    impl_rd = item_body(RT, rsrc, r"impl Default for RetryStrategy \{", "impl Default for RetryStrategy")
    m = re.fullmatch(r"Self::new\((.*), (.*)\)", norm(item_body(RT, impl_rd, r"fn default\(\) -> Self \{", "RetryStrategy::default")))
    if not m:
        die("RetryStrategy::default has an unexpected shape")
    retry_min, retry_max = duration_ms(m.group(1), "RetryStrategy::default"), duration_ms(m.group(2), "RetryStrategy::default")
    pin(RT, "pub fn new(min_delay: Duration, max_delay: Duration) -> Self { Self { min_delay, max_delay, } }", "RetryStrategy::new validates nothing")
    TO = "dnp3/src/app/timeout.rs"
    impl_td = item_body(TO, strip_comments(read(TO)), r"impl Default for Timeout \{", "impl Default for Timeout")
    m = re.fullmatch(r"Self\((.*)\)", norm(item_body(TO, impl_td, r"fn default\(\) -> Self \{", "Timeout::default")))
    if not m:
        die("Timeout::default has an unexpected shape")
    timeout_default = duration_ms(m.group(1), "Timeout::default")

    fb = item_body(A, impl_auto, r"fn failure\(&mut self, config: &AssociationConfig\) \{", "AutoTaskState::failure")
    m = re.search(r"const MIN_RETRY_DELAY: Duration = ([^;]+);", fb)
    if not m:
        die("pinned line not found in %s (AutoTaskState::failure): const MIN_RETRY_DELAY: Duration = ...;" % A)
    min_retry = duration_ms(m.group(1), "MIN_RETRY_DELAY")
    pin(A, "Self::Failed(backoff, _) => { let delay = backoff.on_failure().max(MIN_RETRY_DELAY); Self::Failed(backoff.clone(), Instant::now() + delay) }",
        "AutoTaskState::failure (repeated)", fb)
    pin(A, "_ => { let mut backoff = ExponentialBackOff::new(config.auto_tasks_retry_strategy); let delay = backoff.on_failure().max(MIN_RETRY_DELAY); Self::Failed(backoff, Instant::now() + delay) }",
        "AutoTaskState::failure (first)", fb)

    # ---- (e) back-off ------------------------------------------------------------------------------------------------
    impl_bo = item_body(RT, rsrc, r"impl ExponentialBackOff \{", "impl ExponentialBackOff")
    scrut, arms = match_arms(item_body(RT, impl_bo, r"pub\(crate\) fn on_failure\(&mut self\) -> Duration \{", "ExponentialBackOff::on_failure"),
                             "ExponentialBackOff::on_failure")
    if scrut != "self.last" or [a[0] for a in arms] != ["Some(x)", "None"]:
        die("ExponentialBackOff::on_failure has an unexpected shape")
    m = re.fullmatch(r"let next = x\s*(.*); self\.last = Some\(next\); next", arms[0][1])
    if not m:
        die("ExponentialBackOff::on_failure (Some arm) has an unexpected shape: " + arms[0][1])
    steps = []
    for call in re.findall(r"\.\s*(\w+\([^()]*\))", m.group(1)):
        c = re.fullmatch(r"(\w+)\((.*)\)", call)
        name, arg = c.group(1), c.group(2).strip()
        if name == "checked_mul" and re.fullmatch(r"\d+", arg):
            steps.append("GmCheckedMul %s" % arg)
        elif name == "unwrap_or" and re.fullmatch(r"self\.strategy\.(min|max)_delay", arg):
            steps.append("GmUnwrapOr %s" % qs(arg.split(".")[-1]))
        elif name == "min" and re.fullmatch(r"self\.strategy\.(min|max)_delay", arg):
            steps.append("GmMin %s" % qs(arg.split(".")[-1]))
        elif name == "max" and re.fullmatch(r"self\.strategy\.(min|max)_delay", arg):
            steps.append("GmMax %s" % qs(arg.split(".")[-1]))
        else:
            die("unexpected step in ExponentialBackOff::on_failure: " + call)
    if "x" + "".join("." + s for s in re.findall(r"\.\s*(\w+\([^()]*\))", m.group(1))) != re.sub(r"\s+", "", "x" + m.group(1)):
        die("ExponentialBackOff::on_failure: unparsed text in `%s`" % m.group(1))
    mf = re.fullmatch(r"self\.last = Some\(self\.strategy\.(\w+)\); self\.strategy\.(\w+)", arms[1][1])
    if not mf or mf.group(1) != mf.group(2):
        die("ExponentialBackOff::on_failure (None arm) has an unexpected shape: " + arms[1][1])
    backoff_first = mf.group(1)
    factor = [int(s.split()[1]) for s in steps if s.startswith("GmCheckedMul")]
    if len(factor) != 1:
        die("ExponentialBackOff::on_failure: no single checked_mul")
    pin(RT, "pub(crate) fn on_success(&mut self) { self.last = None; }", "ExponentialBackOff::on_success")
    pin(RT, "pub(crate) fn new(strategy: RetryStrategy) -> Self { Self { strategy, last: None, } }", "ExponentialBackOff::new")

    # ---- (f) function codes of the tasks --------------------------------------------------------------------------------
    TD = "dnp3/src/master/tasks/"
    task_fc = []        # (name, code, FunctionCode name)
    task_fc_param = []  # tasks whose function code is a parameter

    def fn_function(path, impl_name, label, state_prefix=None):
        src = strip_comments(read(path))
        impl = item_body(path, src, r"impl %s \{" % impl_name, "impl " + impl_name)
        ms = list(re.finditer(r"(?:pub\(crate\) )?(?:const )?fn function\(&self\) -> FunctionCode \{", impl))
        if len(ms) != 1:
            die("pinned line not found in %s (%s::function): fn function(&self) -> FunctionCode {" % (path, impl_name))
        body, _ = block_after(impl, ms[0].end() - 1, impl_name + "::function")
        b = norm(body)
        m = re.fullmatch(r"FunctionCode::(\w+)", b)
        if m:
            task_fc.append((label, fc(m.group(1), path), m.group(1)))
            return
        if b == "self.function":
            task_fc_param.append(label)
            return
        scrut, arms = match_arms(body, impl_name + "::function")
        for pat, rhs in arms:
            mp = re.fullmatch(r"(?:\w+)::(\w+)(?:\(_\))?", pat)
            mr = re.fullmatch(r"FunctionCode::(\w+)", rhs)
            if not mp or not mr:
                die("unexpected arm in %s::function: %s => %s" % (impl_name, pat, rhs))
            task_fc.append(("%s::%s" % (label, mp.group(1)), fc(mr.group(1), path), mr.group(1)))

    fn_function(TD + "auto.rs", "AutoTask", "Auto")
    fn_function(TD + "command.rs", "CommandTask", "Command")
    fn_function(TD + "time.rs", "TimeSyncTask", "TimeSync")
    fn_function(TD + "restart.rs", "RestartType", "Restart")
    pin(TD + "restart.rs", "pub(crate) fn function(&self) -> FunctionCode { self.restart_type.function() }", "RestartTask::function")
    fn_function(TD + "deadbands.rs", "WriteDeadBandsTask", "DeadBands")
    fn_function(TD + "empty_response.rs", "EmptyResponseTask", "EmptyResponseTask")
    fn_function(TD + "file/read.rs", "FileReadTask", "FileRead")
    fn_function(TD + "file/authenticate.rs", "AuthFileTask", "AuthFile")
    fn_function(TD + "file/open.rs", "OpenFileTask", "OpenFile")
    fn_function(TD + "file/close.rs", "CloseFileTask", "CloseFile")
    fn_function(TD + "file/write_block.rs", "WriteBlockTask", "WriteFileBlock")
    fn_function(TD + "file/get_info.rs", "GetFileInfoTask", "GetFileInfo")
    msrc = strip_comments(read(TD + "mod.rs"))
    nr_variants = re.findall(r"^\s*(\w+)\((\w+)\),", item_body(TD + "mod.rs", msrc, r"pub\(crate\) enum NonReadTask \{", "enum NonReadTask"), re.M)
    impl_nr = item_body(TD + "mod.rs", msrc, r"impl NonReadTask \{", "impl NonReadTask")
    scrut, arms = match_arms(item_body(TD + "mod.rs", impl_nr, r"pub\(crate\) fn function\(&self\) -> FunctionCode \{", "NonReadTask::function"), "NonReadTask::function")
    if sorted(a[0] for a in arms) != sorted("Self::%s(task)" % v for v, _ in nr_variants) or any(a[1] != "task.function()" for a in arms):
        die("NonReadTask::function has an unexpected shape")
    labels = set(x[0].split("::")[0] for x in task_fc) | set(task_fc_param)
    for v, _ in nr_variants:
        if v not in labels:
            die("NonReadTask::%s has no function code in the table" % v)
    impl_rw = item_body(TD + "mod.rs", msrc, r"impl RequestWriter for ReadTask \{", "impl RequestWriter for ReadTask")
    m = re.fullmatch(r"FunctionCode::(\w+)", norm(item_body(TD + "mod.rs", impl_rw, r"fn function\(&self\) -> FunctionCode \{", "ReadTask::function")))
    if not m:
        die("ReadTask::function has an unexpected shape")
    task_fc.append(("Read", fc(m.group(1), "ReadTask::function"), m.group(1)))
    read_variants = re.findall(r"^\s*(\w+)\(\w+\),", item_body(TD + "mod.rs", msrc, r"pub\(crate\) enum ReadTask \{", "enum ReadTask"), re.M)

    # ---- (f) response validation ----------------------------------------------------------------------------------------------
    E = "dnp3/src/master/error.rs"
    task_errors = re.findall(r"^\s{4}(\w+)(?:\([^)]*\))?,", item_body(E, strip_comments(read(E)), r"pub enum TaskError \{", "enum TaskError"), re.M)
    impl_ms = tsrc  # several `impl MasterSession` blocks: search the whole file, headers are unique
    CHECKS = [
        (r"response\.header\.function\.is_unsolicited\(\)", "unsolicited"),
        (r"source\.link != destination\.link", "source"),
        (r"response\.header\.control\.seq != seq", "sequence"),
        (r"!response\.header\.control\.is_fir_and_fin\(\)", "fir_and_fin"),
        (r"response\.header\.iin\.has_bad_request_error\(\)", "iin2"),
        (r"response\.header\.control\.fir && !is_first", "unexpected_fir"),
        (r"!response\.header\.control\.fir && is_first", "never_fir"),
        (r"!response\.header\.control\.fin && !response\.header\.control\.con", "non_fin_without_con"),
    ]

    def validation(fn_regex, what, ignore_value):
        body = item_body(T, impl_ms, fn_regex, what)
        checks, after = [], []
        accepted = False
        for s in split_stmts(body, what):
            if is_tracing(s):
                continue
            if s[0] == "if" and not accepted:
                name = None
                for rx, n in CHECKS:
                    if re.fullmatch(rx, s[1]):
                        name = n
                if name is None:
                    if s[1] == "response.header.control.con":
                        accepted = True
                    else:
                        die("unexpected check in %s: %s" % (what, s[1]))
                else:
                    if s[3] is not None:
                        die("unexpected else in %s under %s" % (what, s[1]))
                    inner = [x for x in split_stmts(s[2], what) if not is_tracing(x)]
                    last = inner[-1][1] if inner and inner[-1][0] in ("stmt", "expr") else ""
                    me = re.fullmatch(r"return Err\(TaskError::(\w+)(?:\(.*\))?\)", last)
                    if last == "return Ok(%s)" % ignore_value and len(inner) == 1:
                        checks.append((name, "GmIgnore"))
                    elif last == "return Ok(%s)" % ignore_value and len(inner) == 2 and \
                            norm(inner[0][1]).replace(" ", "") == "self.handle_unsolicited(source,&response,io,writer).await?":
                        checks.append((name, "GmHandleUnsolicited"))
                    elif me and len(inner) == 1 and me.group(1) in task_errors:
                        checks.append((name, "GmErr %s" % qs(me.group(1))))
                    else:
                        die("unexpected outcome in %s under %s: %s" % (what, s[1], [x[1] for x in inner]))
                    continue
            # statements after the checks
            accepted = True
            t = s[1] if s[0] != "if" else "if " + s[1]
            t = norm(t)
            if s[0] == "if" and s[1] == "response.header.control.con":
                if norm(s[2]).replace(" ", "") != "self.confirm_solicited(io,destination,seq,writer).await?;" or s[3] is not None:
                    die("unexpected confirmation in %s: %s" % (what, norm(s[2])))
                after.append("confirm_if_con")
            elif t == "let association = self.associations.get_mut(destination.link)?":
                after.append("get_association")
            elif t == "association.process_iin(response.header.iin)":
                after.append("process_iin")
            elif t.replace(" ", "") == "task.process_response(association,response.header,response.objects?).await":
                after.append("process_response")
            elif s[0] == "if" and s[1] == "response.header.control.fin":
                if norm(s[2]) != "Ok(ReadResponseAction::Complete)" or norm(s[3] or "") != "Ok(ReadResponseAction::ReadNext)":
                    die("unexpected FIN handling in %s" % what)
                after.append("fin_complete_else_read_next")
            elif t == "Ok(Some(response))":
                after.append("accept")
            else:
                die("unexpected statement in %s: %s" % (what, t))
        return checks, after

    nr_checks, nr_after = validation(r"async fn validate_non_read_response<'a>\(", "MasterSession::validate_non_read_response", "None")
    rd_checks, rd_after = validation(r"async fn process_read_response\(", "MasterSession::process_read_response", "ReadResponseAction::Ignore")
    # what run_single_non_read_task does with an accepted response (pinned order)
    body = item_body(T, impl_ms, r"async fn run_single_non_read_task\(", "MasterSession::run_single_non_read_task")
    nb = norm(body)
    order = [("validate", "self .validate_non_read_response(dest, seq, io, writer, source, response)"),
             ("process_iin", "association.process_iin(response.header.iin);"),
             ("handle_response", "task.handle_response(association, response).await?")]
    pos = []
    for n, text in order:
        k = nb.find(norm(text))
        if k < 0:
            die("pinned line not found in %s (run_single_non_read_task, %s): %s" % (T, n, text))
        pos.append(k)
    if pos != sorted(pos):
        die("run_single_non_read_task: validate / process_iin / handle_response are no longer in this order")
    pin(T, "self.notify_link_activity(source.link); let result = self .validate_non_read_response(", "link activity credited to the source (F16)", body)
    pin(T, "Ok(None) => continue,", "ignored responses keep the task waiting", body)
    nr_after = [x for x in nr_after if x != "accept"] + ["process_iin", "handle_response"]
    # handle_unsolicited: process_iin, handle_unsolicited_response, confirm when valid && CON
    body = item_body(T, impl_ms, r"async fn handle_unsolicited\(", "MasterSession::handle_unsolicited")
    nb = norm(body)
    pos = []
    for text in ["association.process_iin(response.header.iin);", "let valid = association.handle_unsolicited_response(response).await;",
                 "if valid && response.header.control.con {"]:
        k = nb.find(text)
        if k < 0:
            die("pinned line not found in %s (handle_unsolicited): %s" % (T, text))
        pos.append(k)
    if pos != sorted(pos):
        die("handle_unsolicited: process_iin / handle_unsolicited_response / confirm are no longer in this order")

    # ---- (f/C19) scheduling order --------------------------------------------------------------------------------------------------
    body = norm(item_body(A, impl_assoc, r"fn get_next_task\(&self, now: Instant\) -> Next<Task> \{", "Association::get_next_task"))
    srcs = [("auto_tasks", "self.auto_tasks.next(&self.config, self)"), ("polls", "self.polls.next(now)"),
            ("link_status", "self.next_link_status_task(now)")]
    found = []
    for n, text in srcs:
        k = body.find(text)
        if k < 0:
            die("pinned line not found in %s (Association::get_next_task, %s): %s" % (A, n, text))
        found.append((k, n))
    next_sources = [n for _, n in sorted(found)]
    for text, what in [("if !matches!(next_auto_task, Next::None) { return next_auto_task; }", "automatic tasks first"),
                       ("Next::Now(poll) => { Next::Now(Task::App(AppTask::Read(ReadTask::PeriodicPoll(poll)))) }", "a ready poll wins over link status"),
                       ("Next::NotBefore(next_poll) => { match self.next_link_status_task(now) { Next::None => Next::NotBefore(next_poll), Next::Now(x) => Next::Now(x), Next::NotBefore(next_link_status) => { Next::NotBefore(Instant::min(next_poll, next_link_status)) } } }",
                        "poll not ready: link status, else the earlier deadline"),
                       ("Next::None => { self.next_link_status_task(now) }", "no polls: link status")]:
        pin(A, text, "get_next_task: " + what, body)
    body = norm(item_body(A, impl_map, r"pub\(crate\) fn next_task\(&mut self\) -> Next<AssociationTask> \{", "AssociationMap::next_task"))
    found = []
    for n, text in [("priority_task", "association.priority_task()"), ("next_task", "association.next_task(now)")]:
        k = body.find(text)
        if k < 0:
            die("pinned line not found in %s (AssociationMap::next_task, %s): %s" % (A, n, text))
        found.append((k, n))
    map_passes = [n for _, n in sorted(found)]
    if body.count("if let Some(x) = self.priority.remove(index) { self.priority.push_back(x); }") != 2:
        die("pinned line not found in %s (AssociationMap::next_task, rotation): if let Some(x) = self.priority.remove(index) { self.priority.push_back(x); }" % A)
    body = norm(item_body(A, impl_assoc, r"pub\(crate\) fn process_message\(&mut self, msg: AssociationMsgType, is_connected: bool\) \{", "Association::process_message"))
    m = re.search(r"if self\.request_queue\.len\(\) (<=|<) self\.max_request_queue_size \{ self\.request_queue\.push_back\(task\); \} else \{ task\.on_task_error\(Some\(self\), TaskError::(\w+)\); \}", body)
    if not m:
        die("pinned line not found in %s (Association::process_message): if self.request_queue.len() < self.max_request_queue_size { push_back } else { on_task_error }" % A)
    queue_cmp = "GmLt" if m.group(1) == "<" else "GmLe"
    queue_err = m.group(2)
    pin(A, "max_request_queue_size: config.max_queued_user_requests,", "Association::new takes the queue bound from the configuration")
    pin(A, "pub(crate) fn on_link_activity(&mut self) { self.next_link_status_deadline = self .config .keep_alive_timeout .map(|timeout| Instant::now() + timeout) }",
        "Association::on_link_activity")

    # ---- (g) time synchronisation ------------------------------------------------------------------------------------------------------
    TM = TD + "time.rs"
    tmsrc = strip_comments(read(TM))
    k = tmsrc.find("#[cfg(test)]")
    if k > 0:
        tmsrc = tmsrc[:k]
    states = re.findall(r"^\s*(\w+)\(", item_body(TM, tmsrc, r"enum State \{", "enum State"), re.M)
    impl_p = item_body(TM, tmsrc, r"impl TimeSyncProcedure \{", "impl TimeSyncProcedure")
    scrut, arms = match_arms(item_body(TM, impl_p, r"fn get_start_state\(&self\) -> State \{", "TimeSyncProcedure::get_start_state"), "get_start_state")
    ts_start = []
    for pat, rhs in arms:
        mp, mr = re.fullmatch(r"TimeSyncProcedure::(\w+)", pat), re.fullmatch(r"State::(\w+)\(None\)", rhs)
        if not mp or not mr or mr.group(1) not in states:
            die("unexpected arm in get_start_state: %s => %s" % (pat, rhs))
        ts_start.append((mp.group(1), mr.group(1)))
    procs = re.findall(r"^\s*(\w+),", item_body(R, re.sub(r"///[^\n]*", "", read(R)), r"pub enum TimeSyncProcedure \{", "enum TimeSyncProcedure"), re.M)
    if sorted(procs) != sorted(p for p, _ in ts_start):
        die("get_start_state does not cover TimeSyncProcedure: %s vs %s" % (procs, ts_start))
    impl_t = item_body(TM, tmsrc, r"impl TimeSyncTask \{", "impl TimeSyncTask")
    ts_fc = [(n.split("::")[1], c, f) for n, c, f in task_fc if n.startswith("TimeSync::")]
    if sorted(s for s, _, _ in ts_fc) != sorted(states):
        die("TimeSyncTask::function does not cover State")
    scrut, arms = match_arms(item_body(TM, impl_t, r"pub\(crate\) fn write\(&self, writer: &mut HeaderWriter\) -> Result<\(\), scursor::WriteError> \{", "TimeSyncTask::write"), "TimeSyncTask::write")
    ts_obj = []
    for pat, rhs in arms:
        mp = re.fullmatch(r"State::(\w+)\(\w+\)", pat)
        if not mp:
            die("unexpected arm in TimeSyncTask::write: " + pat)
        mo = re.fullmatch(r"writer\.write_count_of_one\(Group(\d+)Var(\d+) \{.*\}\)", rhs)
        if rhs == "Ok(())":
            ts_obj.append((mp.group(1), None))
        elif mo:
            ts_obj.append((mp.group(1), (int(mo.group(1)), int(mo.group(2)))))
        else:
            die("unexpected arm in TimeSyncTask::write: %s => %s" % (pat, rhs))
    if sorted(s for s, _ in ts_obj) != sorted(states):
        die("TimeSyncTask::write does not cover State")
    W = "dnp3/src/app/format/write.rs"
    pin(W, "V::VARIATION.write(self.cursor)?; QualifierCode::Count8.write(self.cursor)?; self.cursor.write_u8(1)?; item.write(self.cursor)?;", "HeaderWriter::write_count_of_one")
    m = re.search(r"pub\(crate\) fn write_clear_restart\(&mut self\) -> Result<\(\), scursor::WriteError> \{\s*self\.write_range_only\(Variation::Group(\d+)Var(\d+), (\d+)u8, (\d+)u8\)\?;\s*self\.cursor\.write_u8\((\d+)\)\?;", read(W))
    if not m:
        die("pinned line not found in %s (HeaderWriter::write_clear_restart): self.write_range_only(Variation::GroupXVarY, a, b)?; self.cursor.write_u8(v)?;" % W)
    clear_restart = tuple(int(x) for x in m.groups())
    pin(TD + "auto.rs", "AutoTask::ClearRestartBit => writer.write_clear_restart(),", "AutoTask::write")
    scrut, arms = match_arms(item_body(TM, impl_t, r"pub\(crate\) fn handle\(\s*self,\s*association: &mut Association,\s*response: Response,\s*\) -> Result<Option<NonReadTask>, TaskError> \{", "TimeSyncTask::handle"), "TimeSyncTask::handle")
    ts_next, ts_checks = [], []
    for pat, rhs in arms:
        mp = re.fullmatch(r"State::(\w+)\(\w+\)", pat)
        mr = re.match(r"self\.(handle_\w+)\(", rhs)
        if not mp or not mr:
            die("unexpected arm in TimeSyncTask::handle: %s => %s" % (pat, rhs))
        hb = item_body(TM, impl_t, r"fn %s\(" % mr.group(1), "TimeSyncTask::" + mr.group(1))
        nxt = re.findall(r"self\.change_state\(State::(\w+)\(", hb)
        if len(nxt) == 1 and "report_success" not in hb:
            ts_next.append((mp.group(1), nxt[0]))
        elif not nxt and norm(hb).endswith("self.report_success(association); Ok(None)"):
            ts_next.append((mp.group(1), None))
        else:
            die("unexpected continuation in TimeSyncTask::%s" % mr.group(1))
        # the failure checks of the handler, in order of appearance
        checks = []
        for e in re.findall(r"self\.report_error\(\s*association,\s*((?:[^()]|\([^()]*\))*?)\s*,?\s*\)", hb):
            e = norm(e)
            me = re.fullmatch(r"TimeSyncError::(\w+)(?:\((.*)\))?", e)
            if me and me.group(1) == "Task":
                mt = re.fullmatch(r"TaskError::(\w+)|err", me.group(2))
                checks.append(mt.group(1) if mt and mt.group(1) else "UnexpectedResponseHeaders")
            elif me:
                checks.append(me.group(1))
            elif e == "TaskError::UnexpectedResponseHeaders.into()":
                checks.append("UnexpectedResponseHeaders")
            elif e == "err.into()":
                checks.append("ObjectHeader")       # get_only_object_header failed
            elif e == "err":
                checks.append("Overflow")           # get_timestamp failed (pinned below)
            else:
                die("unexpected error report in TimeSyncTask::%s: %s" % (mr.group(1), e))
        ts_checks.append((mp.group(1), checks))
    pin(TM, "let err = TaskError::UnexpectedResponseHeaders; self.report_error(association, TimeSyncError::Task(err));", "handle_write_absolute_time reports UnexpectedResponseHeaders")
    pin(TM, "match now.checked_add(propagation_delay) { Some(x) => Ok(x), None => Err(TimeSyncError::Overflow), }", "TimeSyncTask::get_timestamp")
    m = re.search(r"match interval\.checked_sub\(Duration::from_millis\(delay_ms as u64\)\) \{\s*Some\(x\) => x / (\d+),", tmsrc)
    if not m:
        die("pinned line not found in %s (propagation delay): match interval.checked_sub(Duration::from_millis(delay_ms as u64)) { Some(x) => x / 2," % TM)
    prop_div = int(m.group(1))
    m = re.search(r"if let Some\(CountVariation::Group(\d+)Var(\d+)\(seq\)\) = header\.details\.count\(\) \{\s*seq\.single\(\)\.map\(\|x\| x\.time\)", tmsrc)
    if not m:
        die("pinned line not found in %s (delay object): if let Some(CountVariation::GroupXVarY(seq)) = header.details.count() { seq.single().map(|x| x.time)" % TM)
    delay_obj = (int(m.group(1)), int(m.group(2)))
    # which states sample the clock in `start`
    scrut, arms = match_arms(item_body(TM, impl_t, r"pub\(crate\) fn start\(mut self, association: &mut Association\) -> Option<Self> \{", "TimeSyncTask::start"), "TimeSyncTask::start")
    ts_clock = []
    for pat, rhs in arms:
        mp = re.fullmatch(r"State::(\w+)\(\w+\)", pat)
        if not mp:
            die("unexpected arm in TimeSyncTask::start: " + pat)
        if rhs == "Some(self)":
            ts_clock.append((mp.group(1), "GmNoClock"))
        elif "if time.is_none()" in rhs and "association.get_system_time()" in rhs:
            ts_clock.append((mp.group(1), "GmClockIfUnset"))
        elif "association.get_system_time()" in rhs and "SystemTimeNotAvailable" in rhs:
            ts_clock.append((mp.group(1), "GmClockRequired"))
        else:
            die("unexpected arm in TimeSyncTask::start: %s => %s" % (pat, rhs))
    TY = "dnp3/src/app/types.rs"
    m = re.search(r"pub const MAX_VALUE: u64 = (0x[0-9A-Fa-f_]+);", read(TY))
    if not m:
        die("pinned line not found in %s (Timestamp::MAX_VALUE): pub const MAX_VALUE: u64 = 0x...;" % TY)
    ts_max = num(m.group(1))
    pin(TY, "let max_add = Self::MAX_VALUE - self.value; let millis = x.as_millis(); if millis > max_add as u128 { return None; } Some(Timestamp::new(self.value + millis as u64))",
        "Timestamp::checked_add")

    # ---- output ----------------------------------------------------------------------------------------------------------------------------
    o = []
    w = o.append
    w("(* GENERATED by tools/gen/gen_master_tables.py from dnp3/src/master/{association,task,error,request}.rs,\n"
      "   dnp3/src/master/tasks/{mod,auto,command,time,restart,deadbands,empty_response}.rs, dnp3/src/master/tasks/file/*.rs,\n"
      "   dnp3/src/app/{retry,timeout,types,header,app_enums}.rs, dnp3/src/app/format/write.rs - do not edit *)\n")
    w("From Coq Require Import List NArith ZArith String.\nImport ListNotations.\nLocal Open Scope string_scope.\n\n")
    w("(* ---- (a) TaskStates::next ------------------------------------------------------------------ *)\n")
    w("Inductive gm_astate := GmSIdle | GmSPending.\n")
    w("(* guard of an automatic task in TaskStates::next; the string is a field of AssociationConfig *)\n")
    w("Inductive gm_cond :=\n| GmPending                          (* self.<slot>.is_pending() *)\n"
      "| GmCfgAnyAndPending (cfg : string)   (* config.<cfg>.any() && self.<slot>.is_pending() *)\n"
      "| GmPendingAndCfgSome (cfg : string)  (* self.<slot>.is_pending(), then `if let Some(..) = config.<cfg>` *)\n"
      "| GmEventsAndCfg (cfg : string).      (* (association.events_available & config.<cfg>).any() *)\n\n")
    w("(* fields of struct TaskStates *)\nDefinition gm_task_states_fields : list string := %s.\n\n" % coq_list([qs(f) for f in ts_fields]))
    w("(* fields of struct AssociationConfig *)\nDefinition gm_config_fields : list string := %s.\n\n" % coq_list([qs(f) for f in cfg_names]))
    w("(* TaskStates::next: (state field, guard, task built), in the order considered; first match returns *)\n")
    w("Definition gm_auto_order : list (string * gm_cond * string) := %s.\n\n"
      % coq_list(["(%s, %s, %s)" % (qs(a), b, qs(c)) for a, b, c in auto_order]))
    w("(* ---- (b) start-up, restart, reset ----------------------------------------------------------- *)\n")
    w("(* TaskStates::new (TaskStates::reset is `*self = Self::new()`) *)\nDefinition gm_task_states_new : list (string * gm_astate) := %s.\n\n"
      % coq_list(["(%s, GmS%s)" % (qs(n), v) for n, v in ts_new]))
    w("(* TaskStates::on_restart_iin: demand() of these fields, in this order *)\nDefinition gm_on_restart_iin_demands : list string := %s.\n\n"
      % coq_list([qs(x) for x in restart_demands]))
    w("Inductive gm_action :=\n| GmDemand (slot : string)            (* self.auto_tasks.<slot>.demand() *)\n"
      "| GmDone (slot : string)              (* self.auto_tasks.<slot>.done() *)\n"
      "| GmFailure (slot : string)           (* self.auto_tasks.<slot>.failure(&self.config) *)\n"
      "| GmAssign (field value : string)     (* self.<field> = <value> *)\n"
      "| GmResetAutoTasks                    (* self.auto_tasks.reset() *)\n"
      "| GmOnRestartIin                      (* self.auto_tasks.on_restart_iin() *)\n"
      "| GmFailQueuedRequests.               (* while let Some(task) = self.request_queue.pop_front() { task.on_task_error(..) } *)\n")
    w("Inductive gm_guard :=\n| GmAlways\n| GmWhenSlotIdle (slot : string)      (* if self.auto_tasks.<slot>.is_idle() { .. } *)\n"
      "| GmWhenCfg (cfg : string)            (* if self.config.<cfg> && <the action> *)\n"
      "| GmWhenIin (byte bit : N).           (* if iin.iin<byte> bit <bit> { then } else { else } *)\n\n")
    w("(* the on_* functions of Association: (name, guard, actions, actions of the else branch) *)\n")
    w("Definition gm_handlers : list (string * gm_guard * list gm_action * list gm_action) := %s.\n\n"
      % coq_list(["(%s, %s, [%s], [%s])" % (qs(n), g, "; ".join(t), "; ".join(e)) for n, g, t, e in handlers]))
    w("(* Association::reset (called for every association by AssociationMap::reset <- MasterSession::reset <- run) *)\n")
    w("Definition gm_association_reset : list gm_action := [%s].\n\n" % "; ".join(assoc_reset))
    w("(* Association::new: (field, initialiser) *)\nDefinition gm_association_new : list (string * string) := %s.\n\n"
      % coq_list(["(%s, %s)" % (qs(n), qs(v)) for n, v in assoc_new]))
    w("(* ---- (c) Association::process_iin ------------------------------------------------------------ *)\n")
    w("(* (IIN octet, bit, handler called when the bit is set), in source order *)\n")
    w("Definition gm_process_iin_triggers : list (N * N * string) := %s.\n"
      % coq_list(["(%d%%N, %d%%N, %s)" % (b, bit, qs(h)) for b, bit, g, h in triggers]))
    w("(* (field of events_available, IIN octet, bit) *)\nDefinition gm_process_iin_events : list (string * N * N) := %s.\n"
      % coq_list(["(%s, %d%%N, %d%%N)" % (qs(c), b, bit) for c, b, bit, g in ev_bits]))
    w("(* (events_available & config.<cfg>).any() demands <slot> *)\nDefinition gm_process_iin_scan : string * string := (%s, %s).\n\n" % (qs(scan[0]), qs(scan[1])))
    w("(* ---- (d) defaults -------------------------------------------------------------------------------- *)\n")
    w("Inductive gm_default := GmParam | GmTimeoutDefault | GmRetryDefault | GmNone | GmBool (b : bool)\n"
      "| GmAllClasses | GmNoClasses | GmNat (n : nat).\n")
    for nm, tbl in (("new", cfg_new), ("quiet", cfg_quiet), ("default", cfg_default)):
        w("Definition gm_config_%s : list (string * gm_default) := %s.\n" % (nm, coq_list(["(%s, %s)" % (qs(n), v) for n, v in tbl])))
    w("\nDefinition gm_timeout_default_ms : Z := %d%%Z.     (* Timeout::default *)\n" % timeout_default)
    w("Definition gm_retry_default_min_ms : Z := %d%%Z.   (* RetryStrategy::default *)\n" % retry_min)
    w("Definition gm_retry_default_max_ms : Z := %d%%Z.\n" % retry_max)
    w("Definition gm_max_queued_user_requests : nat := %d%%nat. (* AssociationConfig::default_max_queued_user_requests *)\n" % max_queued)
    w("Definition gm_min_retry_delay_ms : Z := %d%%Z.        (* AutoTaskState::failure MIN_RETRY_DELAY *)\n\n" % min_retry)
    w("(* ---- (e) ExponentialBackOff::on_failure ---------------------------------------------------------- *)\n")
    w("Inductive gm_backoff_step := GmCheckedMul (k : Z) | GmUnwrapOr (field : string) | GmMin (field : string) | GmMax (field : string).\n")
    w("Definition gm_backoff_first : string := %s.        (* last = None: the delay is strategy.<field> *)\n" % qs(backoff_first))
    w("Definition gm_backoff_next : list gm_backoff_step := [%s].  (* last = Some x: x.<steps> *)\n" % "; ".join("%s%%Z" % s if s.startswith("GmCheckedMul") else s for s in steps))
    w("Definition gm_backoff_factor : Z := %d%%Z.\n\n" % factor[0])
    w("(* ---- (f) tasks, response validation, scheduling ---------------------------------------------------- *)\n")
    w("(* function code sent by each task (state) *)\nDefinition gm_task_function : list (string * N) := %s.\n"
      % coq_list(["(%s, %d%%N)" % (qs(n), c) for n, c, f in task_fc]))
    w("(* tasks whose function code is a parameter of the request *)\nDefinition gm_task_function_param : list string := %s.\n"
      % coq_list([qs(x) for x in task_fc_param]))
    w("Definition gm_non_read_tasks : list string := %s.\n" % coq_list([qs(v) for v, _ in nr_variants]))
    w("Definition gm_read_tasks : list string := %s.\n" % coq_list([qs(v) for v in read_variants]))
    w("Definition gm_task_errors : list string := %s.\n\n" % coq_list([qs(v) for v in task_errors]))
    w("Inductive gm_outcome := GmHandleUnsolicited | GmIgnore | GmErr (e : string).\n")
    w("(* checks: unsolicited = response function is UNSOLICITED_RESPONSE; source = link source differs from the\n"
      "   destination of the request; sequence = SEQ differs from the request's; fir_and_fin = not (FIR and FIN);\n"
      "   iin2 = Iin::has_bad_request_error; unexpected_fir = FIR on a later fragment; never_fir = no FIR on the\n"
      "   first fragment; non_fin_without_con = neither FIN nor CON.  First failing check decides. *)\n")
    w("Definition gm_validate_non_read_response : list (string * gm_outcome) := %s.\n" % coq_list(["(%s, %s)" % (qs(n), v) for n, v in nr_checks]))
    w("Definition gm_process_read_response : list (string * gm_outcome) := %s.\n" % coq_list(["(%s, %s)" % (qs(n), v) for n, v in rd_checks]))
    w("(* what happens to a response that passed every check, in order *)\n")
    w("Definition gm_non_read_after_accept : list string := %s.\n" % coq_list([qs(x) for x in nr_after]))
    w("Definition gm_read_after_accept : list string := %s.\n" % coq_list([qs(x) for x in rd_after]))
    w("Definition gm_iin2_bad_request_bits : list N := [%s]%%N.  (* Iin::has_bad_request_error *)\n\n" % "; ".join(str(b) for b in bad_bits))
    w("(* Association::get_next_task: sources of the next task in order of precedence *)\nDefinition gm_next_task_sources : list string := %s.\n"
      % coq_list([qs(x) for x in next_sources]))
    w("(* AssociationMap::next_task: the two passes over the priority ring *)\nDefinition gm_map_next_task_passes : list string := %s.\n"
      % coq_list([qs(x) for x in map_passes]))
    w("Inductive gm_cmp := GmLt | GmLe.\n(* Association::process_message: a request is queued when queue.len() <cmp> max_request_queue_size, else fails with .. *)\n")
    w("Definition gm_queue_admit : gm_cmp * string := (%s, %s).\n\n" % (queue_cmp, qs(queue_err)))
    w("(* ---- (g) time synchronisation ---------------------------------------------------------------------------- *)\n")
    w("Inductive gm_clock := GmNoClock | GmClockRequired | GmClockIfUnset.\n")
    w("Definition gm_timesync_states : list string := %s.\n" % coq_list([qs(s) for s in states]))
    w("(* TimeSyncProcedure::get_start_state *)\nDefinition gm_timesync_start : list (string * string) := %s.\n" % coq_list(["(%s, %s)" % (qs(a), qs(b)) for a, b in ts_start]))
    w("(* TimeSyncTask::function *)\nDefinition gm_timesync_function : list (string * N) := %s.\n" % coq_list(["(%s, %d%%N)" % (qs(s), c) for s, c, f in ts_fc]))
    w("(* TimeSyncTask::write: the object written with write_count_of_one (qualifier, count below) *)\n")
    w("Definition gm_timesync_object : list (string * option (N * N)) := %s.\n"
      % coq_list(["(%s, %s)" % (qs(s), "None" if v is None else "Some (%d, %d)%%N" % v) for s, v in ts_obj]))
    w("(* TimeSyncTask::handle: the state that follows an accepted response (None = success) *)\n")
    w("Definition gm_timesync_next : list (string * option string) := %s.\n"
      % coq_list(["(%s, %s)" % (qs(s), "None" if v is None else "Some %s" % qs(v)) for s, v in ts_next]))
    w("(* TimeSyncTask::handle_*: the failures reported, in the order they are tested *)\n")
    w("Definition gm_timesync_checks : list (string * list string) := %s.\n"
      % coq_list(["(%s, [%s])" % (qs(s), "; ".join(qs(c) for c in cs)) for s, cs in ts_checks]))
    w("(* TimeSyncTask::start: does the state sample AssociationHandler::get_current_time *)\n")
    w("Definition gm_timesync_clock : list (string * gm_clock) := %s.\n" % coq_list(["(%s, %s)" % (qs(s), v) for s, v in ts_clock]))
    w("Definition gm_count_of_one_qualifier : N := %d%%N.   (* QualifierCode::Count8 *)\n" % qcodes["Count8"])
    w("Definition gm_count_of_one_count : N := 1%N.\n")
    w("Definition gm_delay_object : N * N := (%d, %d)%%N.   (* CountVariation matched by handle_delay_measure *)\n" % delay_obj)
    w("Definition gm_propagation_divisor : Z := %d%%Z.      (* (interval - delay) / 2 *)\n" % prop_div)
    w("Definition gm_timestamp_max : Z := %d%%Z.  (* Timestamp::MAX_VALUE *)\n" % ts_max)
    w("(* HeaderWriter::write_clear_restart: group, variation, range qualifier, start, stop, value *)\n")
    w("Definition gm_clear_restart_object : list N := [%d; %d; %d; %d; %d; %d]%%N.\n"
      % (clear_restart[0], clear_restart[1], qcodes["Range8"], clear_restart[2], clear_restart[3], clear_restart[4]))
    text = "".join(o)
    with open(os.path.join(OUT, "MasterTables.v"), "w") as f:
        f.write(text)
    with open(os.path.join(OUT, "master_tables.json"), "w") as f:
        json.dump({"sources": dict((p, hashlib.sha256(s.encode()).hexdigest()[:16]) for p, s in sorted(SOURCES.items())),
                   "auto_order": auto_order, "restart_demands": restart_demands, "handlers": handlers,
                   "association_reset": assoc_reset, "process_iin": triggers, "events": ev_bits, "scan": scan,
                   "config_new": cfg_new, "config_quiet": cfg_quiet, "config_default": cfg_default,
                   "timeout_default_ms": timeout_default, "retry_default_ms": [retry_min, retry_max],
                   "max_queued_user_requests": max_queued, "min_retry_delay_ms": min_retry,
                   "backoff": {"first": backoff_first, "next": steps}, "task_function": task_fc,
                   "validate_non_read_response": nr_checks, "process_read_response": rd_checks,
                   "non_read_after_accept": nr_after, "read_after_accept": rd_after,
                   "next_task_sources": next_sources, "map_next_task_passes": map_passes,
                   "timesync": {"start": ts_start, "object": ts_obj, "next": ts_next, "checks": ts_checks, "clock": ts_clock,
                                "timestamp_max": ts_max, "divisor": prop_div}},
                  f, indent=1, sort_keys=True)


if __name__ == "__main__":
    main()
