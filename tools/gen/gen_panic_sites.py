#!/usr/bin/env python3
"""Translator: potential panic sites of the 21 files anchored by property C01
   -> $VERIF_GEN_OUT/panic_sites.json   (every site with file, fn, kind, statement text, line)
   -> $VERIF_GEN_OUT/PanicSites.v       (the sites and the reviewed ledger as two Coq lists)

A *site* is a place where Rust code can panic at run time:
  unwrap / expect / unreachable / panic / unimplemented / todo / assert   explicit
  index                       x[i], x[a..b]  (not x[..], not types, attributes, array literals)
  arith                       binary + - * (and += -= *=) whose operands are not both constants,
                              outside checked_/wrapping_/saturating_/overflowing_ calls and outside
                              string formatting macros (debug builds panic on overflow)
  shift                       << >> (<<= >>=) by a non-constant amount
  div                         / % (/= %=) by a non-constant divisor
  call                        std methods that panic on a bad argument (copy_from_slice, split_at,
                              copy_within, Vec::remove/insert/drain/swap_remove, swap, chunks,
                              RefCell borrow ...)
`as` casts to an integer type never panic; they are listed separately (informational) in the json.

Non-test code only: items under #[cfg(test)] are removed, comments are removed, string and
character literals are masked before matching.

Key of a site = file | fn | kind | normalised statement text | number of occurrences of that
statement in that fn.  The committed, hand-reviewed ledger tools/gen/panic_ledger.json gives a
`reason` per key.  Both lists are emitted to PanicSites.v with the key hashed to an N, so that
Properties/C01.v (`C01_ledger_complete`) is re-checked against what the code says now: a new or
edited site without a reviewed entry, or an entry whose class is OPEN, breaks the theorem.

Fails loudly (sys.exit) when a file is missing, braces do not balance, a site lies outside every
fn, the ledger is malformed, or a `lemma:<Name>` reason names a lemma that the Coq development does
not contain."""
import hashlib, json, os, re, sys

HERE = os.path.dirname(os.path.abspath(__file__))
REPO = os.environ.get("VERIF_REPO", "/repo")
OUT = os.environ.get("VERIF_GEN_OUT") or os.path.join(HERE, "..", "..", "coq", "gen")
LEDGER = os.environ.get("VERIF_PANIC_LEDGER") or os.path.join(HERE, "panic_ledger.json")
COQ = os.path.join(HERE, "..", "..", "coq")

FILES = [
    "link/parser.rs", "link/reader.rs", "link/layer.rs",
    "transport/real/assembler.rs", "transport/real/reader.rs", "transport/reader.rs",
    "app/parse/parser.rs", "app/parse/bytes.rs", "app/parse/bit.rs", "app/parse/range.rs",
    "app/gen/ranged.rs", "app/gen/prefixed.rs", "app/gen/count.rs",
    "app/attr.rs", "app/file/mod.rs",
    "outstation/session.rs", "outstation/control/collection.rs",
    "outstation/database/details/event/buffer.rs",
    "master/task.rs", "master/extract.rs", "master/association.rs",
]

CLASSES = ["lemma", "guard", "type", "config", "not-peer-reachable", "OPEN"]
KINDS = ["unwrap", "expect", "unreachable", "panic", "unimplemented", "todo", "assert",
         "index", "arith", "shift", "div", "call"]


def die(msg):
    sys.exit("gen_panic_sites: " + msg)


def src_root():
    # VERIF_REPO is either a checkout (contains dnp3/src) or a bare copy of dnp3/src
    for cand in (os.path.join(REPO, "dnp3", "src"), REPO):
        if os.path.isfile(os.path.join(cand, "link", "parser.rs")):
            return cand
    die("cannot find link/parser.rs under %s or %s/dnp3/src" % (REPO, REPO))


# ------------------------------------------------------------------------------------------------
# lexical masking

def mask(text, path):
    """returns (code, nocomment): `code` has comments, string and char literals replaced by blanks
    / underscores (same length, newlines kept); `nocomment` has only the comments blanked."""
    n = len(text)
    code = list(text)
    noc = list(text)
    i = 0

    def blank(a, b, both, fill=" "):
        for k in range(a, b):
            if text[k] != "\n":
                code[k] = fill
                if both:
                    noc[k] = " "

    while i < n:
        c = text[i]
        if text.startswith("//", i):
            j = text.find("\n", i)
            j = n if j < 0 else j
            blank(i, j, True)
            i = j
        elif text.startswith("/*", i):
            depth, j = 1, i + 2
            while j < n and depth:
                if text.startswith("/*", j): depth += 1; j += 2
                elif text.startswith("*/", j): depth -= 1; j += 2
                else: j += 1
            if depth: die("%s: unterminated block comment" % path)
            blank(i, j, True)
            i = j
        elif c == '"' or (c in "br" and re.match(r'b?r?#*"', text[i:i + 6]) and (i == 0 or not (text[i - 1].isalnum() or text[i - 1] == "_"))):
            m = re.match(r'(b?)(r?)(#*)"', text[i:i + 8])
            raw, hashes = m.group(2) == "r", m.group(3)
            j = i + len(m.group(0))
            if raw:
                end = text.find('"' + hashes, j)
                if end < 0: die("%s: unterminated raw string" % path)
                blank(j, end, False, "_")
                i = end + 1 + len(hashes)
            else:
                while j < n and text[j] != '"':
                    j += 2 if text[j] == "\\" else 1
                if j >= n: die("%s: unterminated string literal" % path)
                blank(i + len(m.group(0)), j, False, "_")
                i = j + 1
        elif c == "'":
            # char literal or lifetime
            m = re.match(r"'(\\x[0-9a-fA-F]{2}|\\u\{[0-9a-fA-F]+\}|\\.|[^\\'])'", text[i:i + 12])
            if m:
                blank(i + 1, i + len(m.group(0)) - 1, False, "_")
                i += len(m.group(0))
            else:
                i += 1
        else:
            i += 1
    return "".join(code), "".join(noc)


def match_brace(code, i, path):
    """index just after the brace that closes the one at code[i]"""
    pairs = {"{": "}", "(": ")", "[": "]"}
    assert code[i] in pairs
    stack = []
    j = i
    while j < len(code):
        ch = code[j]
        if ch in "{([":
            stack.append(pairs[ch])
        elif ch in "})]":
            if not stack or stack.pop() != ch:
                die("%s: unbalanced '%s' near offset %d" % (path, ch, j))
            if not stack:
                return j + 1
        j += 1
    die("%s: unclosed '%s' at offset %d" % (path, code[i], i))


def strip_test_items(code, noc, path):
    """blank every item that follows #[cfg(test)] (mod, fn, impl, use, const ...)"""
    code, noc = list(code), list(noc)
    s = "".join(code)
    removed = 0
    for m in list(re.finditer(r"#\[cfg\((?:test|all\(test[^\]]*)\)\]", s)):
        if code[m.start()] == " ":
            continue  # inside an item already removed
        j = m.end()
        # further attributes
        while True:
            m2 = re.match(r"\s*#\[", s[j:])
            if not m2: break
            j = match_brace(s, j + m2.end() - 1, path)
        k = j
        while k < len(s) and s[k] not in "{;":
            if s[k] in "([":
                k = match_brace(s, k, path)
            else:
                k += 1
        if k >= len(s): die("%s: item after #[cfg(test)] has no end" % path)
        end = match_brace(s, k, path) if s[k] == "{" else k + 1
        for q in range(m.start(), end):
            if code[q] != "\n":
                code[q] = " "; noc[q] = " "
        removed += 1
    return "".join(code), "".join(noc), removed


# ------------------------------------------------------------------------------------------------
# structure: impl blocks and fn bodies

def find_scopes(code, path):
    """-> list of (start, end, name) for fn bodies (name qualified with the impl target)"""
    impls = []
    for m in re.finditer(r"\bimpl\b", code):
        # the header runs to the first '{' outside <> () []
        k = m.end()
        while k < len(code) and code[k] not in "{;":
            if code[k] in "([":
                k = match_brace(code, k, path)
            else:
                k += 1
        if k >= len(code) or code[k] != "{":
            continue
        head = " ".join(code[m.end():k].split())
        # a type position `impl Trait` in a signature is not an impl block: it has no body of items;
        # heuristic: an impl block header starts a line
        ls = code.rfind("\n", 0, m.start()) + 1
        if code[ls:m.start()].strip() not in ("", "unsafe"):
            continue
        head = re.sub(r"\bwhere\b.*$", "", head).strip()
        target = head.split(" for ")[-1].strip()
        target = re.sub(r"^<[^>]*>\s*", "", target)           # generics of `impl<...>`
        tm = re.match(r"([A-Za-z_][\w:]*)", target)
        tname = tm.group(1).split("::")[-1] if tm else "?"
        trait = None
        if " for " in head:
            t = re.sub(r"^<[^>]*>\s*", "", head.split(" for ")[0].strip())
            tt = re.match(r"([A-Za-z_][\w:]*)", t)
            trait = tt.group(1).split("::")[-1] if tt else None
        impls.append((k, match_brace(code, k, path), tname, trait))
    fns = []
    for m in re.finditer(r"\bfn\s+([A-Za-z_]\w*)", code):
        k = m.end()
        while k < len(code) and code[k] not in "{;":
            if code[k] in "([":
                k = match_brace(code, k, path)
            else:
                k += 1
        if k >= len(code): die("%s: fn %s has neither body nor ';'" % (path, m.group(1)))
        if code[k] == ";":
            continue
        end = match_brace(code, k, path)
        owner = [i for i in impls if i[0] < m.start() < i[1]]
        name = m.group(1)
        if owner:
            o = max(owner, key=lambda i: i[0])
            # trait impls of the same method name on one type (From<A>, From<B>) are told apart by trait
            name = "%s::%s" % (o[2], name) if not o[3] else "%s::%s::%s" % (o[2], o[3], name)
        fns.append((k, end, name, m.start()))
    # nested fns: qualify with the outer one
    out = []
    for (a, b, name, s) in fns:
        outer = [f for f in fns if f[0] < s and b <= f[1] and f is not (a, b, name, s) and (f[0], f[1]) != (a, b)]
        if outer:
            o = max(outer, key=lambda f: f[0])
            name = o[2] + "/" + name
        out.append((a, b, name))
    return out


def enclosing(scopes, off):
    best = None
    for a, b, name in scopes:
        if a <= off < b and (best is None or a > best[0]):
            best = (a, b, name)
    return best


# ------------------------------------------------------------------------------------------------
# statements

TERMINATORS = (";", "{", "}", ",")


def statement(noc_lines, code_lines, ln):
    """normalised text of the statement around line ln: the line, extended backwards while the
    previous line does not end a statement / block / list item, and forwards until this one does"""
    a = ln
    while a > 0 and ln - a < 8:
        prev = code_lines[a - 1].strip()
        if prev == "" or prev.endswith(TERMINATORS) or prev.endswith("=>") or prev.startswith("#["):
            break
        a -= 1
    b = ln
    while b + 1 < len(code_lines) and b - ln < 8:
        cur = code_lines[b].strip()
        if cur.endswith(TERMINATORS):
            break
        nxt = code_lines[b + 1].strip()
        if nxt == "":
            break
        b += 1
    text = " ".join(" ".join(noc_lines[a:b + 1]).split())
    return text


# ------------------------------------------------------------------------------------------------
# site detection (on masked code)

KEYWORDS = {"mut", "return", "in", "if", "else", "match", "let", "move", "ref", "break", "while",
            "as", "for", "loop", "where", "dyn", "impl", "unsafe", "const", "static", "box", "yield"}
INT_TYPES = {"u8", "u16", "u32", "u64", "u128", "usize", "i8", "i16", "i32", "i64", "i128", "isize"}
FMT_MACROS = ("format!", "write!", "writeln!", "print!", "println!", "eprintln!", "eprint!", "panic!",
              "tracing::warn!", "tracing::info!", "tracing::error!", "tracing::debug!", "tracing::trace!",
              "warn!", "info!", "error!", "debug!", "trace!", "format_args!", "unreachable!", "assert!",
              "assert_eq!", "assert_ne!", "debug_assert!", "unimplemented!", "todo!")
SAFE_CALLS = re.compile(r"\b(checked|wrapping|saturating|overflowing)_\w+\s*$")
PANICKY_CALLS = ["copy_from_slice", "clone_from_slice", "copy_within", "split_at", "split_at_mut",
                 "swap_remove", "remove", "insert", "drain", "swap", "chunks", "chunks_exact",
                 "borrow", "borrow_mut", "split_off", "step_by", "rotate_left", "rotate_right",
                 "windows", "from_secs_f64", "from_secs_f32", "duration_since", "abs", "pow",
                 "div_euclid", "rem_euclid", "next_power_of_two", "with_capacity", "reserve",
                 "block_on", "unwrap_err", "expect_err", "unwrap_unchecked"]

EXPLICIT = [
    ("unwrap", re.compile(r"\.\s*unwrap\s*\(\s*\)")),
    ("expect", re.compile(r"\.\s*expect\s*\(")),
    ("unreachable", re.compile(r"\bunreachable!\s*[\(\[\{]")),
    ("panic", re.compile(r"\bpanic!\s*[\(\[\{]")),
    ("unimplemented", re.compile(r"\bunimplemented!\s*[\(\[\{]")),
    ("todo", re.compile(r"\btodo!\s*[\(\[\{]")),
    ("assert", re.compile(r"\b(?:debug_)?assert(?:_eq|_ne)?!\s*[\(\[\{]")),
]
CALL_RE = re.compile(r"\.\s*(%s)\s*(?:::<[^>]*>)?\s*\(" % "|".join(PANICKY_CALLS))
TOKEN_BEFORE = re.compile(r"([A-Za-z_]\w*|\d[\w.]*|[)\]?])\s*$")
OPERAND_AFTER = re.compile(r"\s*(-?\s*(?:0x[0-9a-fA-F_]+|0b[01_]+|\d[\d_]*(?:\.\d+)?(?:[uif]\d+|usize|isize)?)|[A-Za-z_][\w:]*)")
CAST_RE = re.compile(r"\bas\s+(u8|u16|u32|u64|usize|i8|i16|i32|i64|isize)\b")


def is_const_operand(tok):
    tok = tok.strip()
    if re.fullmatch(r"-?\s*(0x[0-9a-fA-F_]+|0b[01_]+|\d[\d_]*(\.\d+)?([uif]\d+|usize|isize)?)", tok):
        return True
    last = tok.split("::")[-1]
    return bool(re.fullmatch(r"[A-Z][A-Z0-9_]*", last)) and len(last) > 1


def left_operand(code, pos):
    """token that ends just before pos (skipping blanks); a closing bracket yields ')' """
    m = TOKEN_BEFORE.search(code[max(0, pos - 80):pos])
    if not m:
        return None
    tok = m.group(1)
    if tok[0].isalpha() or tok[0] == "_":
        # take the whole path a::B::C
        start = max(0, pos - 80) + m.start(1)
        while start >= 2 and code[start - 2:start] == "::":
            m2 = re.search(r"([A-Za-z_]\w*)$", code[:start - 2])
            if not m2: break
            start = m2.start(1)
        tok = code[start:max(0, pos - 80) + m.end(1)]
    return tok


def inside_macro_or_safe_call(code, scope_start, pos, path):
    """is pos inside the argument list of a checked_/wrapping_/saturating_/overflowing_ call?
    (String literals are masked before matching, so operators inside format strings are never seen;
    arithmetic inside the ARGUMENTS of a formatting macro is still arithmetic and stays flagged.)"""
    # walk outwards over enclosing parentheses
    depth = 0
    k = pos - 1
    while k >= scope_start:
        ch = code[k]
        if ch in ")]}":
            depth += 1
        elif ch in "([{":
            if depth == 0:
                if ch == "(" and SAFE_CALLS.search(code[max(scope_start, k - 40):k]):
                    return True
                if ch == "{":
                    return False
            else:
                depth -= 1
        k -= 1
    return False


def in_type_context(code, scope_start, pos):
    """a '+' between trait bounds: `T: A + B`, `dyn A + Send`, `impl A + 'a`"""
    ls = code.rfind("\n", 0, pos) + 1
    le = code.find("\n", pos)
    line = code[ls:le if le >= 0 else len(code)]
    before = code[ls:pos]
    after = code[pos + 1:le if le >= 0 else len(code)]
    if re.search(r"\b(dyn|impl|where)\b[^;=]*$", before):
        return True
    if re.match(r"\s*'[a-z_]\w*", after):
        return True
    return False


def find_sites(code, scopes, path):
    sites = []   # (offset, kind)
    for kind, rx in EXPLICIT:
        for m in rx.finditer(code):
            sites.append((m.start(), kind))
    for m in CALL_RE.finditer(code):
        sites.append((m.start(), "call"))
    # index / slice
    for m in re.finditer(r"\[", code):
        i = m.start()
        if i == 0: continue
        p = code[i - 1]
        if not (p.isalnum() or p in "_)]?"):
            continue
        # identifier directly before: not a keyword, not a macro bang (handled: '!' is not alnum)
        mm = re.search(r"([A-Za-z_]\w*)$", code[max(0, i - 60):i])
        if mm and mm.group(1) in KEYWORDS:
            continue
        end = match_brace(code, i, path)
        inner = code[i + 1:end - 1].strip()
        if inner == "..":
            continue
        if inner == "":
            continue
        # lifetimes / types never sit directly after an identifier without a space, except generics
        # arguments such as `Foo<[u8; 4]>` (preceded by '<', excluded above)
        sites.append((i, "index"))
    # arithmetic
    for m in re.finditer(r"(<<=|>>=|<<|>>|\+=|-=|\*=|/=|%=|->|=>|&&|\+|-|\*|/|%)", code):
        op = m.group(1)
        pos = m.start()
        if op in ("->", "=>", "&&"):
            continue
        sc = enclosing(scopes, pos)
        if sc is None:
            continue            # arithmetic outside fn bodies is constant evaluation (compile time)
        left = left_operand(code, pos)
        if left is None or left in KEYWORDS:
            continue            # unary minus, dereference, reference pattern
        if op in ("<<", ">>"):
            # generics: Vec<Vec<u8>> closes with '>>' ; '<<' never appears in types
            if op == ">>" and (code[pos + 2:pos + 3] in ("", "\n", ",", ";", ")", "(", "{", ":", " ") and not re.match(r"\s*[\w(]", code[pos + 2:pos + 12])):
                continue
            if op == ">>" and re.search(r"<[^<>;(){}]*<[^<>;(){}]*$", code[code.rfind("\n", 0, pos) + 1:pos]):
                continue
        if op in ("*",) and re.match(r"\s*(const|mut)\b", code[pos + 1:pos + 8]):
            continue
        ra = OPERAND_AFTER.match(code, m.end())
        right = ra.group(1) if ra else ""
        # a right operand followed by '(' or '.' or '[' or '::' is an expression, not a constant
        right_is_const = False
        if ra:
            tail = code[ra.end():ra.end() + 2]
            right_is_const = is_const_operand(right) and not re.match(r"\s*[\(\.\[]", code[ra.end():ra.end() + 3]) and tail != "::"
        left_is_const = is_const_operand(left) and left not in (")", "]", "?")
        if op in ("+", "-", "*", "+=", "-=", "*="):
            if op == "+" and in_type_context(code, sc[0], pos):
                continue
            if left_is_const and right_is_const:
                continue
            if inside_macro_or_safe_call(code, sc[0], pos, path):
                continue
            sites.append((pos, "arith"))
        elif op in ("<<", ">>", "<<=", ">>="):
            if right_is_const:
                continue
            if inside_macro_or_safe_call(code, sc[0], pos, path):
                continue
            sites.append((pos, "shift"))
        else:
            if right_is_const and not re.fullmatch(r"-?\s*0+", right.strip()):
                continue
            if inside_macro_or_safe_call(code, sc[0], pos, path):
                continue
            sites.append((pos, "div"))
    casts = [(m.start(), m.group(1)) for m in CAST_RE.finditer(code)]
    return sorted(set(sites)), casts


# ------------------------------------------------------------------------------------------------

def key_of(file, fn, kind, text, count):
    return "%s|%s|%s|%s|#%d" % (file, fn, kind, text, count)


def key_hash(key):
    return int(hashlib.sha256(key.encode()).hexdigest()[:15], 16)   # 60 bits


def coq_string(s):
    return '"' + s.replace('"', '""') + '"'


def scan():
    root = src_root()
    sites, casts = [], []
    stats = {}
    for rel in FILES:
        path = os.path.join(root, rel)
        if not os.path.isfile(path):
            die("anchored file %s is missing" % path)
        text = open(path).read()
        code, noc = mask(text, rel)
        code, noc, removed = strip_test_items(code, noc, rel)
        # sanity: braces balance in what is left
        depth = 0
        for ch in code:
            if ch == "{": depth += 1
            elif ch == "}":
                depth -= 1
                if depth < 0: die("%s: '}' without '{'" % rel)
        if depth != 0:
            die("%s: %d unclosed '{'" % (rel, depth))
        scopes = find_scopes(code, rel)
        if not scopes:
            die("%s: no fn found (unreadable input?)" % rel)
        code_lines = code.split("\n")
        noc_lines = noc.split("\n")
        line_start = [0]
        for l in code_lines:
            line_start.append(line_start[-1] + len(l) + 1)
        import bisect
        found, fcasts = find_sites(code, scopes, rel)
        per = {}
        for off, kind in found:
            sc = enclosing(scopes, off)
            ln = bisect.bisect_right(line_start, off) - 1
            if sc is None:
                # explicit panics in constants / statics: still a site, attributed to the item
                fn = "<module>"
            else:
                fn = sc[2]
            textn = statement(noc_lines, code_lines, ln)
            if not textn:
                die("%s:%d: empty statement text for a %s site" % (rel, ln + 1, kind))
            k = (rel, fn, kind, textn)
            per.setdefault(k, []).append(ln + 1)
        for (file, fn, kind, textn), lines in per.items():
            # several operators of one kind inside one statement are one site; the same statement
            # occurring on several lines of one fn is counted
            count = len(set(lines))
            sites.append({"file": file, "fn": fn, "kind": kind, "text": textn, "count": count,
                          "lines": sorted(set(lines)), "key": key_of(file, fn, kind, textn, count)})
        for off, ty in fcasts:
            sc = enclosing(scopes, off)
            ln = bisect.bisect_right(line_start, off) - 1
            casts.append({"file": rel, "fn": sc[2] if sc else "<module>", "to": ty, "line": ln + 1,
                          "text": " ".join(noc_lines[ln].split())})
        stats[rel] = {"test_items_removed": removed, "fns": len(scopes)}
    sites.sort(key=lambda s: (FILES.index(s["file"]), s["lines"][0], s["kind"]))
    return sites, casts, stats


def coq_lemma_exists(name):
    rx = re.compile(r"^\s*(?:Lemma|Theorem|Corollary|Fact|Remark|Proposition)\s+%s\b" % re.escape(name), re.M)
    for root, _, files in os.walk(COQ):
        if "scratch" in root:
            continue
        for f in files:
            if f.endswith(".v") and not f.endswith("_wip.v"):
                if rx.search(open(os.path.join(root, f)).read()):
                    return True
    return False


def load_ledger():
    if not os.path.exists(LEDGER):
        die("ledger %s not found" % LEDGER)
    try:
        j = json.load(open(LEDGER))
    except ValueError as e:
        die("ledger is not valid JSON: %s" % e)
    entries = j.get("entries")
    if not isinstance(entries, list):
        die("ledger has no 'entries' list")
    out = []
    seen = set()
    lemmas = {}
    for e in entries:
        for f in ("file", "fn", "kind", "text", "count", "reason"):
            if f not in e:
                die("ledger entry without '%s': %s" % (f, json.dumps(e)[:200]))
        reason = e["reason"]
        cls, _, expl = reason.partition(":")
        if cls not in CLASSES:
            die("ledger entry with unknown reason class '%s' (%s %s)" % (cls, e["file"], e["fn"]))
        if not expl.strip():
            die("ledger entry with empty explanation (%s %s %s)" % (e["file"], e["fn"], e["text"][:60]))
        lemma = ""
        if cls == "lemma":
            lemma = expl.split()[0].strip()
            if lemma not in lemmas:
                lemmas[lemma] = coq_lemma_exists(lemma)
            if not lemmas[lemma]:
                die("ledger names lemma '%s' which the Coq development does not contain" % lemma)
        key = key_of(e["file"], e["fn"], e["kind"], e["text"], int(e["count"]))
        if key in seen:
            die("duplicate ledger entry: " + key[:200])
        seen.add(key)
        out.append({"key": key, "class": cls, "lemma": lemma, "reason": reason})
    return out


def main():
    os.makedirs(OUT, exist_ok=True)
    sites, casts, stats = scan()
    ledger = load_ledger()
    by_key = {e["key"]: e for e in ledger}
    for s in sites:
        e = by_key.get(s["key"])
        s["reason"] = e["reason"] if e else None
    unledgered = [s for s in sites if s["reason"] is None]
    stale = sorted(set(by_key) - set(s["key"] for s in sites))
    per_kind, per_class = {}, {}
    for s in sites:
        per_kind[s["kind"]] = per_kind.get(s["kind"], 0) + 1
        c = s["reason"].split(":", 1)[0] if s["reason"] else "UNLEDGERED"
        per_class[c] = per_class.get(c, 0) + 1
    with open(os.path.join(OUT, "panic_sites.json"), "w") as f:
        json.dump({"files": FILES, "sites": sites, "casts_informational": casts, "stats": stats,
                   "per_kind": per_kind, "per_class": per_class,
                   "unledgered": [s["key"] for s in unledgered], "stale_ledger_entries": stale},
                  f, indent=1, sort_keys=True)
        f.write("\n")

    kinds_used = KINDS
    with open(os.path.join(OUT, "PanicSites.v"), "w") as f:
        f.write("(* GENERATED by tools/gen/gen_panic_sites.py from the 21 files anchored by C01 and from\n"
                "   tools/gen/panic_ledger.json - do not edit.\n"
                "   ps_key / le_key = first 60 bits of sha256(file|fn|kind|statement text|#occurrences). *)\n")
        f.write("From Coq Require Import List NArith String.\nImport ListNotations.\nOpen Scope string_scope.\nOpen Scope N_scope.\n\n")
        f.write("Inductive site_kind := " + " | ".join("K" + k.capitalize() for k in kinds_used) + ".\n")
        f.write("Inductive reason_class := CLemma (name : string) | CGuard | CType | CConfig | CNotPeerReachable | COpen.\n\n")
        f.write("Record panic_site := mk_site { ps_file : string; ps_fn : string; ps_kind : site_kind; ps_key : N }.\n")
        f.write("Record ledger_entry := mk_entry { le_key : N; le_class : reason_class }.\n\n")
        f.write("Definition panic_sites : list panic_site := [\n")
        f.write(";\n".join("  mk_site %s %s K%s %d" % (coq_string(s["file"]), coq_string(s["fn"]), s["kind"].capitalize(), key_hash(s["key"]))
                           for s in sites))
        f.write("\n].\n\n")
        clsmap = {"guard": "CGuard", "type": "CType", "config": "CConfig", "not-peer-reachable": "CNotPeerReachable", "OPEN": "COpen"}
        f.write("Definition panic_ledger : list ledger_entry := [\n")
        f.write(";\n".join("  mk_entry %d %s" % (key_hash(e["key"]),
                                                  "(CLemma %s)" % coq_string(e["lemma"]) if e["class"] == "lemma" else clsmap[e["class"]])
                           for e in ledger))
        f.write("\n].\n\n")
        f.write("Definition panic_site_count : nat := %d.\n" % len(sites))
        f.write("Definition ledger_lemma_names : list string := [%s].\n"
                % "; ".join(coq_string(n) for n in sorted(set(e["lemma"] for e in ledger if e["lemma"]))))
    # a summary for whoever runs the translator by hand
    sys.stderr.write("gen_panic_sites: %d sites (%s); classes %s; %d un-ledgered, %d stale ledger entries, %d casts (informational)\n"
                     % (len(sites), ", ".join("%s %d" % kv for kv in sorted(per_kind.items())),
                        ", ".join("%s %d" % kv for kv in sorted(per_class.items())), len(unledgered), len(stale), len(casts)))
    for s in unledgered[:20]:
        sys.stderr.write("  UN-LEDGERED %s %s [%s] line %s: %s\n" % (s["file"], s["fn"], s["kind"], s["lines"], s["text"][:140]))


SELFTEST_SRC = r'''
use std::fmt::Display;
/// doc comment with x.unwrap() and a[1] and a + b
pub(crate) struct S<'a, T: Display + Copy> { data: &'a [u8], v: Vec<Vec<u8>>, arr: [u8; 4] }
const K: usize = MAX_A + 2;
impl<'a, T> S<'a, T> where T: Display + Copy {
    fn f(&mut self, i: usize, n: u16) -> Result<u8, ()> {
        let s = "a + b [0] .unwrap()";          // masked: no site
        let c = '+';
        let x = self.data[i];                   // index
        let y = &self.data[i..i + 1];           // index + arith
        let z = &self.data[..];                 // never panics
        let arr = [1u8, 2, 3];                  // array literal
        let t: Box<dyn Fn() + Send> = todo!();  // todo (bound `+` is not arithmetic)
        let k = MAX_A + MAX_B;                  // constants only: skipped
        let w = n.checked_add(n + 1);           // inside checked_: skipped
        let m = -1 + *self.ptr();               // unary minus / deref left alone, binary + flagged
        let sh = 1u32 << n;                     // shift by a variable
        let sh2 = n >> 3;                       // literal amount: skipped
        let d = i / n as usize;                 // div by a variable
        self.v.remove(0);                       // call
        debug_assert!(i < 3);                   // assert
        Ok(self.opt().unwrap())                 // unwrap
    }
}
#[cfg(test)]
mod tests {
    fn t() { let a = [1]; a[7]; None::<u8>.unwrap(); }
}
'''


def selftest(quiet=False):
    code, noc = mask(SELFTEST_SRC, "selftest")
    code, noc, removed = strip_test_items(code, noc, "selftest")
    if removed != 1:
        die("selftest: #[cfg(test)] item not removed")
    scopes = find_scopes(code, "selftest")
    if [n for _, _, n in scopes] != ["S::f"]:
        die("selftest: scopes are %s" % [n for _, _, n in scopes])
    found, casts = find_sites(code, scopes, "selftest")
    kinds = sorted(k for _, k in found)
    want = sorted(["index", "index", "arith", "todo", "arith", "shift", "div", "call", "assert", "unwrap"])
    if kinds != want:
        die("selftest: found %s, expected %s" % (kinds, want))
    if len(casts) != 1:
        die("selftest: casts %s" % casts)
    # perturbation: one more unwrap line is one more site
    src2 = SELFTEST_SRC.replace("let c = '+';", "let c = '+'; let q = self.opt().unwrap();")
    c2, n2 = mask(src2, "selftest")
    c2, n2, _ = strip_test_items(c2, n2, "selftest")
    f2, _ = find_sites(c2, find_scopes(c2, "selftest"), "selftest")
    if len(f2) != len(found) + 1:
        die("selftest: perturbed input did not change the output")
    if not quiet:
        print("gen_panic_sites selftest ok: %d sites, kinds %s" % (len(found), kinds))


if __name__ == "__main__":
    if "--selftest" in sys.argv:
        selftest()
    else:
        selftest(quiet=True)      # every run first checks the scanner on a synthetic source and a perturbation of it
        main()
