#!/usr/bin/env python3
"""Translator: dnp3/src/app/variations.rs -> coq/gen/Variations.v

Extracted (nothing is taken from anywhere else):
  * `Variation::lookup(group, var)`   -> lookup_table   (per group: named variations, wildcard or not)
  * `Variation::to_group_and_var`     -> used to give every enum variant its (group, var); checked to be
                                         the inverse of lookup
  * every `impl FixedSize for GroupXVarY`: SIZE, the ordered (field, kind) list of `read` and the ordered
                                         (field, kind) list of `write` (kinds from the cursor call or, for
                                         `self.f.write(cursor)`, from the declared type of the field)
  * every `impl FixedSizeVariation`   -> VARIATION must be the namesake variant

The shapes accepted are the ones the Rust generator emits (one match arm / one field per line).  Anything
else makes the translator fail loudly."""
import os, re, sys

REPO = os.environ.get("VERIF_REPO", "/repo")
OUT = os.environ.get("VERIF_GEN_OUT") or os.path.join(os.path.dirname(os.path.abspath(__file__)), "..", "..", "coq", "gen")
SRC = "dnp3/src/app/variations.rs"


def die(msg):
    sys.exit("gen_variations: " + msg)


def read(p):
    return open(os.path.join(REPO, p)).read()


def block_after(src, start_regex, what):
    """text between the '{' that follows the match of start_regex and its matching '}'"""
    m = re.search(start_regex, src)
    if not m:
        die("%s not found" % what)
    i = src.index("{", m.end() - 1) if src[m.end() - 1] != "{" else m.end() - 1
    depth = 0
    for j in range(i, len(src)):
        if src[j] == "{":
            depth += 1
        elif src[j] == "}":
            depth -= 1
            if depth == 0:
                return src[i + 1:j]
    die("unbalanced braces in %s" % what)


# cursor call -> kind
READ_CALLS = {
    "cursor.read_u8()?": "FU8", "cursor.read_u16_le()?": "FU16", "cursor.read_u32_le()?": "FU32",
    "cursor.read_i16_le()?": "FI16", "cursor.read_i32_le()?": "FI32",
    "cursor.read_f32_le()?": "FF32", "cursor.read_f64_le()?": "FF64",
    "Timestamp::new(cursor.read_u48_le()?)": "FU48",
    "CommandStatus::from(cursor.read_u8()?)": "FU8",
    "ControlCode::from(cursor.read_u8()?)": "FU8",
}
WRITE_CALLS = {"write_u8": "FU8", "write_u16_le": "FU16", "write_u32_le": "FU32", "write_i16_le": "FI16",
               "write_i32_le": "FI32", "write_f32_le": "FF32", "write_f64_le": "FF64"}
# `self.f.write(cursor)?` : kind by declared field type (Timestamp::write = write_u48_le,
# CommandStatus::write = write_u8(as_u8), both pinned below)
TYPE_WRITE = {"Timestamp": "FU48", "CommandStatus": "FU8"}
# declared type each kind may be stored in (read side must agree with the struct declaration)
KIND_TYPES = {"FU8": {"u8", "CommandStatus", "ControlCode"}, "FU16": {"u16"}, "FU32": {"u32"}, "FI16": {"i16"},
              "FI32": {"i32"}, "FF32": {"f32"}, "FF64": {"f64"}, "FU48": {"Timestamp"}}
WIDTH = {"FU8": 1, "FU16": 2, "FI16": 2, "FU32": 4, "FI32": 4, "FF32": 4, "FU48": 6, "FF64": 8}


def parse_enum(src):
    body = block_after(src, r"pub enum Variation \{", "enum Variation")
    named, wild = [], []
    for line in body.splitlines():
        line = line.strip()
        if not line or line.startswith("//") or line.startswith("#"):
            continue
        m = re.fullmatch(r"(Group(\d+)Var(\d+)),", line)
        if m:
            named.append(m.group(1)); continue
        m = re.fullmatch(r"(Group(\d+))\(u8\),", line)
        if m:
            wild.append(m.group(1)); continue
        die("unexpected line in enum Variation: " + line)
    return named, wild


def parse_to_group_and_var(src, named, wild):
    body = block_after(src, r"pub\(crate\) fn to_group_and_var\(self\) -> \(u8, u8\) \{\s*match self \{", "to_group_and_var")
    gv = {}
    for line in body.splitlines():
        line = line.strip()
        if not line:
            continue
        m = re.fullmatch(r"Variation::(\w+) => \((\d+), (\d+)\),", line)
        if m:
            gv[m.group(1)] = (int(m.group(2)), int(m.group(3))); continue
        m = re.fullmatch(r"Variation::(\w+)\(x\) => \((\d+), x\),", line)
        if m:
            gv[m.group(1)] = (int(m.group(2)), None); continue
        die("unexpected arm in to_group_and_var: " + line)
    for n in named:
        if n not in gv or gv[n][1] is None:
            die("to_group_and_var has no arm for " + n)
    for w in wild:
        if w not in gv or gv[w][1] is not None:
            die("to_group_and_var has no wildcard arm for " + w)
    if set(gv) != set(named) | set(wild):
        die("to_group_and_var mentions variants that enum Variation does not have")
    return gv


def parse_lookup(src):
    body = block_after(src, r"pub\(crate\) fn lookup\(group: u8, var: u8\) -> Option<Variation> \{\s*match group \{", "lookup")
    groups = {}   # g -> (explicit {v: name}, explicit_none [v], default name-or-None)
    lines = [l.strip() for l in body.splitlines() if l.strip()]
    i = 0
    saw_default = False
    while i < len(lines):
        l = lines[i]
        m = re.fullmatch(r"(\d+) => match var \{", l)
        if m:
            g = int(m.group(1))
            explicit, none, default = {}, [], "?"
            i += 1
            while lines[i] != "},":
                a = lines[i]
                m2 = re.fullmatch(r"(\d+) => Some\(Variation::(\w+)\),", a)
                m3 = re.fullmatch(r"(\d+) => None,", a)
                m4 = re.fullmatch(r"_ => Some\(Variation::(\w+)\(var\)\),", a)
                if m2: explicit[int(m2.group(1))] = m2.group(2)
                elif m3: none.append(int(m3.group(1)))
                elif m4: default = m4.group(1)
                elif a == "_ => None,": default = None
                else: die("unexpected arm in lookup group %d: %s" % (g, a))
                i += 1
            if default == "?":
                die("lookup group %d has no default arm" % g)
            if g in groups: die("lookup group %d twice" % g)
            groups[g] = (explicit, none, default)
        elif re.fullmatch(r"(\d+) => Some\(Variation::(\w+)\(var\)\),", l):
            m = re.fullmatch(r"(\d+) => Some\(Variation::(\w+)\(var\)\),", l)
            g = int(m.group(1))
            if g in groups: die("lookup group %d twice" % g)
            groups[g] = ({}, [], m.group(2))
        elif l == "_ => None,":
            saw_default = True
        else:
            die("unexpected line in lookup: " + l)
        i += 1
    if not saw_default:
        die("lookup has no `_ => None` arm")
    return groups


def parse_structs(src):
    """struct name -> {field: type}"""
    out = {}
    for m in re.finditer(r"pub(?:\(crate\))? struct (Group\d+Var\d+) \{(.*?)\n\}", src, re.S):
        fields = {}
        for line in m.group(2).splitlines():
            line = line.strip()
            if not line or line.startswith("//"):
                continue
            fm = re.fullmatch(r"pub(?:\(crate\))? (\w+): (\w+),", line)
            if not fm:
                die("unexpected line in struct %s: %s" % (m.group(1), line))
            fields[fm.group(1)] = fm.group(2)
        out[m.group(1)] = fields
    return out


def parse_fixed(src, structs):
    out = []
    for m in re.finditer(r"impl FixedSize for (\w+) \{(.*?)\n\}\n", src, re.S):
        name, body = m.group(1), m.group(2)
        if name not in structs:
            die("impl FixedSize for %s but no such struct" % name)
        sm = re.search(r"const SIZE: u8 = (\d+);", body)
        if not sm:
            die("no SIZE in impl FixedSize for " + name)
        size = int(sm.group(1))
        rm = re.search(r"fn read\(cursor: &mut ReadCursor\) -> Result<Self, ReadError> \{\s*Ok\(\s*%s \{(.*?)\}\s*\)\s*\}" % name, body, re.S)
        if not rm:
            die("unexpected shape of read in impl FixedSize for " + name)
        rfields = []
        for line in rm.group(1).splitlines():
            line = line.strip()
            if not line:
                continue
            fm = re.fullmatch(r"(\w+): (.*),", line)
            if not fm or fm.group(2) not in READ_CALLS:
                die("unexpected read expression in %s: %s" % (name, line))
            f, kind = fm.group(1), READ_CALLS[fm.group(2)]
            if f not in structs[name]:
                die("%s::read sets unknown field %s" % (name, f))
            if structs[name][f] not in KIND_TYPES[kind]:
                die("%s::read: field %s of type %s read with %s" % (name, f, structs[name][f], fm.group(2)))
            rfields.append((f, kind))
        wm = re.search(r"fn write\(&self, cursor: &mut WriteCursor\) -> Result<\(\), WriteError> \{(.*?)Ok\(\(\)\)\s*\}", body, re.S)
        if not wm:
            die("unexpected shape of write in impl FixedSize for " + name)
        wfields = []
        for line in wm.group(1).splitlines():
            line = line.strip()
            if not line:
                continue
            a = re.fullmatch(r"cursor\.(\w+)\(self\.(\w+)\)\?;", line)
            b = re.fullmatch(r"self\.(\w+)\.write\(cursor\)\?;", line)
            c = re.fullmatch(r"cursor\.write_u8\(self\.(\w+)\.as_u8\(\)\)\?;", line)
            if a and a.group(1) in WRITE_CALLS:
                f, kind = a.group(2), WRITE_CALLS[a.group(1)]
                if structs[name].get(f) not in KIND_TYPES[kind] or structs[name].get(f) in TYPE_WRITE:
                    die("%s::write: field %s of type %s written with %s" % (name, f, structs[name].get(f), a.group(1)))
            elif b:
                f = b.group(1)
                t = structs[name].get(f)
                if t not in TYPE_WRITE:
                    die("%s::write: `self.%s.write(cursor)` on a field of type %s" % (name, f, t))
                kind = TYPE_WRITE[t]
            elif c:
                f = c.group(1)
                if structs[name].get(f) != "ControlCode":
                    die("%s::write: as_u8() on a field of type %s" % (name, structs[name].get(f)))
                kind = "FU8"
            else:
                die("unexpected write statement in %s: %s" % (name, line))
            wfields.append((f, kind))
        if set(f for f, _ in rfields) != set(structs[name]) or len(rfields) != len(structs[name]):
            die("%s::read does not set every field exactly once" % name)
        out.append((name, size, rfields, wfields))
    return out


def pin(path, regex, what):
    if not re.search(regex, read(path), re.S):
        die("pinned shape not found (%s) in %s" % (what, path))


def main():
    os.makedirs(OUT, exist_ok=True)
    src = read(SRC)
    named, wild = parse_enum(src)
    gv = parse_to_group_and_var(src, named, wild)
    groups = parse_lookup(src)
    # lookup must be the inverse of to_group_and_var
    seen = set()
    for g, (explicit, none, default) in groups.items():
        for v, name in explicit.items():
            if gv.get(name) != (g, v):
                die("lookup(%d,%d) = %s but to_group_and_var(%s) = %s" % (g, v, name, name, gv.get(name)))
            seen.add(name)
        if default is not None:
            if gv.get(default) != (g, None):
                die("lookup group %d defaults to %s whose group is %s" % (g, default, gv.get(default)))
            seen.add(default)
    if seen != set(named) | set(wild):
        die("variants never produced by lookup: %s" % sorted((set(named) | set(wild)) - seen))
    structs = parse_structs(src)
    fixed = parse_fixed(src, structs)
    if not fixed:
        die("no impl FixedSize found")
    # FixedSizeVariation: VARIATION is the namesake
    fsv = re.findall(r"impl FixedSizeVariation for (\w+) \{\s*const VARIATION : Variation = Variation::(\w+);\s*\}", src)
    if sorted(a for a, _ in fsv) != sorted(n for n, _, _, _ in fixed):
        die("impl FixedSizeVariation and impl FixedSize cover different types")
    for a, b in fsv:
        if a != b:
            die("FixedSizeVariation for %s names Variation::%s" % (a, b))
    for name, _, _, _ in fixed:
        if name not in gv or gv[name][1] is None:
            die("fixed-size type %s is not a named variation" % name)
    # helper write/read fns the kinds rely on
    pin("dnp3/src/app/types.rs", r"pub\(crate\) fn write\(self, cursor: &mut WriteCursor\) -> Result<\(\), WriteError> \{\s*cursor\.write_u48_le\(self\.value\)\s*\}", "Timestamp::write")
    pin("dnp3/src/app/control_enums.rs", r"pub\(crate\) fn write\(self, cursor: &mut WriteCursor\) -> Result<\(\), WriteError> \{\s*cursor\.write_u8\(self\.as_u8\(\)\)\s*\}", "CommandStatus::write")

    with open(os.path.join(OUT, "Variations.v"), "w") as f:
        f.write("(* GENERATED by tools/gen/gen_variations.py from %s - do not edit *)\n" % SRC)
        f.write("From Coq Require Import List NArith.\nImport ListNotations.\nOpen Scope N_scope.\n\n")
        f.write("(* wire kinds of the fields of fixed-size variations (the cursor call that reads/writes them) *)\n")
        f.write("Inductive fkind := FU8 | FU16 | FU32 | FU48 | FI16 | FI32 | FF32 | FF64.\n")
        f.write("Definition fwidth (k : fkind) : N :=\n  match k with FU8 => 1 | FU16 => 2 | FI16 => 2 | FU32 => 4 | FI32 => 4 | FF32 => 4 | FU48 => 6 | FF64 => 8 end.\n\n")
        f.write("(* Variation::lookup: (group, variations with a named variant, wildcard variant: Some excluded | None) *)\n")
        f.write("Definition lookup_table : list (N * list N * option (list N)) := [\n")
        rows = []
        for g in sorted(groups):
            explicit, none, default = groups[g]
            ex = "[" + "; ".join(str(v) for v in sorted(explicit)) + "]"
            if default is None:
                rows.append("  (%d, %s, None)" % (g, ex))
            else:
                rows.append("  (%d, %s, Some [%s])" % (g, ex, "; ".join(str(v) for v in sorted(none))))
        f.write(";\n".join(rows) + "].\n\n")
        f.write("(* a field is named by its position in the struct declaration (0-based); names are in the comments *)\n")
        f.write("Record fixed_info := { fi_g : N; fi_v : N; fi_size : N;\n"
                "  fi_read : list (N * fkind); fi_write : list (N * fkind) }.\n\n")
        f.write("(* impl FixedSize: SIZE, fields in the order `read` reads them, fields in the order `write` writes them *)\n")
        f.write("Definition fixed_table : list fixed_info := [\n")
        rows = []
        for name, size, rf, wf in sorted(fixed, key=lambda x: gv[x[0]]):
            g, v = gv[name]
            decl = list(structs[name])
            fl = lambda l: "[" + "; ".join("(%d, %s)" % (decl.index(a), k) for a, k in l) + "]"
            rows.append("  (* %s { %s } *)\n  {| fi_g := %d; fi_v := %d; fi_size := %d;\n     fi_read := %s;\n     fi_write := %s |}"
                        % (name, ", ".join("%d: %s" % (i, a) for i, a in enumerate(decl)), g, v, size, fl(rf), fl(wf)))
        f.write(";\n".join(rows) + "].\n")
    # side table for the other translators / the cross-check of tools/dnp_objects.py (not a Coq file)
    with open(os.path.join(OUT, "variations.json"), "w") as f:
        import json
        json.dump({"gv": {k: list(v) for k, v in gv.items()},
                   "fixed": {n: {"size": s, "read": rf, "write": wf} for n, s, rf, wf in fixed},
                   "lookup": {str(g): {"explicit": sorted(e), "none": sorted(n), "wild": d} for g, (e, n, d) in groups.items()}},
                  f, indent=1, sort_keys=True)


if __name__ == "__main__":
    main()
