#!/usr/bin/env python3
"""Translator: conversion code of the binding crate -> coq/gen/FfiTables.v (+ FfiTables.json).

Reads (never writes)
  * /repo/ffi/dnp3-ffi/src/**/*.rs          the hand-written binding layer,
  * the oo-bindgen output `ffi.rs` in the OUT_DIR of dnp3-ffi's build script (the binding-side enum
    definitions; located by asking cargo, so it always belongs to the current source),
  * /repo/dnp3/src/**/*.rs                   the native enum definitions and `fn new` signatures,
  * ffi_fallbacks.json, ffi_skipped.json     committed, hand-reviewed pins (this directory).

Every conversion unit of the binding crate is classified:
  U1  `impl From<A> for B` / `impl TryFrom<A> for B`   (macro instantiations expanded first)
  U2  every fn of an inherent `impl ffi::T` block       (measurement -> binding constructors)
  U3  free fns named `convert_*`
  U4  every other `match` whose patterns name enum variants
  U5  every struct literal of a binding type (`ffi::T { .. }`) written inline in any other function
into
  * an ENUM TABLE   (match over variants: list of (source variant, target variant), wildcard flag,
                     variant lists of both enums, pinned fallbacks),
  * a STRUCT TABLE  (struct literal / `T::new(..)`: list of (target field, accessor chains)),
  * and, for the struct tables named in ffi_fallbacks.json `config_wrappers` (the CONFIGURATION
    conversions: `fn convert_outstation_config`, `TryFrom<ffi::AssociationConfig>`, ...), a CONFIG TABLE
    (native field, binding accessor, wrapper): the wrapper is the text of the field expression with the
    accessor abstracted to `$`, looked up in the closed vocabulary WRAPPERS (`Some($)` = some,
    `Timeout::from_duration($)?` = timeout, ...; anything else is emitted as `unknown:<text>` and
    breaks the table theorem), next to the reviewed wrapper of that field,
  * or it must be listed in ffi_skipped.json with a reason and the hash of its text.
Anything else makes the translator fail loudly.

NAME NORMALISATION happens here and only here, in `norm()`: Coq sees normalised strings."""
import fcntl, hashlib, json, os, re, subprocess, sys

REPO = os.environ.get("VERIF_REPO", "/repo")
HERE = os.path.dirname(os.path.abspath(__file__))
VERIF = os.path.dirname(os.path.dirname(HERE))
OUT = os.environ.get("VERIF_GEN_OUT") or os.path.join(VERIF, "coq", "gen")
FFI_SRC = os.path.join(REPO, "ffi", "dnp3-ffi", "src")
NATIVE_SRC = os.path.join(REPO, "dnp3", "src")
TARGET_FFI = os.path.join(VERIF, ".cache", "target_ffi")


def die(msg):
    sys.exit("gen_ffi: " + msg)


def norm(name):
    """THE normalisation of a variant / field / accessor name: lower case, underscores removed, a
    leading `get_` of an accessor dropped.  `DirectOperateNoAck`, `DIRECT_OPERATE_NO_ACK` and
    `direct_operate_no_ack` all become `directoperatenoack`; `get_need_time` becomes `needtime`."""
    n = name.strip()
    if n.startswith("get_"):
        n = n[4:]
    return n.replace("_", "").lower()


def norm_type(t):
    """type names are only used to label tables and to look enums up: strip paths, refs, spaces"""
    t = re.sub(r"\s+", "", t)
    t = t.replace("crate::ffi::", "ffi::")
    t = re.sub(r"^&(mut)?", "", t)
    return t


# ------------------------------------------------------------------------------------------------
# lexical helpers

def clean(src):
    """comments and the contents of string / char literals replaced by spaces; length and line
    structure preserved"""
    out = []
    i, n = 0, len(src)
    while i < n:
        c = src[i]
        if src.startswith("//", i):
            j = src.find("\n", i)
            j = n if j < 0 else j
            out.append(" " * (j - i)); i = j
        elif src.startswith("/*", i):
            depth, j = 1, i + 2
            while j < n and depth:
                if src.startswith("/*", j): depth += 1; j += 2
                elif src.startswith("*/", j): depth -= 1; j += 2
                else: j += 1
            out.append("".join(ch if ch == "\n" else " " for ch in src[i:j])); i = j
        elif c == '"':
            j = i + 1
            while j < n and src[j] != '"':
                j += 2 if src[j] == "\\" else 1
            out.append('"' + "".join(ch if ch == "\n" else " " for ch in src[i + 1:j]) + '"'); i = j + 1
        elif c == "'":
            m = re.match(r"'(\\.[^']*|[^\\'])'", src[i:])
            if m:
                out.append("'" + " " * (len(m.group(0)) - 2) + "'"); i += len(m.group(0))
            else:
                out.append(c); i += 1
        else:
            out.append(c); i += 1
    return "".join(out)


OPEN = {"(": ")", "[": "]", "{": "}"}


def close_of(s, i):
    """index of the bracket closing s[i]"""
    stack = []
    for j in range(i, len(s)):
        c = s[j]
        if c in OPEN:
            stack.append(OPEN[c])
        elif c in ")]}":
            if not stack or stack.pop() != c:
                raise ValueError("unbalanced brackets near: " + s[max(0, j - 60):j + 20])
            if not stack:
                return j
    raise ValueError("unclosed bracket: " + s[i:i + 80])


def split_top(s, sep=","):
    """split at separators that are outside every bracket (and outside `<..>` generic lists when
    they are balanced on the way)"""
    parts, depth, cur, i = [], 0, [], 0
    while i < len(s):
        c = s[i]
        if c in OPEN: depth += 1
        elif c in ")]}": depth -= 1
        if depth == 0 and s.startswith(sep, i):
            if sep == "|" and (s.startswith("||", i) or (i > 0 and s[i - 1] == "|")):
                cur.append(c); i += 1; continue
            parts.append("".join(cur)); cur = []; i += len(sep); continue
        cur.append(c); i += 1
    parts.append("".join(cur))
    return parts


def line_of(text, pos):
    return text.count("\n", 0, pos) + 1


def sha(text):
    return hashlib.sha256(re.sub(r"\s+", "", text).encode()).hexdigest()[:16]


# ------------------------------------------------------------------------------------------------
# enum definitions

class Enums:
    def __init__(self):
        self.ffi = {}      # name -> [variants]            (oo-bindgen output)
        self.native = {}   # name -> [(file, [variants])]  (dnp3/src)
        self.local = {}    # name -> [variants]            (enums declared in the binding crate)
        self.ctors = {}    # native type name -> [[param names]] of `fn new`

    @staticmethod
    def parse_enums(text):
        out = []
        for m in re.finditer(r"\benum\s+(\w+)\s*(?:<[^>{]*>)?\s*\{", text):
            o = text.index("{", m.end() - 1)
            c = close_of(text, o)
            body = text[o + 1:c]
            vs = []
            for part in split_top(body):
                part = re.sub(r"#\s*\[[^\]]*\]", " ", part).strip()
                if not part:
                    continue
                vm = re.match(r"(\w+)", part)
                if not vm:
                    die("cannot read enum variant in %s: %r" % (m.group(1), part[:60]))
                vs.append(vm.group(1))
            out.append((m.group(1), vs))
        return out

    def variants(self, side, name, need=()):
        """variants of enum `name` on `side`; `need` (names used by the arms) picks one definition
        when the native crate declares several enums of that name"""
        if side == "ffi":
            return self.ffi.get(name)
        if name in self.local and side != "dnp3":
            return self.local[name]
        defs = self.native.get(name)
        if not defs:
            return None
        ok = [d for d in defs if set(need) <= set(d[1])]
        distinct = {tuple(d[1]) for d in ok}
        if len(distinct) != 1:
            die("native enum %s is declared %d times (%s) and the arms %s do not select exactly one"
                % (name, len(defs), ", ".join(d[0] for d in defs), sorted(need)))
        return ok[0][1]


def find_out_dir():
    """ask cargo for the OUT_DIR of dnp3-ffi's build script (builds the test target; this is the
    build the correspondence part of the check needs anyway)"""
    forced = os.environ.get("VERIF_FFI_OUT_DIR")
    if forced:
        return forced
    os.makedirs(os.path.join(VERIF, ".cache"), exist_ok=True)
    # the guard cfg is passed to the dnp3-ffi crate only (`cargo rustc ... -- --cfg dnp3_verif`), so that
    # dnp3 itself is built exactly as a production dependency; same command as tools/props/c20.py
    env = dict(os.environ, CARGO_NET_OFFLINE="true", CARGO_TARGET_DIR=TARGET_FFI,
               CARGO_PROFILE_DEV_DEBUG="0", CARGO_PROFILE_TEST_DEBUG="0")   # no debug info: a third of the disk use
    env.pop("RUSTFLAGS", None)
    with open(os.path.join(VERIF, ".cache", "cargo_ffi.lock"), "w") as lf:
        fcntl.flock(lf, fcntl.LOCK_EX)
        p = subprocess.run(["cargo", "rustc", "-p", "dnp3-ffi", "--lib", "--profile", "test", "--offline",
                            "--message-format=json", "--", "--cfg", "dnp3_verif"],
                           cwd=REPO, env=env, stdout=subprocess.PIPE, stderr=subprocess.PIPE, text=True, timeout=3000)
    out_dir = None
    errs = []
    for line in p.stdout.splitlines():
        if not line.startswith("{"):
            continue
        try:
            j = json.loads(line)
        except ValueError:
            continue
        if j.get("reason") == "build-script-executed" and re.search(r"[/ ]dnp3-ffi[@# ]|dnp3-ffi ", j.get("package_id", "")) \
                and "dnp3-ffi-java" not in j.get("package_id", ""):
            out_dir = j.get("out_dir")
        if j.get("reason") == "compiler-message" and j["message"].get("level") == "error":
            errs.append(j["message"].get("rendered", ""))
    if out_dir and os.path.exists(os.path.join(out_dir, "ffi.rs")):
        return out_dir
    die("cannot locate the oo-bindgen output of dnp3-ffi (cargo exit %d)\n%s\n%s"
        % (p.returncode, "\n".join(errs)[-3000:], p.stderr[-1500:]))


def load_enums():
    e = Enums()
    out_dir = find_out_dir()
    gen = clean(open(os.path.join(out_dir, "ffi.rs")).read())
    for name, vs in Enums.parse_enums(gen):
        if name in e.ffi and e.ffi[name] != vs:
            die("binding enum %s generated twice with different variants" % name)
        e.ffi[name] = vs
    if len(e.ffi) < 50:
        die("only %d enums found in the oo-bindgen output %s" % (len(e.ffi), out_dir))
    # runtime.rs / tracing.rs are written into OUT_DIR by the build script as well and are
    # `include!`d by the binding crate: their enums (RuntimeError, ..) are crate-local types
    for extra in ("runtime.rs", "tracing.rs"):
        pth = os.path.join(out_dir, extra)
        if not os.path.exists(pth):
            die("%s missing in %s" % (extra, out_dir))
        for name, vs in Enums.parse_enums(clean(open(pth).read())):
            e.local[name] = vs
    # enums that dnp3 re-exports from the serialport crate (`pub use tokio_serial::{DataBits, ..}`)
    lock = open(os.path.join(REPO, "Cargo.lock")).read()
    vm = re.search(r'name = "serialport"\nversion = "([^"]+)"', lock)
    if not vm:
        die("serialport not found in Cargo.lock")
    home = os.environ.get("CARGO_HOME", os.path.expanduser("~/.cargo"))
    cands = []
    regsrc = os.path.join(home, "registry", "src")
    for d in (sorted(os.listdir(regsrc)) if os.path.isdir(regsrc) else []):
        c = os.path.join(regsrc, d, "serialport-" + vm.group(1), "src", "lib.rs")
        if os.path.exists(c):
            cands.append(c)
    if not cands:
        die("source of serialport %s not found under %s" % (vm.group(1), regsrc))
    reexp = re.search(r"pub use tokio_serial::\{([^}]*)\}", open(os.path.join(NATIVE_SRC, "serial", "mod.rs")).read())
    if not reexp:
        die("dnp3/src/serial/mod.rs no longer re-exports the tokio_serial enums")
    wanted = [x.strip() for x in reexp.group(1).split(",") if x.strip()]
    got = dict(Enums.parse_enums(clean(open(cands[0]).read())))
    for w in wanted:
        if w not in got:
            die("enum %s not found in %s" % (w, cands[0]))
        e.native.setdefault(w, []).append(("serialport-%s/src/lib.rs" % vm.group(1), got[w]))
    for root, _, files in os.walk(NATIVE_SRC):
        for f in sorted(files):
            if not f.endswith(".rs"):
                continue
            path = os.path.join(root, f)
            rel = os.path.relpath(path, NATIVE_SRC)
            if "/tests/" in "/" + rel or rel.startswith("tests"):
                continue
            text = clean(open(path).read())
            for name, vs in Enums.parse_enums(text):
                e.native.setdefault(name, []).append((rel, vs))
            for m in re.finditer(r"\bimpl(?:\s*<[^>]*>)?\s+(\w+)(?:\s*<[^>{]*>)?\s*\{", text):
                o = text.index("{", m.end() - 1)
                try:
                    c = close_of(text, o)
                except ValueError:
                    continue
                for fm in re.finditer(r"\bfn\s+new\s*\(", text[o:c]):
                    po = o + fm.end() - 1
                    pc = close_of(text, po)
                    names = []
                    for prm in split_top(text[po + 1:pc]):
                        prm = prm.strip()
                        if not prm:
                            continue
                        pm = re.match(r"(?:mut\s+)?(\w+)\s*:", prm)
                        if not pm:
                            names = None
                            break
                        names.append(pm.group(1))
                    if names is not None:
                        e.ctors.setdefault(m.group(1), [])
                        if names not in e.ctors[m.group(1)]:
                            e.ctors[m.group(1)].append(names)
    return e, out_dir


# ------------------------------------------------------------------------------------------------
# the model being built

class Model:
    def __init__(self, enums, fallbacks, skipped):
        self.enums = enums
        self.fb = fallbacks
        self.skipped = skipped
        self.skip_used = set()
        self.enum_tables = []     # dicts
        self.struct_tables = []
        self.control_flow = 0     # matches over Option/Result/literals only (not conversions)
        self.names = set()
        self.problems = []        # unknown shapes, reported together

    def uniq(self, name):
        base, k = name, 2
        while name in self.names:
            name = "%s~%d" % (base, k); k += 1
        self.names.add(name)
        return name

    def snapshot(self):
        return (len(self.enum_tables), len(self.struct_tables), set(self.names), self.control_flow)

    def rollback(self, snap):
        del self.enum_tables[snap[0]:]
        del self.struct_tables[snap[1]:]
        self.names = snap[2]
        self.control_flow = snap[3]

    def try_skip(self, key, text, where):
        """True when `key` is on the committed skip list (with the hash of its current text)"""
        ent = self.skipped.get(key)
        if ent is None:
            return False
        self.skip_used.add(key)
        if ent.get("sha") != sha(text):
            self.problems.append("%s: skipped unit %r changed (sha %s, listed %s): review it and update ffi_skipped.json"
                                 % (where, key, sha(text), ent.get("sha")))
        return True


class Ctx:
    """where we are: used for table names and for resolving `Self`"""
    def __init__(self, file, unit, line, roots, src_type=None, dst_type=None, self_type=None):
        self.file, self.unit, self.line = file, unit, line
        self.roots = list(roots)        # identifiers whose accessor chains are the sources
        self.src_type, self.dst_type, self.self_type = src_type, dst_type, self_type
        self.env = {}                   # let-bound identifier -> expression text
        self.conv = True                # inside a conversion unit (U1-U3); False for a free-standing match (U4)
        self.any_root = False           # U5: every local identifier is a source, and is part of its chain

    def sub(self, suffix, roots=None):
        c = Ctx(self.file, self.unit + suffix, self.line, self.roots if roots is None else roots,
                self.src_type, self.dst_type, self.self_type)
        c.env = dict(self.env)
        c.conv = self.conv
        c.any_root = self.any_root
        return c

    def where(self):
        return "%s:%d" % (self.file, self.line)


IDENT = r"[A-Za-z_]\w*"
PATH_RE = re.compile(r"((?:%s\s*::\s*)+)(%s)" % (IDENT, IDENT))
WRAP_STD = {"Some", "Ok", "Err", "None"}


def strip_parens(e):
    e = e.strip()
    while e.startswith("(") and close_of(e, 0) == len(e) - 1 and len(split_top(e[1:-1])) == 1:
        e = e[1:-1].strip()
    return e


def strip_block(e):
    """`{ expr }` -> expr when the block holds a single expression"""
    e = e.strip()
    while e.startswith("{") and close_of(e, 0) == len(e) - 1:
        inner = e[1:-1].strip()
        if len([p for p in split_top(inner, ";") if p.strip()]) != 1 or inner.endswith(";"):
            return e
        e = inner
    return e


def parse_match(expr):
    """`match S { arms }` -> (S, [(pattern, body)], rest after the closing brace) or None"""
    m = re.match(r"match\b", expr)
    if not m:
        return None
    i, depth = m.end(), 0
    while i < len(expr):
        c = expr[i]
        if c in "([": depth += 1
        elif c in ")]": depth -= 1
        elif c == "{" and depth == 0:
            break
        i += 1
    else:
        return None
    scrut = expr[m.end():i].strip()
    c = close_of(expr, i)
    body = expr[i + 1:c]
    arms = []
    p = 0
    while True:
        while p < len(body) and body[p] in " \t\r\n,":
            p += 1
        if p >= len(body):
            break
        # pattern up to the top-level =>
        q, depth = p, 0
        while q < len(body):
            ch = body[q]
            if ch in OPEN: depth += 1
            elif ch in ")]}": depth -= 1
            elif depth == 0 and body.startswith("=>", q):
                break
            q += 1
        if q >= len(body):
            raise ValueError("match arm without => : " + body[p:p + 80])
        pat = body[p:q].strip()
        q += 2
        while q < len(body) and body[q] in " \t\r\n":
            q += 1
        if q < len(body) and body[q] == "{":
            e = close_of(body, q)
            # `{ .. }.into()` and the like continue after the block
            r = e + 1
            while r < len(body) and body[r] in " \t\r\n":
                r += 1
            if r < len(body) and body[r] == ".":
                e = next_top_comma(body, r) - 1
            arm_body = body[q:e + 1]
            p = e + 1
        else:
            e = next_top_comma(body, q)
            arm_body = body[q:e]
            p = e
        arms.append((pat, arm_body.strip()))
    return scrut, arms, expr[c + 1:].strip(), c


def next_top_comma(s, i):
    depth = 0
    while i < len(s):
        ch = s[i]
        if ch in OPEN: depth += 1
        elif ch in ")]}": depth -= 1
        elif ch == "," and depth == 0:
            return i
        i += 1
    return len(s)


# ------------------------------------------------------------------------------------------------
# patterns and arm bodies

def enum_side_and_name(path_prefix, ctx, which):
    """`ffi::TimeQuality::` -> ("ffi", "TimeQuality");  `Self::` resolved through the impl header"""
    segs = [s.strip() for s in path_prefix.split("::") if s.strip()]
    name = segs[-1]
    if name == "Self":
        t = ctx.dst_type if which == "dst" else ctx.src_type
        if which == "dst" and ctx.self_type:
            t = ctx.self_type
        if not t:
            return None
        t = re.sub(r"^(Option|Result)<(\(\),)?", "", norm_type(t)).rstrip(">")
        segs = t.split("::")
        name = segs[-1]
    side = "ffi" if "ffi" in segs[:-1] else ("dnp3" if "dnp3" in segs[:-1] else "native")
    return side, name


def pattern_keys(pat, ctx):
    """-> list of (kind, enum(side,name) or None, variant) for each `|` alternative.
    kind: 'variant', 'wild', 'std' (none/some/ok/err/true/false), 'literal', 'tuple'"""
    out = []
    for alt in split_top(pat, "|"):
        a = alt.strip()
        a = re.sub(r"^(&\s*)?(ref\s+|mut\s+)*", "", a)
        if re.search(r"\bif\b", a):
            return [("guard", None, a)]
        if a == "_" or re.fullmatch(r"[a-z_]\w*", a) and a not in ("true", "false"):
            out.append(("wild", None, "_")); continue
        if a in ("true", "false"):
            out.append(("std", ("std", "bool"), a)); continue
        if a == "None":
            out.append(("std", ("std", "Option"), "none")); continue
        m = re.fullmatch(r"(Some|Ok|Err)\s*\((.*)\)", a, re.S)
        if m:
            inner = m.group(2).strip()
            ik = pattern_keys(inner, ctx)
            if len(ik) == 1 and ik[0][0] == "variant":
                out.append(("variant", ik[0][1], ik[0][2], m.group(1).lower())); continue
            out.append(("std", ("std", "Option" if m.group(1) == "Some" else "Result"), m.group(1).lower())); continue
        if a.startswith("("):
            out.append(("tuple", None, a)); continue
        if a.startswith('"') or re.match(r"-?\d", a):
            out.append(("literal", None, a)); continue
        m = re.match(r"((?:%s\s*::\s*)+)(%s)\s*(\(.*\)|\{.*\})?$" % (IDENT, IDENT), a, re.S)
        if m:
            en = enum_side_and_name(m.group(1), ctx, "src")
            out.append(("variant", en, m.group(2))); continue
        return [("unknown", None, a)]
    return out


def pattern_bindings(pat):
    """identifiers bound by a pattern such as `Created(id)` or `Overflow { created, discarded }`"""
    m = re.search(r"[({](.*)[)}]\s*$", pat.strip(), re.S)
    if not m:
        return []
    names = []
    for part in split_top(m.group(1)):
        part = part.strip()
        part = re.sub(r"^(ref\s+|mut\s+)+", "", part)
        if ":" in part:
            part = part.split(":", 1)[1].strip()
        if re.fullmatch(r"[a-z_]\w*", part) and part != "_":
            names.append(part)
    return names


def variant_paths(text, model, ctx):
    """all `Enum::Variant` paths in `text` whose Enum is a known enum (or Self)"""
    found = []
    for m in PATH_RE.finditer(text):
        segs = [s.strip() for s in m.group(1).split("::") if s.strip()]
        en = segs[-1]
        var = m.group(2)
        if not var[0].isupper():
            continue           # associated fn such as Timestamp::new
        if en == "Self" or en in model.enums.ffi and "ffi" in segs[:-1] or \
                (("ffi" not in segs[:-1]) and (en in model.enums.native or en in model.enums.local)):
            found.append((enum_side_and_name(m.group(1), ctx, "dst"), var, m.start()))
    return found


def arm_target(body, model, ctx, label):
    """-> (target key, dst enum or None, extra) ; target keys starting with '@' are delegations"""
    b = strip_parens(strip_block(body))
    if b.startswith("{") and close_of(b, 0) == len(b) - 1:
        return None, None, "arm body is a block of several statements"
    wrap = None
    m = re.fullmatch(r"(Some|Ok|Err)\s*\((.*)\)", b, re.S)
    if m and close_of(b, b.index("(")) == len(b) - 1:
        wrap = m.group(1).lower()
        inner = m.group(2).strip()
        if inner == "()":
            return wrap, ("std", "Result"), None
        b = strip_parens(inner)
    if b == "None":
        return "none", ("std", "Option"), None
    if re.fullmatch(r"%s\s*\.\s*into\s*\(\s*\)" % IDENT, b):
        return "@into", None, None
    if b.startswith("match"):
        return "@match", None, b
    sl = struct_literal(b)
    if sl:
        vps = {(e, v) for e, v, _ in variant_paths(b, model, ctx)}
        if len(vps) == 1:
            (e, v), = vps
            return v, e, ("struct", b)
        return None, None, "struct literal with %d enum paths" % len(vps)
    vps = variant_paths(b, model, ctx)
    distinct = {(e, v) for e, v, _ in vps}
    if len(distinct) == 1:
        (e, v), = distinct
        return v, e, None
    return None, None, "%d enum paths in arm body" % len(distinct)


def struct_literal(e):
    """`Path { fields }` or `Path { fields }.into()` -> (path, fields text) else None"""
    e = e.strip()
    m = re.match(r"((?:%s\s*::\s*)*%s)\s*\{" % (IDENT, IDENT), e)
    if not m or m.group(1) in ("match", "if", "unsafe", "loop", "else"):
        return None
    o = m.end() - 1
    c = close_of(e, o)
    rest = re.sub(r"\s+", "", e[c + 1:])
    if rest not in ("", ".into()"):
        return None
    return m.group(1), e[o + 1:c]


def ctor_call(e):
    """`Path::new(args)` -> (type path, [args]) else None"""
    m = re.match(r"((?:%s\s*::\s*)*%s)\s*::\s*new\s*\(" % (IDENT, IDENT), e.strip())
    if not m:
        return None
    e = e.strip()
    o = m.end() - 1
    c = close_of(e, o)
    if e[c + 1:].strip():
        return None
    return m.group(1), [a.strip() for a in split_top(e[o + 1:c]) if a.strip()]


# ------------------------------------------------------------------------------------------------
# accessor chains

def chains_of(expr, ctx, depth=0):
    """every accessor chain rooted at one of ctx.roots (or at a let-bound name, substituted) that
    occurs in `expr`, as lists of normalised segments (the root itself is not a segment, a bare
    root is the chain [root])"""
    out = []
    if depth > 6:
        return out
    for m in re.finditer(r"(?<![\w.:])(%s)\b(?!\s*(::|!|\())" % IDENT, expr):
        name = m.group(1)
        # skip field names of nested literals `name:` (but not `name::`)
        after = expr[m.end():]
        if re.match(r"\s*:(?!:)", after):
            continue
        if name in ctx.roots or (ctx.any_root and name not in ctx.env and name[0].islower()
                                 and name not in ("true", "false", "as", "mut", "ref", "move", "unsafe", "if", "else", "match", "return")):
            segs = [norm(name)] if ctx.any_root else []
            p = m.end()
            while True:
                sm = re.match(r"\s*\.\s*(%s|\d+)" % IDENT, expr[p:])
                if not sm:
                    break
                seg = sm.group(1)
                p += sm.end()
                cm = re.match(r"\s*\(", expr[p:])
                segs.append(norm(seg))
                if cm:
                    o = p + cm.end() - 1
                    c = close_of(expr, o)
                    if expr[o + 1:c].strip():
                        break          # a call with arguments ends the chain
                    p = c + 1
            out.append(segs if segs else [norm(name)])
        elif name in ctx.env:
            out += chains_of(ctx.env[name], ctx, depth + 1)
    uniq = []
    for c in out:
        if c not in uniq:
            uniq.append(c)
    return uniq


# ------------------------------------------------------------------------------------------------
# building tables

def add_enum_table(model, ctx, scrut, arms, name=None):
    """classify one match; returns 'table', 'control' or raises Unknown"""
    name = name or ctx.unit
    keys = []
    for pat, body in arms:
        ks = pattern_keys(pat, ctx)
        keys.append(ks)
    flat = [k for ks in keys for k in ks]
    kinds = {k[0] for k in flat}
    if kinds & {"guard", "unknown"}:
        raise Unknown("pattern not understood: %r" % [k[2] for k in flat if k[0] in ("guard", "unknown")][:2])
    if "variant" not in kinds and not ({"std"} & kinds and any(k[1] == ("std", "bool") for k in flat if k[0] == "std")):
        if "tuple" in kinds:
            return add_dispatch_table(model, ctx, scrut, arms, name)
        # Option / Result / literal patterns only.  A conversion nevertheless when the arms yield
        # enum variants (quality of an optional time): decided by the bodies.
        tg = [arm_target(b, model, ctx, name) for _, b in arms]
        if not ctx.conv or not any(t[1] and t[1][0] != "std" for t in tg):
            model.control_flow += 1
            return "control"
    if "tuple" in kinds:
        return add_dispatch_table(model, ctx, scrut, arms, name)
    src_enum = None
    std_src = None
    rows = []
    wild = False
    for (pat, body), ks in zip(arms, keys):
        tgt, den, extra = arm_target(body, model, ctx, name)
        if tgt is None:
            raise Unknown("arm `%s`: %s" % (pat[:50], extra))
        for k in ks:
            if k[0] == "wild":
                wild = True
                sv = "_"
            elif k[0] == "std":
                std_src = k[1][1]
                sv = k[2]
            elif k[0] == "literal":
                raise Unknown("literal pattern %r next to enum variants" % k[2])
            else:
                if src_enum and k[1] and k[1] != src_enum:
                    raise Unknown("patterns of two enums: %s and %s" % (src_enum, k[1]))
                src_enum = k[1] or src_enum
                sv = k[2]
                if len(k) > 3:
                    std_src = "Option" if k[3] == "some" else "Result"
            rows.append((sv, tgt, den, pat, body, extra))
    dst_enum = None
    std_dst = None
    for sv, tgt, den, pat, body, extra in rows:
        if den is None:
            continue
        if den[0] == "std":
            std_dst = den[1]
            continue
        if dst_enum and den != dst_enum:
            raise Unknown("arms yield variants of two enums: %s and %s" % (dst_enum, den))
        dst_enum = den
    # `Some(X::V)` / `Err(X::V)` wrappers on the target side
    for sv, tgt, den, pat, body, extra in rows:
        b = strip_parens(strip_block(body))
        if re.match(r"Some\s*\(", b): std_dst = std_dst or "Option"
        if re.match(r"(Ok|Err)\s*\(", b): std_dst = std_dst or "Result"
    if dst_enum is None and std_dst is None and not all(r[1].startswith("@") for r in rows):
        raise Unknown("no target enum recognised")

    def vlist(en, std, used):
        vs = []
        if std == "Option": vs.append("none")
        if std == "Result": vs.append("ok")
        if std == "bool": vs += ["true", "false"]
        if en:
            got = model.enums.variants(en[0], en[1], used)
            if got is None:
                raise Unknown("enum %s::%s not found" % en)
            vs += [norm(v) for v in got]
        return vs

    src_used = [r[0] for r in rows if r[0] not in ("_", "none", "some", "ok", "err", "true", "false")]
    dst_used = [r[1] for r in rows if r[2] and r[2][0] != "std" and not r[1].startswith("@")]
    src_vs = vlist(src_enum, std_src, src_used)
    for extra_v in ("some", "err"):       # `Some(x)` / `Err(e)` with an opaque payload
        if any(r[0] == extra_v for r in rows) and extra_v not in src_vs:
            src_vs.insert(1 if src_vs else 0, extra_v)
    dst_vs = vlist(dst_enum, std_dst, dst_used)
    tname = model.uniq(name)
    t = {"name": tname, "file": ctx.file, "line": ctx.line, "kind": "match",
         "src_enum": ("%s::%s" % src_enum if src_enum else (std_src or "?")),
         "dst_enum": ("%s::%s" % dst_enum if dst_enum else (std_dst or "?")),
         "arms": [(norm(r[0]) if r[0] != "_" else "_", r[1] if r[1].startswith("@") else norm(r[1])) for r in rows],
         "wild": wild, "src": src_vs, "dst": dst_vs, "scrutinee": re.sub(r"\s+", "", scrut)}
    model.enum_tables.append(t)
    # nested conversions inside the arms
    for sv, tgt, den, pat, body, extra in rows:
        if tgt == "@match":
            pm = parse_match(extra)
            sub = ctx.sub("/" + norm(sv), roots=pattern_bindings(pat))
            add_enum_table(model, sub, pm[0], pm[1])
        elif isinstance(extra, tuple) and extra[0] == "struct":
            binds = pattern_bindings(pat)
            sub = ctx.sub("@" + norm(sv), roots=binds)
            # a binding of a tuple variant is reported as [variant, binding]
            add_struct_table(model, sub, extra[1], variant_prefix=norm(sv) if re.search(r"\(", pat) else None,
                             discriminant=(den, tgt))
    return "table"


def add_dispatch_table(model, ctx, scrut, arms, name):
    """match over a tuple: for every enum that occurs (by name) both in the pattern and in the body
    of an arm, the pair (pattern variant, body variant)"""
    rows = []
    for pat, body in arms:
        pv = variant_paths(pat, model, ctx)
        bv = variant_paths(body, model, ctx)
        for pe, pvar, _ in pv:
            for be, bvar, _ in bv:
                if pe and be and pe[1] == be[1] and pe[0] != be[0]:
                    rows.append((pe, pvar, be, bvar))
    if not rows:
        raise Unknown("tuple match without a like-named enum on both sides")
    by = {}
    for pe, pvar, be, bvar in rows:
        by.setdefault((pe, be), []).append((pvar, bvar))
    for (pe, be), prs in by.items():
        tname = model.uniq(name + "<" + pe[1] + ">")
        sv = model.enums.variants(pe[0], pe[1], [p for p, _ in prs])
        dv = model.enums.variants(be[0], be[1], [b for _, b in prs])
        if sv is None or dv is None:
            raise Unknown("enum %s not found" % pe[1])
        seen = []
        for p, b in prs:
            if (norm(p), norm(b)) not in seen:
                seen.append((norm(p), norm(b)))
        # variants of the source that never reach the binding enum (handled by another callback)
        covered = {p for p, _ in seen}
        seen += [(norm(v), "@dispatch") for v in sv if norm(v) not in covered]
        model.enum_tables.append({"name": tname, "file": ctx.file, "line": ctx.line, "kind": "dispatch",
                                  "src_enum": "%s::%s" % pe, "dst_enum": "%s::%s" % be, "arms": seen,
                                  "wild": False,
                                  "src": [norm(v) for v in sv], "dst": [norm(v) for v in dv],
                                  "scrutinee": re.sub(r"\s+", "", scrut)})
    return "table"


# ------------------------------------------------------------------------------------------------
# wrappers of configuration conversions: WHAT is done to the accessor on its way into the field
# (closed vocabulary: the text of the field expression with the accessor abstracted to `$`)

WRAPPERS = {
    "$": "id",
    "Some($)": "some",
    "Some($ as usize)": "some-usize",
    "$ as usize": "usize",
    "$.into()": "into",
    "$.clone().into()": "into",
    "EndpointAddress::try_new($)?": "endpoint-address",
    "BufferSize::new($ as usize)?": "buffer-size",
    "Timeout::from_duration($)?": "timeout",
    "Timeout::from_duration(Duration::from_millis($))?": "timeout",
    "Timeout::from_millis($)?": "timeout",
    "if$==Duration::default(){None}else{Some($)}": "zero-none",
    "if$==Duration::from_secs(0){None}else{Some($)}": "zero-none",
    "convert_event_classes($)": "fn:convert_event_classes",
    "convert_classes($)": "fn:convert_classes",
    "convert_auto_time_sync(&$)": "fn:convert_auto_time_sync",
    "to_feature($)": "fn:to_feature",
    "RetryStrategy::new($.min_delay(),$.max_delay())": "ctor:RetryStrategy",
    "CStr::from_ptr($).to_str()?.parse()?": "parse-str",
}
WRAPPER_VOCABULARY = sorted(set(WRAPPERS.values()) | {"match"})


def wrapper_of(e, ctx):
    """-> (wrapper token or `unknown:<text>`, [accessors], abstract text).  A field written as a bare
    let-bound name stands for the expression bound to it; the first accessor applied to a root
    (`config.x()` / `config.x`) is the accessor, whatever follows it belongs to the wrapper"""
    e = strip_parens(e)
    for _ in range(4):
        if re.fullmatch(IDENT, e) and e in ctx.env and e not in ctx.roots:
            e = strip_parens(ctx.env[e])
    accs = []

    def repl(m):
        accs.append(norm(m.group(2)))
        return "$"
    if ctx.roots:
        e = re.sub(r"(?<![\w.:$])(%s)\s*\.\s*(%s)\b(\s*\(\s*\))?" % ("|".join(re.escape(r) for r in ctx.roots), IDENT), repl, e)
    text = re.sub(r"\s+", " ", e).strip()
    text = re.sub(r"\s*([^\w\s$])\s*", r"\1", text)       # no blank next to punctuation
    text = re.sub(r"\s*\$\s*(?![\w])", "$", text)
    text = re.sub(r"\$(as\b)", r"$ \1", text)
    text = re.sub(r",([)}])", r"\1", text)                   # rustfmt's trailing commas
    if text.startswith("match$") and text.endswith("}"):
        return "match", _uniq(accs), text                    # the arms are an enum table of their own
    return WRAPPERS.get(text, "unknown:" + text), _uniq(accs), text


def _uniq(xs):
    out = []
    for a in xs:
        if a not in out:
            out.append(a)
    return out


class Unknown(Exception):
    pass


def add_struct_table(model, ctx, literal, variant_prefix=None, fields=None, ctor=None, discriminant=None):
    """literal: text `Path { f: e, .. }[.into()]`; or explicit (field, expr) list for constructors"""
    if fields is None:
        path, body = struct_literal(literal)
        fields = []
        for part in split_top(body):
            part = part.strip()
            if not part:
                continue
            if part.startswith(".."):
                raise Unknown("struct update syntax `%s`" % part[:40])
            m = re.match(r"(%s)\s*:(?!:)\s*(.*)$" % IDENT, part, re.S)
            if m:
                fields.append((m.group(1), m.group(2).strip()))
            elif re.fullmatch(IDENT, part):
                fields.append((part, part))
            else:
                raise Unknown("struct field not understood: %r" % part[:60])
    else:
        path = ctor
    tname = model.uniq(ctx.unit)
    rows = []
    t = {"name": tname, "file": ctx.file, "line": ctx.line, "target": re.sub(r"\s+", "", path), "fields": rows}
    model.struct_tables.append(t)
    for f, e in fields:
        e0 = strip_parens(e)
        if discriminant:
            vp = variant_paths(e0, model, ctx)
            if len(vp) == 1 and (vp[0][0], vp[0][1]) == discriminant and re.fullmatch(r"(?:%s\s*::\s*)+%s" % (IDENT, IDENT), e0):
                continue       # the variant tag of this arm: it is the arm's target in the enum table
        pm = parse_match(e0) if e0.startswith("match") else None
        sl = struct_literal(e0)
        chains = None
        if pm and not pm[2]:
            sub = ctx.sub("#" + f)
            try:
                kind = add_enum_table(model, sub, pm[0], pm[1])
            except Unknown as u:
                raise Unknown("field %s: %s" % (f, u))
            chains = chains_of(pm[0], ctx)
            if kind == "control":
                chains = chains_of(e0, ctx)
        elif sl and sl[0] not in ("Some", "Ok"):
            sub = ctx.sub("." + f)
            add_struct_table(model, sub, e0)
            chains = chains_of(e0, ctx)
        else:
            # a let-bound name whose value is a match: the table hangs off the name
            if re.fullmatch(IDENT, e0) and e0 in ctx.env:
                b = strip_parens(ctx.env[e0])
                pm2 = parse_match(b) if b.startswith("match") else None
                if pm2 and not pm2[2]:
                    sub = ctx.sub("#" + f)
                    add_enum_table(model, sub, pm2[0], pm2[1])
            chains = chains_of(e0, ctx)
        if variant_prefix:
            chains = [[variant_prefix] + c if len(c) == 1 and c[0] in [norm(r) for r in ctx.roots] else c for c in chains]
        const = None
        if not chains:
            const = re.sub(r"\s+", "", e0)
        w, accs, wtext = wrapper_of(e, ctx)
        rows.append({"field": norm(f), "raw": f, "chains": chains, "const": const,
                     "wrapper": w, "accessors": accs, "wrapper_text": wtext})
    return t


def process_body(model, ctx, body, key, text_for_sha):
    """classify the body of one conversion unit; unknown shapes go to the skip list or fail"""
    snap = model.snapshot()
    try:
        classify_body(model, ctx, body)
    except (Unknown, ValueError) as u:
        model.rollback(snap)
        if not model.try_skip(key, text_for_sha, ctx.where()):
            model.problems.append("%s: %s: shape not understood (%s); teach gen_ffi.py or list it in ffi_skipped.json as\n"
                                  "    %s: {\"sha\": \"%s\", \"why\": \"...\"}" % (ctx.where(), key, u, json.dumps(key), sha(text_for_sha)))
        return False
    if key in model.skipped:
        model.problems.append("%s: %r is on the skip list but is understood by the translator: remove it" % (ctx.where(), key))
    return True


def split_statements(body):
    """top-level statements of a block body; nested fn items removed and returned separately"""
    nested = []
    while True:
        m = re.search(r"\bfn\s+(%s)\s*\(" % IDENT, body)
        if not m:
            break
        po = m.end() - 1
        pc = close_of(body, po)
        bo = body.index("{", pc)
        bc = close_of(body, bo)
        nested.append((m.group(1), body[po + 1:pc], body[pc + 1:bo], body[bo + 1:bc]))
        body = body[:m.start()] + body[bc + 1:]
    stmts = [s.strip() for s in split_top(body, ";")]
    return stmts, nested


def classify_body(model, ctx, body):
    stmts, nested = split_statements(body)
    for nname, nparams, nret, nbody in nested:
        roots = [re.match(r"\s*(?:mut\s+)?(\w+)", p).group(1) for p in split_top(nparams) if p.strip()]
        sub = Ctx(ctx.file, ctx.unit + "::fn " + nname, ctx.line, roots)
        classify_body(model, sub, nbody)
    final = stmts[-1]
    for s in stmts[:-1]:
        if not s:
            continue
        m = re.match(r"let\s+(?:mut\s+)?(%s)\s*(?::[^=]+)?=(?!=)\s*(.*)$" % IDENT, s, re.S)
        if m:
            ctx.env[m.group(1)] = m.group(2).strip()
            continue
        m = re.match(r"let\s+\(([^)]*)\)\s*=(?!=)\s*(.*)$", s, re.S)
        if m:
            for n in m.group(1).split(","):
                ctx.env[n.strip()] = m.group(2).strip()
            continue
        if re.match(r"use\s", s) or re.match(r"tracing\s*::\s*(error|warn|info|debug|trace)\s*!", s):
            continue
        raise Unknown("statement not in the vocabulary: %r" % s[:70])
    if not final:
        raise Unknown("body ends with a statement, not an expression")
    classify_expr(model, ctx, final)


def classify_expr(model, ctx, e):
    e = strip_parens(e)
    m = re.fullmatch(r"(Ok|Some)\s*\((.*)\)", e, re.S)
    if m and close_of(e, e.index("(")) == len(e) - 1:
        e = strip_parens(m.group(2))
    if e.startswith("match"):
        pm = parse_match(e)
        if pm is None or pm[2]:
            raise Unknown("match followed by %r" % (pm[2][:30] if pm else "?"))
        kind = add_enum_table(model, ctx, pm[0], pm[1])
        if kind == "control":
            raise Unknown("match over Option/Result/literals that yields no enum variant")
        return
    sl = struct_literal(e)
    if sl:
        add_struct_table(model, ctx, e)
        return
    cc = ctor_call(e)
    if cc:
        tname = re.sub(r"\s+", "", cc[0]).split("::")[-1]
        if tname == "Self":
            tname = norm_type(ctx.self_type or ctx.dst_type or "").split("::")[-1]
        sigs = [s for s in model.enums.ctors.get(tname, []) if len(s) == len(cc[1])]
        if len(sigs) != 1:
            raise Unknown("constructor %s::new with %d arguments: %d matching signatures in dnp3/src" % (tname, len(cc[1]), len(sigs)))
        add_struct_table(model, ctx, None, fields=list(zip(sigs[0], cc[1])), ctor=tname + "::new")
        return
    # a constant: a single variant, whatever the input
    e = re.sub(r"\s*\.\s*into\s*\(\s*\)\s*$", "", e)
    vps = variant_paths(e, model, ctx)
    if len(vps) == 1 and re.fullmatch(r"(?:%s\s*::\s*)+%s" % (IDENT, IDENT), e):
        en, var, _ = vps[0]
        got = model.enums.variants(en[0], en[1], [var])
        if got is None:
            raise Unknown("enum %s::%s not found" % en)
        model.enum_tables.append({"name": model.uniq(ctx.unit), "file": ctx.file, "line": ctx.line, "kind": "const",
                                  "src_enum": norm_type(ctx.src_type or "?"), "dst_enum": "%s::%s" % en,
                                  "arms": [("_", norm(var))], "wild": True, "src": [], "dst": [norm(v) for v in got],
                                  "scrutinee": "-"})
        return
    raise Unknown("expression is neither a match, a struct literal, a `T::new(..)` call nor a variant: %r" % e[:70])


# ------------------------------------------------------------------------------------------------
# walking the binding crate

def expand_macros(text):
    """-> (text with macro definitions and their invocations blanked, [(tag, expansion, pos)])"""
    macros = {}
    units = []
    out = text
    for m in re.finditer(r"macro_rules!\s*(%s)\s*\{" % IDENT, text):
        o = m.end() - 1
        c = close_of(text, o)
        body = text[o + 1:c]
        rules = [r for r in split_top(body, ";") if r.strip()]
        if len(rules) != 1:
            die("macro %s has %d rules; only single-rule macros are expanded" % (m.group(1), len(rules)))
        r = rules[0].strip()
        po = r.index("(")
        pc = close_of(r, po)
        params = re.findall(r"\$(%s)\s*:\s*(\w+)" % IDENT, r[po + 1:pc])
        rest = r[pc + 1:].strip()
        if not rest.startswith("=>"):
            die("macro %s: rule without =>" % m.group(1))
        bo = rest.index("{")
        bc = close_of(rest, bo)
        macros[m.group(1)] = (params, rest[bo + 1:bc])
        out = out[:m.start()] + re.sub(r"[^\n]", " ", text[m.start():c + 1]) + out[c + 1:]
    for name, (params, body) in macros.items():
        for m in re.finditer(r"(?<![\w!])%s!\s*\(" % re.escape(name), out):
            o = m.end() - 1
            c = close_of(out, o)
            args = [a.strip() for a in split_top(out[o + 1:c]) if a.strip()]
            if len(args) != len(params):
                die("macro %s invoked with %d arguments, declared with %d" % (name, len(args), len(params)))
            exp = body
            for (pn, _), a in sorted(zip(params, args), key=lambda x: -len(x[0][0])):
                exp = re.sub(r"\$%s\b" % re.escape(pn), a.replace("\\", "\\\\"), exp)
            units.append(("%s!(%s)" % (name, args[0] if len(args) == 1 else ",".join(args[:1]) + ",.."), exp, m.start()))
            out = out[:m.start()] + re.sub(r"[^\n]", " ", out[m.start():c + 1]) + out[c + 1:]
    return out, units


def impl_header_types(header):
    """`impl<'a> From<A> for B` -> (trait, A, B)"""
    m = re.search(r"\b(Try)?From\s*<", header)
    if not m:
        return None
    i = m.end()
    depth, j = 1, i
    while j < len(header) and depth:
        if header[j] == "<": depth += 1
        elif header[j] == ">" and header[j - 1] != "-": depth -= 1
        j += 1
    a = header[i:j - 1]
    fm = re.match(r"\s*for\s+(.*)$", header[j:], re.S)
    if not fm:
        return None
    return ("TryFrom" if m.group(1) else "From"), a.strip(), fm.group(1).strip()


def walk_unit(model, rel, text, base_line, tag):
    """one file (macros blanked) or one macro expansion"""
    covered = []   # spans already handled as U1-U3
    impl_spans = []
    # U1 / U2: impl blocks
    for m in re.finditer(r"\bimpl\b([^{;]*)\{", text):
        header = m.group(1)
        o = m.end() - 1
        c = close_of(text, o)
        line = base_line if tag else line_of(text, m.start())
        types = impl_header_types(header)
        block = text[o + 1:c]
        hm = re.search(r"(?:\bfor\s+)?((?:%s\s*::\s*)*%s)\s*(?:<[^>]*>)?\s*$" % (IDENT, IDENT), header.strip())
        impl_spans.append((m.start(), c, hm.group(1) if hm else None))
        if types:
            trait, a, b = types
            unit = "%s::%s%s<%s> for %s" % (rel, (tag + "::") if tag else "", trait, norm_type(a), norm_type(b))
            fm = re.search(r"\bfn\s+(try_from|from)\s*\(", block)
            if not fm:
                die("%s:%d: %s without fn from" % (rel, line, unit))
            po = o + 1 + fm.end() - 1
            pc = close_of(text, po)
            bo = text.index("{", pc)
            bc = close_of(text, bo)
            pm = re.match(r"\s*(?:mut\s+)?(\w+)\s*:", text[po + 1:pc])
            root = pm.group(1)
            ctx = Ctx(rel, unit, line if tag else line_of(text, m.start()), [root] if root != "_" else [], a, b, b)
            process_body(model, ctx, text[bo + 1:bc], unit, text[m.start():c + 1])
            covered.append((m.start(), c))
        elif re.match(r"\s*(<[^>]*>)?\s*(crate\s*::\s*)?ffi\s*::\s*\w+(\s*<[^>]*>)?\s*$", header):
            tname = norm_type(re.sub(r"^\s*<[^>]*>", "", header))
            for fm in re.finditer(r"\bfn\s+(%s)\s*\(" % IDENT, block):
                po = o + 1 + fm.end() - 1
                pc = close_of(text, po)
                bo = text.index("{", pc)
                bc = close_of(text, bo)
                roots = []
                for prm in split_top(text[po + 1:pc]):
                    pm = re.match(r"\s*(?:mut\s+)?(\w+)\s*:", prm)
                    if pm:
                        roots.append(pm.group(1))
                unit = "%s::%simpl %s::fn %s" % (rel, (tag + "::") if tag else "", tname, fm.group(1))
                ctx = Ctx(rel, unit, line if tag else line_of(text, o + 1 + fm.start()), roots, None, tname, tname)
                process_body(model, ctx, text[bo + 1:bc], unit, text[o + 1 + fm.start():bc + 1])
            covered.append((m.start(), c))
    # U3: free conversion fns
    for fm in re.finditer(r"\bfn\s+(convert_\w+)\s*\(", text):
        if any(s <= fm.start() <= e for s, e in covered):
            continue
        po = fm.end() - 1
        pc = close_of(text, po)
        bo = text.index("{", pc)
        bc = close_of(text, bo)
        roots = []
        for prm in split_top(text[po + 1:pc]):
            pm = re.match(r"\s*(?:mut\s+)?(\w+)\s*:", prm)
            if pm:
                roots.append(pm.group(1))
        ret = re.search(r"->\s*(.*)$", text[pc + 1:bo], re.S)
        unit = "%s::%sfn %s" % (rel, (tag + "::") if tag else "", fm.group(1))
        ctx = Ctx(rel, unit, base_line if tag else line_of(text, fm.start()), roots, None, ret.group(1).strip() if ret else None)
        process_body(model, ctx, text[bo + 1:bc], unit, text[fm.start():bc + 1])
        covered.append((fm.start(), bc))
    # U5: struct literals of binding types written inline in other functions
    for lm in re.finditer(r"(?<![\w:])(?:crate\s*::\s*)?ffi\s*::\s*(%s)\s*\{" % IDENT, text):
        if any(s_ <= lm.start() <= e_ for s_, e_ in covered):
            continue
        before = text[:lm.start()].rstrip()
        if before.endswith("->") or re.search(r"\b(for|impl|match|in)$", before) or before.endswith("&"):
            continue
        o = lm.end() - 1
        c = close_of(text, o)
        after = re.match(r"\s*=>", text[c + 1:])
        if after:
            continue           # a struct pattern of a match arm
        end = c + 1
        im = re.match(r"\s*\.\s*into\s*\(\s*\)", text[end:])
        if im:
            end += im.end()
        lit = text[lm.start():end]
        enclosing = None
        for fm in re.finditer(r"\bfn\s+(%s)\b" % IDENT, text[:lm.start()]):
            enclosing = fm.group(1)
        k = 1 + sum(1 for n in model.names if n.startswith("%s::%sfn %s::literal ffi::%s" % (rel, (tag + "::") if tag else "", enclosing, lm.group(1))))
        unit = "%s::%sfn %s::literal ffi::%s#%d" % (rel, (tag + "::") if tag else "", enclosing, lm.group(1), k)
        ctx = Ctx(rel, unit, base_line if tag else line_of(text, lm.start()), [])
        ctx.any_root = True
        snap = model.snapshot()
        try:
            add_struct_table(model, ctx, lit)
            if unit in model.skipped:
                model.problems.append("%s: %r is on the skip list but is understood by the translator: remove it" % (ctx.where(), unit))
        except (Unknown, ValueError) as u:
            model.rollback(snap)
            if not model.try_skip(unit, lit, ctx.where()):
                model.problems.append("%s: %s: struct literal not understood (%s); teach gen_ffi.py or list it in ffi_skipped.json as\n"
                                      "    %s: {\"sha\": \"%s\", \"why\": \"...\"}" % (ctx.where(), unit, u, json.dumps(unit), sha(lit)))
        covered.append((lm.start(), end))
    # U4: every other match
    fn_spans = []
    for fm in re.finditer(r"\bfn\s+(%s)\s*(?:<[^>(]*>)?\s*\(" % IDENT, text):
        po = fm.end() - 1
        try:
            pc = close_of(text, po)
            semi = re.match(r"[^{;]*;", text[pc + 1:])
            if semi:
                continue
            bo = text.index("{", pc)
            bc = close_of(text, bo)
        except ValueError:
            continue
        fn_spans.append((fm.start(), bc, fm.group(1)))
    counters = {}
    pos = 0
    for mm in re.finditer(r"\bmatch\b", text):
        if any(s <= mm.start() <= e for s, e in covered):
            continue
        if mm.start() < pos:
            continue      # nested in a match already handled
        enclosing = [f for f in fn_spans if f[0] <= mm.start() <= f[1]]
        fname = enclosing[-1][2] if enclosing else "?"
        try:
            pm = parse_match(text[mm.start():])
        except ValueError as u:
            die("%s:%d: cannot parse match: %s" % (rel, line_of(text, mm.start()), u))
        if pm is None:
            continue
        bc = mm.start() + pm[3]
        mtext = text[mm.start():bc + 1]
        k = counters.get(fname, 0) + 1
        counters[fname] = k
        unit = "%s::%sfn %s::match#%d" % (rel, (tag + "::") if tag else "", fname, k)
        st = [sp for sp in impl_spans if sp[0] <= mm.start() <= sp[1]]
        stype = st[-1][2] if st else None
        ctx = Ctx(rel, unit, base_line if tag else line_of(text, mm.start()), [], stype, stype, stype)
        ctx.conv = False
        snap = model.snapshot()
        try:
            kind = add_enum_table(model, ctx, pm[0], pm[1])
            if unit in model.skipped:
                model.problems.append("%s: %r is on the skip list but is understood by the translator: remove it" % (ctx.where(), unit))
            if kind == "table":
                pos = bc
        except (Unknown, ValueError) as u:
            model.rollback(snap)
            pos = bc
            if not model.try_skip(unit, mtext, ctx.where()):
                model.problems.append("%s: %s: match not understood (%s); teach gen_ffi.py or list it in ffi_skipped.json as\n"
                                      "    %s: {\"sha\": \"%s\", \"why\": \"...\"}" % (ctx.where(), unit, u, json.dumps(unit), sha(mtext)))


# ------------------------------------------------------------------------------------------------
# pins: fallbacks, aliases, constants

def glob_match(pattern, name):
    return re.fullmatch(re.escape(pattern).replace(r"\*", ".*"), name) is not None


def attach_pins(model):
    fb = model.fb
    used_sections = set()
    for t in model.enum_tables:
        pins = {}
        for key, ent in fb.get("enum_fallbacks", {}).items():
            if glob_match(key, t["name"]):
                used_sections.add(("enum_fallbacks", key))
                for k, v in ent.items():
                    if k == "why":
                        continue
                    pins[k if k == "_" else norm(k)] = v["target"] if v["target"].startswith("@") else norm(v["target"])
        t["pinned"] = sorted(pins.items())
    for t in model.struct_tables:
        al, cs = [], []
        for key, ent in fb.get("field_aliases", {}).items():
            if key == "*" or glob_match(key, t["name"]):
                used_sections.add(("field_aliases", key))
                for f, v in ent.items():
                    if f == "why":
                        continue
                    for acc in (v["accessor"] if isinstance(v["accessor"], list) else [v["accessor"]]):
                        al.append((norm(f), norm(acc)))
        for key, ent in fb.get("constant_fields", {}).items():
            if glob_match(key, t["name"]):
                used_sections.add(("constant_fields", key))
                for f, v in ent.items():
                    if f == "why":
                        continue
                    cs.append((norm(f), re.sub(r"\s+", "", v["value"])))
        t["aliases"] = sorted(set(al))
        t["consts"] = sorted(set(cs))
    for sec in ("enum_fallbacks", "field_aliases", "constant_fields"):
        for key in fb.get(sec, {}):
            if key != "*" and (sec, key) not in used_sections:
                model.problems.append("ffi_fallbacks.json: %s[%r] matches no table (stale pin)" % (sec, key))
    edevs, fdevs = [], []
    for d in fb.get("known_deviations", []):
        if d.get("kind") == "enum":
            if not any(t["name"] == d["table"] and norm(d["variant"]) in dict(t["arms"]) for t in model.enum_tables):
                model.problems.append("ffi_fallbacks.json: known deviation %s / %s matches no arm (stale: remove it)" % (d["table"], d["variant"]))
            edevs.append((d["table"], norm(d["variant"])))
        elif d.get("kind") == "field":
            if not any(t["name"] == d["table"] and any(r["field"] == norm(d["field"]) for r in t["fields"]) for t in model.struct_tables):
                model.problems.append("ffi_fallbacks.json: known deviation %s / %s matches no field (stale: remove it)" % (d["table"], d["field"]))
            fdevs.append((d["table"], norm(d["field"])))
        else:
            model.problems.append("ffi_fallbacks.json: known deviation without kind enum|field")
    # configuration conversions: (native field, binding accessor, wrapper) rows + the reviewed wrappers
    model.config_tables = []
    for name, ent in fb.get("config_wrappers", {}).items():
        t = next((t for t in model.struct_tables if t["name"] == name), None)
        if t is None:
            model.problems.append("ffi_fallbacks.json: config_wrappers[%r] matches no struct table (stale pin)" % name)
            continue
        for v in ent.values():
            if v not in WRAPPER_VOCABULARY and ent.get("why") != v:
                model.problems.append("ffi_fallbacks.json: config_wrappers[%r]: %r is not in the wrapper vocabulary" % (name, v))
        rows = [(r["field"], "+".join(r["accessors"]), r["wrapper"]) for r in t["fields"]]
        model.config_tables.append({"name": name, "file": t["file"], "line": t["line"], "rows": rows,
                                    "texts": [(r["field"], r["wrapper_text"]) for r in t["fields"]],
                                    "aliases": t["aliases"],
                                    "pinned": sorted((norm(f), w) for f, w in ent.items() if f != "why")})
    return edevs, fdevs


# ------------------------------------------------------------------------------------------------
# output

def cs(s):
    return '"' + s.replace('"', "'") + '"'


def clist(xs, f=cs, per=6):
    if not xs:
        return "[]"
    items = [f(x) for x in xs]
    return "[" + "; ".join(items) + "]"


def cpair(p):
    return "(%s, %s)" % (cs(p[0]), cs(p[1]))


def emit(model, devs, out_dir, src_info):
    L = []
    L.append("(* GENERATED by tools/gen/gen_ffi.py from ffi/dnp3-ffi/src/**/*.rs, the oo-bindgen output of the")
    L.append("   dnp3-ffi build script, the enum definitions of dnp3/src and tools/gen/ffi_fallbacks.json - do not edit *)")
    L.append("From Coq Require Import String List Bool.")
    L.append("From Dnp3V Require Import Ffi.FfiModel.")
    L.append("Import ListNotations.")
    L.append("Open Scope string_scope.")
    L.append("")
    names = []
    for i, t in enumerate(model.enum_tables):
        n = "et_%d" % i
        names.append(n)
        L.append("(* %s:%d  %s -> %s  [%s] *)" % (t["file"], t["line"], t["src_enum"], t["dst_enum"], t["kind"]))
        L.append("Definition %s : enum_table := mk_enum_table" % n)
        L.append("  %s" % cs(t["name"]))
        L.append("  %s" % clist(t["arms"], cpair))
        L.append("  %s" % ("true" if t["wild"] else "false"))
        L.append("  %s" % clist(t["src"]))
        L.append("  %s" % clist(t["dst"]))
        L.append("  %s." % clist(t["pinned"], cpair))
    L.append("")
    L.append("Definition ffi_enum_tables : list enum_table := [%s]." % "; ".join(names))
    L.append("")
    snames = []
    for i, t in enumerate(model.struct_tables):
        n = "st_%d" % i
        snames.append(n)
        L.append("(* %s:%d  -> %s *)" % (t["file"], t["line"], t["target"]))
        L.append("Definition %s : struct_table := mk_struct_table" % n)
        L.append("  %s" % cs(t["name"]))
        fl = []
        for r in t["fields"]:
            fl.append("(%s, %s, %s)" % (cs(r["field"]), clist(r["chains"], lambda c: clist(c)), cs(r["const"] or "")))
        L.append("  [%s]" % ";\n   ".join(fl))
        L.append("  %s" % clist(t["aliases"], cpair))
        L.append("  %s." % clist(t["consts"], cpair))
    L.append("")
    L.append("Definition ffi_struct_tables : list struct_table := [%s]." % "; ".join(snames))
    L.append("")
    L.append("(* genuine deviations of the unchanged tree, listed in ffi_fallbacks.json (each is ALSO reported")
    L.append("   by the check as a violation unless known_findings.json carries it) *)")
    L.append("Definition ffi_known_enum_deviations : list (string * string) := %s." % clist(devs[0], cpair))
    L.append("Definition ffi_known_field_deviations : list (string * string) := %s." % clist(devs[1], cpair))
    L.append("")
    L.append("(* the tables whose match has a catch-all arm (or ignores its input), by name *)")
    L.append("Definition ffi_wildcard_tables : list string := %s." % clist([t["name"] for t in model.enum_tables if t["wild"]]))
    L.append("")
    cnames = []
    for i, t in enumerate(model.config_tables):
        n = "ct_%d" % i
        cnames.append(n)
        L.append("(* %s:%d  configuration conversion: (native field, binding accessor, wrapper) *)" % (t["file"], t["line"]))
        L.append("Definition %s : config_table := mk_config_table" % n)
        L.append("  %s" % cs(t["name"]))
        L.append("  [%s]" % ";\n   ".join("(%s, %s, %s)" % (cs(r[0]), cs(r[1]), cs(r[2])) for r in t["rows"]))
        L.append("  %s" % clist(t["aliases"], cpair))
        L.append("  %s." % clist(t["pinned"], cpair))
    L.append("")
    L.append("Definition ffi_config_tables : list config_table := [%s]." % "; ".join(cnames))
    L.append("")
    inv = inverse_pairs(model)
    L.append("(* pairs of tables that convert in opposite directions between the same two enums *)")
    L.append("Definition ffi_inverse_pairs : list (string * string) := %s." % clist(inv, cpair))
    L.append("")
    os.makedirs(out_dir, exist_ok=True)
    with open(os.path.join(out_dir, "FfiTables.v"), "w") as f:
        f.write("\n".join(L) + "\n")
    with open(os.path.join(out_dir, "FfiTables.json"), "w") as f:
        json.dump({"enum_tables": model.enum_tables, "struct_tables": model.struct_tables, "config_tables": model.config_tables,
                   "wrapper_vocabulary": WRAPPER_VOCABULARY,
                   "known_enum_deviations": devs[0], "known_field_deviations": devs[1], "inverse_pairs": inv, "control_flow_matches": model.control_flow,
                   "skipped": sorted(model.skip_used), "source": src_info}, f, indent=1, sort_keys=True)
        f.write("\n")


def inverse_pairs(model):
    def key(s):
        s = s.replace("ffi::", "").replace("native::", "").replace("dnp3::", "")
        return norm(re.sub(r"^(Option|Result)<|>$", "", s))
    out = []
    ts = [t for t in model.enum_tables if t["kind"] == "match" and not t["wild"]]
    for a in ts:
        for b in ts:
            if a is b:
                continue
            if a["src_enum"].split("::")[0] == b["src_enum"].split("::")[0]:
                continue     # same side
            if key(a["src_enum"]) != key(b["dst_enum"]) or key(a["dst_enum"]) != key(b["src_enum"]):
                continue
            if set(a["src"]) == set(b["dst"]) and set(a["dst"]) == set(b["src"]) and len(a["src"]) > 0:
                if a["src_enum"].startswith("ffi::") and (a["name"], b["name"]) not in out:
                    out.append((a["name"], b["name"]))
    return out


def main():
    # the copy of the tables read by tools/props/c20.py: removed first, so that a failing translator
    # leaves no stale tables behind (tools/driver.py installs the new file only on success)
    stale = os.path.join(VERIF, ".cache", "gen", "FfiTables.json")
    if os.path.exists(stale):
        os.remove(stale)
    enums, out_dir = load_enums()
    # enums declared by the binding crate itself
    files = []
    for root, _, fs in os.walk(FFI_SRC):
        for f in sorted(fs):
            if f.endswith(".rs"):
                files.append(os.path.join(root, f))
    files.sort()
    if len(files) < 15:
        die("only %d source files under %s" % (len(files), FFI_SRC))
    texts = {}
    for p in files:
        texts[p] = clean(open(p).read())
        for name, vs in Enums.parse_enums(texts[p]):
            enums.local[name] = vs
    try:
        fallbacks = json.load(open(os.path.join(HERE, "ffi_fallbacks.json")))
        skipped = json.load(open(os.path.join(HERE, "ffi_skipped.json")))["skipped"]
    except (OSError, ValueError, KeyError) as e:
        die("cannot read the committed pin files: %s" % e)
    model = Model(enums, fallbacks, skipped)
    for p in files:
        rel = os.path.relpath(p, FFI_SRC)
        body, units = expand_macros(texts[p])
        walk_unit(model, rel, body, 1, None)
        for tag, exp, pos in units:
            walk_unit(model, rel, exp, line_of(texts[p], pos), tag)
    for key in skipped:
        if key not in model.skip_used:
            model.problems.append("ffi_skipped.json: %r no longer exists in the source (stale entry)" % key)
    devs = attach_pins(model)
    if os.environ.get("VERIF_FFI_PROPOSE"):
        propose(model)
    if model.problems:
        die("%d problem(s):\n  " % len(model.problems) + "\n  ".join(model.problems))
    n_arms = sum(len(t["arms"]) for t in model.enum_tables)
    if len(model.enum_tables) < 60 or n_arms < 400 or len(model.struct_tables) < 40:
        die("suspiciously little was extracted: %d enum tables, %d arms, %d struct tables"
            % (len(model.enum_tables), n_arms, len(model.struct_tables)))
    if len(model.config_tables) < 8:
        die("only %d configuration tables: ffi_fallbacks.json config_wrappers lost entries" % len(model.config_tables))
    emit(model, devs, OUT, {"out_dir": os.path.relpath(out_dir, VERIF) if out_dir.startswith(VERIF) else out_dir,
                            "files": len(files)})
    print("gen_ffi: %d enum tables (%d arms), %d struct tables (%d fields), %d configuration tables (%d rows), %d control-flow matches ignored, %d units skipped"
          % (len(model.enum_tables), n_arms, len(model.struct_tables),
             sum(len(t["fields"]) for t in model.struct_tables), len(model.config_tables),
             sum(len(t["rows"]) for t in model.config_tables), model.control_flow, len(model.skip_used)))


def propose(model):
    """development aid: print the pins the current tables would need"""
    for t in model.enum_tables:
        pins = dict(t.get("pinned", []))
        need = {}
        for s, d in t["arms"]:
            if s == "_" or s not in t["dst"] or d != s:
                if s == "_" or s not in t["dst"]:
                    need[s] = d
        if t["wild"]:
            wt = dict(t["arms"]).get("_")
            for v in t["src"]:
                if v not in dict(t["arms"]):
                    need[v] = wt if wt else "?"
        miss = {k: v for k, v in need.items() if pins.get(k) != v}
        if miss:
            print("PIN enum %s (%s:%d): %s" % (json.dumps(t["name"]), t["file"], t["line"], json.dumps(miss)))
        bad = [(s, d) for s, d in t["arms"] if s != "_" and s in t["dst"] and d != s]
        if bad:
            print("MISMAP enum %s (%s:%d): %s" % (t["name"], t["file"], t["line"], bad))
    for t in model.struct_tables:
        al = t.get("aliases", [])
        for r in t["fields"]:
            if not r["chains"]:
                if (r["field"], r["const"]) not in t.get("consts", []):
                    print("CONST struct %s (%s:%d): %s = %s" % (json.dumps(t["name"]), t["file"], t["line"], r["raw"], r["const"]))
                continue
            for c in r["chains"]:
                if r["field"] in c or any((r["field"], s) in al for s in c):
                    continue
                print("ALIAS struct %s (%s:%d): %s <- %s" % (json.dumps(t["name"]), t["file"], t["line"], r["raw"], ".".join(c)))


if __name__ == "__main__":
    main()
