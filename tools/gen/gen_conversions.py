#!/usr/bin/env python3
"""Translator: measurement <-> variation conversion recipes of /repo -> coq/gen/Conversions.v.

Sources read (never written):
  dnp3/src/app/gen/conversion.rs      impl From<GxVy> for T / impl ToVariation<GxVy> for T
  dnp3/src/app/variations.rs          impl FixedSize for GxVy: SIZE, field order and widths (read = write)
  dnp3/src/app/extensions.rs          impl WireFlags for T (value bits folded into bits 7/6)
  dnp3/src/app/measurement.rs         AnalogConversions::to_i16/to_i32/to_f32 (guard lists), From<Option<Time>>
  dnp3/src/app/types.rs               Timestamp::MAX_VALUE, DoubleBit <-> bit pair
  dnp3/src/master/convert.rs          GxV3::to_measurement (relative time), From<bool>/From<DoubleBit>
  dnp3/src/master/extract.rs          the running common time of occurrence
  dnp3/src/outstation/database/details/range/traits.rs   static variations, write kind, promotion
  dnp3/src/outstation/database/details/event/traits.rs   event variations, fixed / cto writer
  dnp3/src/outstation/database/details/event/write_fn.rs write_cto rule, ToVariationCto
  dnp3/src/app/gen/ranged.rs, prefixed.rs                handler dispatch + HeaderInfo

Every expression is mapped into a CLOSED vocabulary; an expression outside it terminates the
translator with a message naming the file and the text (so that a change of the code is reported
instead of silently producing a stale model)."""
import os, re, sys

REPO = os.environ.get("VERIF_REPO", "/repo")
OUT = os.environ.get("VERIF_GEN_OUT") or os.path.join(os.path.dirname(os.path.abspath(__file__)), "..", "..", "coq", "gen")
SRC = "dnp3/src/"


def die(msg):
    sys.exit("gen_conversions: " + msg)


def read(p):
    try:
        return open(os.path.join(REPO, SRC + p)).read()
    except OSError as e:
        die("cannot read %s: %s" % (p, e))


def norm(s):
    """strip // comments and all whitespace"""
    s = re.sub(r"//[^\n]*", "", s)
    return re.sub(r"\s+", "", s)


def block_after(src, start_idx):
    """text between the '{' at/after start_idx and its matching '}'"""
    i = src.index("{", start_idx)
    depth = 0
    for j in range(i, len(src)):
        if src[j] == "{":
            depth += 1
        elif src[j] == "}":
            depth -= 1
            if depth == 0:
                return src[i + 1:j], j + 1
    die("unbalanced braces")


TYPES = {"BinaryInput": "BI", "DoubleBitBinaryInput": "DBI", "BinaryOutputStatus": "BOS", "Counter": "CTR",
         "FrozenCounter": "FCTR", "AnalogInput": "AI", "AnalogOutputStatus": "AOS", "FrozenAnalogInput": "FAI"}
HANDLERS = {"handle_binary_input": "BI", "handle_double_bit_binary_input": "DBI", "handle_binary_output_status": "BOS",
            "handle_counter": "CTR", "handle_frozen_counter": "FCTR", "handle_analog_input": "AI",
            "handle_analog_output_status": "AOS", "handle_frozen_analog_input": "FAI"}


def gv(name):
    m = re.fullmatch(r"Group(\d+)Var(\d+)", name)
    if not m:
        die("not a variation name: " + name)
    return int(m.group(1)), int(m.group(2))


# ------------------------------------------------------------------------------------------------
# variations.rs: layouts

WRITE_CALLS = {"write_u8": "WU8", "write_u16_le": "WU16", "write_u32_le": "WU32", "write_i16_le": "WI16",
               "write_i32_le": "WI32", "write_f32_le": "WF32", "write_f64_le": "WF64"}
READ_CALLS = {"read_u8": "WU8", "read_u16_le": "WU16", "read_u32_le": "WU32", "read_i16_le": "WI16",
              "read_i32_le": "WI32", "read_f32_le": "WF32", "read_f64_le": "WF64"}
WIDTH = {"WU8": 1, "WU16": 2, "WU32": 4, "WI16": 2, "WI32": 4, "WF32": 4, "WF64": 8, "WTime48": 6}
FIELD = {"flags": "FFlags", "value": "FValue", "time": "FTime"}


def layouts(names):
    src = read("app/variations.rs")
    out = {}
    for name in names:
        m = re.search(r"impl FixedSize for %s \{" % name, src)
        if not m:
            die("variations.rs: no impl FixedSize for " + name)
        body, _ = block_after(src, m.start())
        ms = re.search(r"const SIZE: u8 = (\d+);", body)
        if not ms:
            die("variations.rs: no SIZE in " + name)
        size = int(ms.group(1))
        mr = re.search(r"fn read\(", body)
        mw = re.search(r"fn write\(", body)
        if not mr or not mw:
            die("variations.rs: read/write missing in " + name)
        rbody, _ = block_after(body, mr.start())
        wbody, _ = block_after(body, mw.start())
        rfields = []
        rb = norm(rbody)
        mm = re.fullmatch(r"Ok\(%s\{(.*)\}\)" % name, rb)
        if not mm:
            die("variations.rs: unexpected read body in %s: %s" % (name, rb))
        for item in [x for x in mm.group(1).split(",") if x]:
            f, e = item.split(":", 1)
            m1 = re.fullmatch(r"cursor\.(\w+)\(\)\?", e)
            m2 = re.fullmatch(r"Timestamp::new\(cursor\.read_u48_le\(\)\?\)", e)
            if m1 and m1.group(1) in READ_CALLS:
                rfields.append((f, READ_CALLS[m1.group(1)]))
            elif m2:
                rfields.append((f, "WTime48"))
            else:
                die("variations.rs: unknown read expression in %s: %s" % (name, e))
        wfields = []
        for stmt in [x for x in norm(wbody).split(";") if x]:
            if stmt == "Ok(())":
                continue
            m1 = re.fullmatch(r"cursor\.(\w+)\(self\.(\w+)\)\?", stmt)
            m2 = re.fullmatch(r"self\.(\w+)\.write\(cursor\)\?", stmt)
            if m1 and m1.group(1) in WRITE_CALLS:
                wfields.append((m1.group(2), WRITE_CALLS[m1.group(1)]))
            elif m2:
                wfields.append((m2.group(1), "WTime48"))
            else:
                die("variations.rs: unknown write statement in %s: %s" % (name, stmt))
        if rfields != wfields:
            die("variations.rs: read and write disagree in %s: %s vs %s" % (name, rfields, wfields))
        if sum(WIDTH[w] for _, w in wfields) != size:
            die("variations.rs: SIZE of %s is not the sum of its field widths" % name)
        for f, _ in wfields:
            if f not in FIELD:
                die("variations.rs: unknown field %s in %s" % (f, name))
        out[name] = wfields
    return out


# ------------------------------------------------------------------------------------------------
# conversion.rs

FROM_VALUE = {"flags.state()": "FromState", "flags.double_bit_state()": "FromDoubleState", "v.value": "FromValRaw",
              "v.valueasu32": "FromValAsU32", "v.valueasf64": "FromValAsF64"}
FROM_FLAGS = {"Flags::new(v.flags)": "FromFlagsNew", "Flags::ONLINE": "FromFlagsOnline"}
FROM_TIME = {"None": "FromTimeNone", "Some(Time::Synchronized(v.time))": "FromTimeSync"}
TO_FLAGS = {"self.get_wire_flags()": "ToFlagsWire", "self.flags.value": "ToFlagsRaw", "_wire_flags.value": "ToFlagsConv"}
TO_VALUE = {"self.value": "ToValRaw", "self.valueasu16": "ToValAsU16"}
TO_TIME = {"self.time.into()": "ToTimeInto"}
CONV = {"self.to_i16()": "ToValI16", "self.to_i32()": "ToValI32", "self.to_f32()": "ToValF32"}


def struct_fields(text, name, where):
    """`Name{a:x,b:y,}` (normalised) -> dict; a bare `flags` is the shorthand for flags:flags"""
    m = re.search(re.escape(name) + r"\{(.*?)\}", text)
    if not m:
        die("%s: struct literal %s not found in %s" % (where, name, text))
    out = {}
    for item in [x for x in split_top(m.group(1)) if x]:
        if ":" in item and not item.startswith("Some(Time::"):
            k, v = item.split(":", 1)
        else:
            k, v = item, item
        out[k] = v
    return out


def split_top(s):
    """split at top-level commas; brackets and turbofish `::<..>` nest"""
    parts, depth, cur, angle = [], 0, "", 0
    for ch in s:
        if ch in "([{":
            depth += 1
        if ch in ")]}":
            depth -= 1
        if ch == "<" and cur.endswith("::"):
            angle += 1
        if ch == ">" and angle > 0 and not cur.endswith("=") and not cur.endswith("-"):
            angle -= 1
        if ch == "," and depth == 0 and angle == 0:
            parts.append(cur); cur = ""
        else:
            cur += ch
    parts.append(cur)
    return parts


def match_arms(s):
    """normalised body of a `match` -> list of (pattern, expression); an arm is either
    `pat=>{block}` (comma optional) or `pat=>expr,`"""
    arms = []
    i = 0
    while i < len(s):
        j = s.find("=>", i)
        if j < 0:
            if s[i:].strip(","):
                die("unparsed match arm text: " + s[i:])
            break
        pat = s[i:j]
        k = j + 2
        if k < len(s) and s[k] == "{":
            depth = 0
            e = k
            while True:
                if s[e] == "{":
                    depth += 1
                elif s[e] == "}":
                    depth -= 1
                    if depth == 0:
                        break
                e += 1
            expr = s[k + 1:e]
            e += 1
            if e < len(s) and s[e] == ",":
                e += 1
        else:
            rest = split_top(s[k:])
            expr = rest[0]
            e = k + len(expr) + 1
        arms.append((pat, expr))
        i = e
    return arms


def conversions():
    src = read("app/gen/conversion.rs")
    recipes = {}
    seen_to, seen_from = set(), set()
    for m in re.finditer(r"impl From<(Group\d+Var\d+)> for (\w+) \{", src):
        var, ty = m.group(1), m.group(2)
        if ty not in TYPES:
            die("conversion.rs: unknown measurement type " + ty)
        body, _ = block_after(src, m.start())
        mf = re.search(r"fn from\(v: %s\) -> Self" % var, body)
        if not mf:
            die("conversion.rs: no fn from in From<%s> for %s" % (var, ty))
        fb, _ = block_after(body, mf.start())
        fb = norm(fb)
        has_let = False
        if fb.startswith("letflags=Flags::new(v.flags);"):
            has_let = True
            fb = fb[len("letflags=Flags::new(v.flags);"):]
        mm = re.fullmatch(re.escape(ty) + r"\{(.*)\}", fb)
        if not mm:
            die("conversion.rs: unexpected body of From<%s> for %s: %s" % (var, ty, fb))
        fields = {}
        for item in [x for x in split_top(mm.group(1)) if x]:
            if ":" in item:
                k, v = item.split(":", 1)
                # Some(Time::Synchronized(..)) contains '::' after the first ':' only
            else:
                k, v = item, item
            fields[k] = v
        if sorted(fields) != ["flags", "time", "value"]:
            die("conversion.rs: From<%s> for %s sets fields %s" % (var, ty, sorted(fields)))
        fl = fields["flags"]
        if fl == "flags":
            if not has_let:
                die("conversion.rs: From<%s> for %s uses `flags` without the let" % (var, ty))
            fl = "Flags::new(v.flags)"
        elif has_let:
            die("conversion.rs: From<%s> for %s: let flags but not used as the flags field" % (var, ty))
        if fields["value"] not in FROM_VALUE:
            die("conversion.rs: From<%s> for %s: value expression outside the vocabulary: %s" % (var, ty, fields["value"]))
        if fields["value"] in ("flags.state()", "flags.double_bit_state()") and not has_let:
            die("conversion.rs: From<%s> for %s: flags.state() without let flags" % (var, ty))
        if fl not in FROM_FLAGS:
            die("conversion.rs: From<%s> for %s: flags expression outside the vocabulary: %s" % (var, ty, fl))
        if fields["time"] not in FROM_TIME:
            die("conversion.rs: From<%s> for %s: time expression outside the vocabulary: %s" % (var, ty, fields["time"]))
        recipes.setdefault((ty, var), {}).update(
            from_value=FROM_VALUE[fields["value"]], from_flags=FROM_FLAGS[fl], from_time=FROM_TIME[fields["time"]])
        seen_from.add((ty, var))
    for m in re.finditer(r"impl ToVariation<(Group\d+Var\d+)> for (\w+) \{", src):
        var, ty = m.group(1), m.group(2)
        if ty not in TYPES:
            die("conversion.rs: unknown measurement type " + ty)
        body, _ = block_after(src, m.start())
        mf = re.search(r"fn to_variation\(&self\) -> %s" % var, body)
        if not mf:
            die("conversion.rs: no fn to_variation in ToVariation<%s> for %s" % (var, ty))
        fb, _ = block_after(body, mf.start())
        fb = norm(fb)
        conv = None
        ml = re.match(r"let\(_wire_flags,_wire_value\)=(self\.to_\w+\(\));", fb)
        if ml:
            if ml.group(1) not in CONV:
                die("conversion.rs: ToVariation<%s> for %s: conversion outside the vocabulary: %s" % (var, ty, ml.group(1)))
            conv = CONV[ml.group(1)]
            fb = fb[ml.end():]
        mm = re.fullmatch(re.escape(var) + r"\{(.*)\}", fb)
        if not mm:
            die("conversion.rs: unexpected body of ToVariation<%s> for %s: %s" % (var, ty, fb))
        fields = {}
        for item in [x for x in split_top(mm.group(1)) if x]:
            if ":" not in item:
                die("conversion.rs: ToVariation<%s> for %s: field without value: %s" % (var, ty, item))
            k, v = item.split(":", 1)
            fields[k] = v
        r = {"to_flags": None, "to_value": None, "to_time": None}
        for k, v in fields.items():
            if k == "flags":
                if v not in TO_FLAGS:
                    die("conversion.rs: ToVariation<%s> for %s: flags expression outside the vocabulary: %s" % (var, ty, v))
                if (v == "_wire_flags.value") != (conv is not None) and v == "_wire_flags.value":
                    die("conversion.rs: ToVariation<%s> for %s: _wire_flags without conversion" % (var, ty))
                r["to_flags"] = TO_FLAGS[v]
            elif k == "value":
                if v == "_wire_value":
                    if conv is None:
                        die("conversion.rs: ToVariation<%s> for %s: _wire_value without conversion" % (var, ty))
                    r["to_value"] = conv
                elif v in TO_VALUE:
                    if conv is not None:
                        die("conversion.rs: ToVariation<%s> for %s: conversion computed but not used" % (var, ty))
                    r["to_value"] = TO_VALUE[v]
                else:
                    die("conversion.rs: ToVariation<%s> for %s: value expression outside the vocabulary: %s" % (var, ty, v))
            elif k == "time":
                if v not in TO_TIME:
                    die("conversion.rs: ToVariation<%s> for %s: time expression outside the vocabulary: %s" % (var, ty, v))
                r["to_time"] = TO_TIME[v]
            else:
                die("conversion.rs: ToVariation<%s> for %s: unknown field %s" % (var, ty, k))
        if conv is not None and r["to_value"] != conv:
            die("conversion.rs: ToVariation<%s> for %s: conversion result unused" % (var, ty))
        recipes.setdefault((ty, var), {}).update(r)
        seen_to.add((ty, var))
    if seen_to != seen_from:
        die("conversion.rs: From and ToVariation impls do not pair up: %s" % sorted(seen_to ^ seen_from))
    if len(recipes) < 60:
        die("conversion.rs: only %d conversions found" % len(recipes))
    return recipes


def cto_conversions(recipes):
    """Group2Var3 / Group4Var3: outstation side in event/write_fn.rs, master side in master/convert.rs"""
    wf = read("outstation/database/details/event/write_fn.rs")
    cv = read("master/convert.rs")
    for var, ty, state in (("Group2Var3", "BinaryInput", "flags.state()"), ("Group4Var3", "DoubleBitBinaryInput", "flags.double_bit_state()")):
        m = re.search(r"impl ToVariationCto<%s> for %s \{" % (var, ty), wf)
        if not m:
            die("write_fn.rs: no ToVariationCto<%s> for %s" % (var, ty))
        body = norm(block_after(wf, m.start())[0])
        want = ("fnget_time(&self)->Option<Time>{self.time}"
                "fnto_cto_variation(&self,timestamp:u16)->%s{%s{flags:self.get_wire_flags(),time:timestamp,}}" % (var, var))
        if body != want:
            die("write_fn.rs: ToVariationCto<%s> for %s has an unexpected body: %s" % (var, ty, body))
        m = re.search(r"impl %s \{" % var, cv)
        if not m:
            die("master/convert.rs: no impl " + var)
        body = norm(block_after(cv, m.start())[0])
        want = ("pub(crate)fnto_measurement(self,cto:Option<Time>)->%s{letflags=Flags::new(self.flags);"
                "%s{value:%s,flags,time:cto.and_then(|x|x.checked_add(self.time)),}}" % (ty, ty, state))
        if body != want:
            die("master/convert.rs: %s::to_measurement has an unexpected body: %s" % (var, body))
        recipes[(ty, var)] = dict(to_flags="ToFlagsWire", to_value=None, to_time="ToTimeCto",
                                  from_value=FROM_VALUE[state], from_flags="FromFlagsNew", from_time="FromTimeCto")
    # packed formats on the master: From<bool>, From<DoubleBit>
    for src_ty, ty in (("bool", "BinaryInput"), ("bool", "BinaryOutputStatus"), ("DoubleBit", "DoubleBitBinaryInput")):
        m = re.search(r"impl From<%s> for %s \{" % (src_ty, ty), cv)
        if not m:
            die("master/convert.rs: no From<%s> for %s" % (src_ty, ty))
        body = norm(block_after(cv, m.start())[0])
        want = "fnfrom(x:%s)->Self{Self{value:x,flags:Flags::ONLINE,time:None,}}" % src_ty
        if body != want:
            die("master/convert.rs: From<%s> for %s has an unexpected body: %s" % (src_ty, ty, body))
    # checked_add / Timestamp
    ms = read("app/measurement.rs")
    m = re.search(r"pub\(crate\) fn checked_add\(self, x: u16\) -> Option<Self>", ms)
    if not m:
        die("measurement.rs: Time::checked_add not found")
    body = norm(block_after(ms, m.start())[0])
    want = ("matchself{Time::Synchronized(ts)=>ts.checked_add(Duration::from_millis(xasu64)).map(Time::Synchronized),"
            "Time::Unsynchronized(ts)=>ts.checked_add(Duration::from_millis(xasu64)).map(Time::Unsynchronized),}")
    if body != want:
        die("measurement.rs: Time::checked_add has an unexpected body: " + body)
    ty = read("app/types.rs")
    m = re.search(r"pub\(crate\) fn checked_add\(self, x: Duration\) -> Option<Timestamp>", ty)
    if not m:
        die("types.rs: Timestamp::checked_add not found")
    body = norm(block_after(ty, m.start())[0])
    want = ("letmax_add=Self::MAX_VALUE-self.value;letmillis=x.as_millis();ifmillis>max_addasu128{returnNone;}"
            "Some(Timestamp::new(self.value+millisasu64))")
    if body != want:
        die("types.rs: Timestamp::checked_add has an unexpected body: " + body)
    m = re.search(r"pub const MAX_VALUE: u64 = (0x[0-9A-Fa-f_]+);", ty)
    if not m:
        die("types.rs: Timestamp::MAX_VALUE not found")
    tmax = int(m.group(1).replace("_", ""), 16)
    m = re.search(r"pub const fn new\(value: u64\) -> Self", ty)
    body = norm(block_after(ty, m.start())[0]) if m else ""
    if body != "Self{value:value&Self::MAX_VALUE,}":
        die("types.rs: Timestamp::new has an unexpected body: " + body)
    # Option<Time> -> Timestamp
    m = re.search(r"impl From<Option<Time>> for Time \{", ms)
    body = norm(block_after(ms, m.start())[0]) if m else ""
    if body != "fnfrom(x:Option<Time>)->Self{x.unwrap_or_else(||Time::Unsynchronized(Timestamp::new(0)))}":
        die("measurement.rs: From<Option<Time>> for Time has an unexpected body: " + body)
    m = re.search(r"impl From<Option<Time>> for Timestamp \{", ms)
    body = norm(block_after(ms, m.start())[0]) if m else ""
    if body != "fnfrom(x:Option<Time>)->Self{Time::from(x).timestamp()}":
        die("measurement.rs: From<Option<Time>> for Timestamp has an unexpected body: " + body)
    # DoubleBit <-> bits
    m = re.search(r"pub\(crate\) fn from\(high: bool, low: bool\) -> Self", ty)
    body = norm(block_after(ty, m.start())[0]) if m else ""
    want = ("match(high,low){(false,false)=>DoubleBit::Intermediate,(false,true)=>DoubleBit::DeterminedOff,"
            "(true,false)=>DoubleBit::DeterminedOn,(true,true)=>DoubleBit::Indeterminate,}")
    if body != want:
        die("types.rs: DoubleBit::from has an unexpected body: " + body)
    m = re.search(r"pub\(crate\) fn to_bit_pair\(self\) -> BitPair", ty)
    body = norm(block_after(ty, m.start())[0]) if m else ""
    want = ("matchself{DoubleBit::Intermediate=>BitPair::new(false,false),DoubleBit::DeterminedOff=>BitPair::new(false,true),"
            "DoubleBit::DeterminedOn=>BitPair::new(true,false),DoubleBit::Indeterminate=>BitPair::new(true,true),}")
    if body != want:
        die("types.rs: DoubleBit::to_bit_pair has an unexpected body: " + body)
    m = re.search(r"pub\(crate\) fn to_byte\(self\) -> u8", ty)
    body = norm(block_after(ty, m.start())[0]) if m else ""
    want = ("matchself{DoubleBit::Intermediate=>0b00,DoubleBit::DeterminedOff=>0b01,DoubleBit::DeterminedOn=>0b10,"
            "DoubleBit::Indeterminate=>0b11,}")
    if body != want:
        die("types.rs: DoubleBit::to_byte has an unexpected body: " + body)
    return tmax


# ------------------------------------------------------------------------------------------------
# extensions.rs / measurement.rs: wire flags and analog conversions

def wire_flags():
    src = read("app/extensions.rs")
    out = {}
    shapes = {"self.flags.value": "WfRaw",
              "self.flags.with_bits_set_to(BIT_7,self.value).value": "WfBit7",
              "letpair=self.value.to_bit_pair();self.flags.with_bits_set_to(BIT_7,pair.high).with_bits_set_to(BIT_6,pair.low).value": "WfBits76"}
    for m in re.finditer(r"impl WireFlags for (\w+) \{", src):
        ty = m.group(1)
        body = norm(block_after(src, m.start())[0])
        mm = re.fullmatch(r"fnget_wire_flags\(&self\)->u8\{(.*)\}", body)
        if not mm or mm.group(1) not in shapes:
            die("extensions.rs: WireFlags for %s outside the vocabulary: %s" % (ty, body))
        if ty not in TYPES:
            die("extensions.rs: WireFlags for unknown type " + ty)
        out[ty] = shapes[mm.group(1)]
    bit = read("util/bit.rs")
    for name, val in (("BIT_5", 0b0010_0000), ("BIT_6", 0b0100_0000), ("BIT_7", 0b1000_0000), ("BIT_0", 1)):
        m = re.search(r"const %s: BitMask = BitMask \{\s*value: (0b[01_]+),?\s*\};" % name, bit)
        if not m or int(m.group(1).replace("_", ""), 2) != val:
            die("util/bit.rs: %s is not %d" % (name, val))
    ms = read("app/measurement.rs")
    if not re.search(r"pub const ONLINE: Flags = Flags::new\(bits::BIT_0\.value\);", ms):
        die("measurement.rs: Flags::ONLINE is not BIT_0")
    want = {"with_bits_set_to(&self,mask:BitMask,value:bool)->Flags": "ifvalue{self.with_bits_set(mask)}else{self.with_bits_cleared(mask)}",
            "with_bits_cleared(&self,mask:BitMask)->Flags": "Flags::new(self.value&!mask.value)",
            "with_bits_set(&self,mask:BitMask)->Flags": "Flags::new(self.value|mask.value)",
            "without(&self,mask:BitMask)->Flags": "Flags::new(self.value&!mask.value)",
            "state(self)->bool": "self.value.bit_7()",
            "double_bit_state(self)->DoubleBit": "DoubleBit::from(self.value.bit_7(),self.value.bit_6())"}
    nm = norm(ms)
    for sig, body in want.items():
        if "pub(crate)fn%s{%s}" % (sig, body) not in nm:
            die("measurement.rs: Flags::%s has an unexpected body" % sig.split("(")[0])
    return out


def analog_guards():
    """AnalogConversions::to_i16 / to_i32 / to_f32 as guard lists:
         if <cond> { return (self.get_flags().with_bits_set(Self::OVER_RANGE), <const>); } ...
         (self.get_flags(), self.get_value() as <ty>)"""
    ms = read("app/measurement.rs")
    m = re.search(r"pub\(crate\) trait AnalogConversions \{", ms)
    if not m:
        die("measurement.rs: trait AnalogConversions not found")
    body, _ = block_after(ms, m.start())
    if "constOVER_RANGE:BitMask=bits::BIT_5;" not in norm(body):
        die("measurement.rs: AnalogConversions::OVER_RANGE is not BIT_5")
    out = {}
    for fn, ty in (("to_i16", "i16"), ("to_i32", "i32"), ("to_f32", "f32")):
        mf = re.search(r"fn %s\(&self\) -> \(Flags, %s\)" % (fn, ty), body)
        if not mf:
            die("measurement.rs: AnalogConversions::%s not found" % fn)
        fb = norm(block_after(body, mf.start())[0])
        guards = []
        while True:
            mg = re.match(r"if(.*?)\{return\(self\.get_flags\(\)\.with_bits_set\(Self::OVER_RANGE\),(.*?)\);\}", fb)
            if not mg:
                break
            cond, res = mg.group(1), mg.group(2)
            conds = {"self.get_value().is_nan()": "GNan",
                     "self.get_value()<%s::MIN.into()" % ty: "GBelowMin",
                     "self.get_value()>%s::MAX.into()" % ty: "GAboveMax"}
            ress = {"0": "SZero", "%s::MIN" % ty: "SMin", "%s::MAX" % ty: "SMax"}
            if cond not in conds or res not in ress:
                die("measurement.rs: %s: guard outside the vocabulary: if %s -> %s" % (fn, cond, res))
            guards.append((conds[cond], ress[res]))
            fb = fb[mg.end():]
        if fb != "(self.get_flags(),self.get_value()as%s)" % ty:
            die("measurement.rs: %s: unexpected tail: %s" % (fn, fb))
        out[fn] = guards
    # the impls of get_value/get_flags
    ext = norm(read("app/extensions.rs"))
    for ty in ("AnalogInput", "FrozenAnalogInput", "AnalogOutputStatus"):
        if "implAnalogConversionsfor%s{fnget_value(&self)->f64{self.value}fnget_flags(&self)->Flags{self.flags}}" % ty not in ext:
            die("extensions.rs: AnalogConversions for %s has an unexpected body" % ty)
    return out


# ------------------------------------------------------------------------------------------------
# static and event variation tables

def static_table():
    src = read("outstation/database/details/range/traits.rs")
    rows = []
    for m in re.finditer(r"impl StaticVariation<(\w+)> for (\w+) \{", src):
        ty, enum = m.group(1), m.group(2)
        if ty == "OctetString":
            continue
        if ty not in TYPES:
            die("range/traits.rs: StaticVariation for unknown type " + ty)
        body, _ = block_after(src, m.start())
        promote = {}
        mp = re.search(r"fn promote\(&self, value: &%s\) -> Self" % ty, body)
        if mp:
            pb = norm(block_after(body, mp.start())[0])
            mm = re.fullmatch(r"ifleta::(Group\d+Var\d+)=self\{ifvalue\.flags\.without\((BIT_7|BIT_6\|BIT_7)\)==Flags::ONLINE\{\*self\}else\{a::(Group\d+Var\d+)\}\}else\{\*self\}".replace("a::", re.escape(enum) + "::"), pb)
            if not mm:
                die("range/traits.rs: promote of %s outside the vocabulary: %s" % (enum, pb))
            mask = 128 if mm.group(2) == "BIT_7" else 192
            promote[mm.group(1)] = (mm.group(3), mask)
        mg = re.search(r"fn get_write_info\(&self, _?value: &%s\) -> WriteInfo<%s>" % (ty, ty), body)
        if not mg:
            die("range/traits.rs: get_write_info of %s not found" % enum)
        gb = norm(block_after(body, mg.start())[0])
        mm = re.fullmatch(r"matchself\{(.*)\}", gb)
        if not mm:
            die("range/traits.rs: get_write_info of %s is not a match: %s" % (enum, gb))
        for lhs, rhs in match_arms(mm.group(1)):
            arm = lhs + "=>" + rhs
            ml = re.fullmatch(r"(?:Self|%s)::(Group\d+Var\d+)" % re.escape(enum), lhs)
            if not ml:
                die("range/traits.rs: unexpected arm in %s: %s" % (enum, arm))
            var = ml.group(1)
            if rhs == "bit_type(Variation::%s,|v|v.value)" % var:
                kind = "WkBits"
            elif rhs == "double_bit_type(Variation::%s,|v|v.value)" % var:
                kind = "WkDoubleBits"
            elif rhs == "fixed_type::<%s,%s>()" % (ty, var):
                kind = "WkFixed"
            else:
                die("range/traits.rs: write info of %s::%s outside the vocabulary: %s" % (enum, var, rhs))
            rows.append((ty, var, kind, promote.get(var)))
        for p in promote:
            if p not in [r[1] for r in rows if r[0] == ty]:
                die("range/traits.rs: promote of %s names an unknown variation" % enum)
    if len(rows) < 20:
        die("range/traits.rs: only %d static variations found" % len(rows))
    # shape of the helpers
    n = norm(src)
    if "fnwrite<T,V>(cursor:&mutWriteCursor,value:&T)->Result<(),WriteError>whereV:FixedSize,T:ToVariation<V>,{value.to_variation().write(cursor)}" not in n:
        die("range/traits.rs: fixed_type no longer writes value.to_variation()")
    return rows


def event_table():
    src = read("outstation/database/details/event/traits.rs")
    rows = []
    for m in re.finditer(r"impl EventVariation<(\w+)> for (\w+) \{", src):
        ty, enum = m.group(1), m.group(2)
        if ty not in TYPES:
            continue  # Box<[u8]>
        body, _ = block_after(src, m.start())
        mw = re.search(r"fn write\(", body)
        wb = norm(block_after(body, body.index("Result<Continue, WriteError>", mw.start()))[0])
        mm = re.fullmatch(r"matchself\{(.*)\}", wb)
        if not mm:
            die("event/traits.rs: write of %s is not a match" % enum)
        writes = {}
        for lhs, rhs in match_arms(mm.group(1)):
            arm = lhs + "=>" + rhs
            var = lhs.replace("Self::", "")
            if rhs == "write_fixed_size::<%s,%s>(cursor,event,index,cto)" % (var, ty):
                writes[var] = False
            elif rhs == "write_cto::<%s,%s>(cursor,event,index,cto)" % (var, ty):
                writes[var] = True
            else:
                die("event/traits.rs: write arm of %s outside the vocabulary: %s" % (enum, arm))
        mg = re.search(r"fn get_group_var\(&self, _event: &%s\) -> \(u8, u8\)" % ty, body)
        if not mg:
            die("event/traits.rs: get_group_var of %s not found" % enum)
        gb = norm(block_after(body, mg.start())[0])
        mm = re.fullmatch(r"matchself\{(.*)\}", gb)
        for lhs, rhs in match_arms(mm.group(1)):
            var = lhs.replace("Self::", "")
            g, v = gv(var)
            if rhs != "(%d,%d)" % (g, v):
                die("event/traits.rs: %s::%s reports group/var %s" % (enum, var, rhs))
            if var not in writes:
                die("event/traits.rs: %s::%s has no write arm" % (enum, var))
        mu = re.search(r"fn uses_cto\(&self\) -> bool", body)
        cto_vars = set()
        if mu:
            ub = norm(block_after(body, mu.start())[0])
            mm = re.fullmatch(r"std::matches!\(self,(.*)\)", ub)
            if not mm:
                die("event/traits.rs: uses_cto of %s outside the vocabulary: %s" % (enum, ub))
            cto_vars = set(x.replace("Self::", "") for x in mm.group(1).split("|"))
        for var, is_cto in writes.items():
            if is_cto != (var in cto_vars):
                die("event/traits.rs: %s::%s: write_cto and uses_cto disagree" % (enum, var))
            rows.append((ty, var, is_cto))
    if len(rows) < 25:
        die("event/traits.rs: only %d event variations found" % len(rows))
    if "fnuses_cto(&self)->bool{false}" not in norm(src):
        die("event/traits.rs: default uses_cto is no longer false")
    return rows


def int_expr(e, where):
    e = e.replace("_", "")
    if e in ("u16::MAX.into()", "u16::MAXasu64", "u64::from(u16::MAX)"):
        return 65535
    if re.fullmatch(r"\d+", e):
        return int(e)
    if re.fullmatch(r"0x[0-9a-fA-F]+", e):
        return int(e, 16)
    die("%s: integer expression outside the vocabulary: %s" % (where, e))


def cto_rule():
    """write_cto of event/write_fn.rs and start_new_header of event/writer.rs"""
    wf = read("outstation/database/details/event/write_fn.rs")
    m = re.search(r"pub\(crate\) fn write_cto<V, T>\(", wf)
    if not m:
        die("write_fn.rs: write_cto not found")
    body = norm(block_after(wf, wf.index("V: FixedSize,", m.start()))[0])
    pat = (r"lettime:Time=event\.get_time\(\)\.into\(\);"
           r"iftime\.is_synchronized\(\)!=cto\.is_synchronized\(\)\{returnOk\(Continue::NewHeader\);\}"
           r"ifcto\.timestamp\(\)\.raw_value\(\)>time\.timestamp\(\)\.raw_value\(\)\{returnOk\(Continue::NewHeader\);\}"
           r"letdifference:u64=time\.timestamp\(\)\.raw_value\(\)-cto\.timestamp\(\)\.raw_value\(\);"
           r"ifdifference>(.*?)\{returnOk\(Continue::NewHeader\);\}"
           r"letvariation=event\.to_cto_variation\(differenceasu16\);"
           r"write_prefixed\(cursor,&variation,index\)\.map\(\|_\|Continue::Ok\)")
    mm = re.fullmatch(pat, body)
    if not mm:
        die("write_fn.rs: write_cto outside the vocabulary: " + body)
    gap = int_expr(mm.group(1), "write_fn.rs write_cto")
    n = norm(wf)
    if "fnwrite_prefixed<V>(cursor:&mutWriteCursor,variation:&V,index:u16)->Result<(),WriteError>whereV:FixedSize,{cursor.write_u16_le(index)?;variation.write(cursor)?;Ok(())}" not in n:
        die("write_fn.rs: write_prefixed has an unexpected body")
    if "write_prefixed(cursor,&event.to_variation(),index).map(|_|Continue::Ok)" not in n:
        die("write_fn.rs: write_fixed_size has an unexpected body")
    wr = norm(read("outstation/database/details/event/writer.rs"))
    for piece, what in (
        ("lettime=event.get_time().unwrap_or_else(||Time::Unsynchronized(Timestamp::new(0)));", "time of the first event of a header"),
        ("ifvariation.uses_cto(){iftime.is_synchronized(){Self::write_cto_header(cursor,&Group51Var1{time:time.timestamp(),},)?;}else{Self::write_cto_header(cursor,&Group51Var2{time:time.timestamp(),},)?;}}", "CTO header choice"),
        ("let(group,var)=variation.get_group_var(event);letcount_pos=Self::write_event_header(cursor,group,var)?;variation.write(cursor,event,index,time).map(|_|())?;", "first event written against its own time"),
        ("self.state=State::InProgress(HeaderState::new(count_pos,time),variation.wrap());", "cto of the header state"),
        ("cursor.write_u8(group)?;cursor.write_u8(variation)?;cursor.write_u8(QualifierCode::CountAndPrefix16.as_u8())?;letcount_pos=cursor.position();cursor.write_u16_le(1)?;", "event header"),
        ("let(g,v)=T::VARIATION.to_group_and_var();cursor.write_u8(g)?;cursor.write_u8(v)?;cursor.write_u8(QualifierCode::Count8.as_u8())?;cursor.write_u8(1)?;cto.write(cursor)?;", "cto header"),
        ("ifcurrent_variation!=variation{self.start_new_header(cursor,event,index,variation)}", "variation change starts a header"),
        ("ifstate.count==u16::MAX{returnself.start_new_header(cursor,event,index,variation);}", "count limit"),
        ("Continue::NewHeader=>{self.start_new_header(cursor,event,index,variation)}", "NewHeader"),
    ):
        if piece not in wr:
            die("event/writer.rs: unexpected shape (%s)" % what)
    # master side
    ex = norm(read("master/extract.rs"))
    for piece, what in (
        ("fnextract_cto_g51v1(prev:Option<Time>,item:Option<Group51Var1>)->Option<Time>{item.map_or(prev,|x|Some(Time::Synchronized(x.time)))}", "g51v1 -> synchronized cto"),
        ("fnextract_cto_g51v2(prev:Option<Time>,item:Option<Group51Var2>)->Option<Time>{item.map_or(prev,|x|Some(Time::Unsynchronized(x.time)))}", "g51v2 -> unsynchronized cto"),
        ("HeaderDetails::OneByteCount(1,CountVariation::Group51Var1(seq))=>{returnextract_cto_g51v1(cto,seq.single())}", "count8 g51v1"),
        ("HeaderDetails::OneByteCount(1,CountVariation::Group51Var2(seq))=>{returnextract_cto_g51v2(cto,seq.single())}", "count8 g51v2"),
        ("HeaderDetails::TwoByteStartStop(_,_,var)=>{var.extract_measurements_to(header.variation,header.details.qualifier(),handler)}", "range16 dispatch"),
        ("HeaderDetails::TwoByteCountAndPrefix(_,var)=>{var.extract_measurements_to(cto,handler)}", "prefix16 dispatch"),
        ("objects.iter().fold(None,|cto,header|handle(cto,header,handler));", "fold of the running cto"),
    ):
        if piece not in ex:
            die("master/extract.rs: unexpected shape (%s)" % what)
    return gap


def handler_tables(recipes):
    rg = read("app/gen/ranged.rs")
    m = re.search(r"pub\(crate\) fn extract_measurements_to\(&self, var: Variation, qualifier: QualifierCode, handler: &mut dyn ReadHandler\) -> bool", rg)
    if not m:
        die("ranged.rs: extract_measurements_to not found")
    body = norm(block_after(rg, m.start())[0])
    ranged = {}
    for mm in re.finditer(r"RangedVariation::(Group\d+Var\d+)\(seq\)=>\{handler\.(\w+)\(HeaderInfo::new\(var,qualifier,(true|false),(true|false)\),&mutseq\.iter\(\)\.map\(\|\(v,i\)\|\(v\.into\(\),i\)\)\);true\}", body):
        if mm.group(2) in HANDLERS:
            ranged[mm.group(1)] = (HANDLERS[mm.group(2)], mm.group(3) == "true", mm.group(4) == "true")
    pf = read("app/gen/prefixed.rs")
    m = re.search(r"pub\(crate\) fn extract_measurements_to\(&self, cto: Option<Time>, handler: &mut dyn ReadHandler\) -> bool", pf)
    if not m:
        die("prefixed.rs: extract_measurements_to not found")
    body = norm(block_after(pf, m.start())[0])
    prefixed = {}
    for mm in re.finditer(r"PrefixedVariation::(Group\d+Var\d+)\(seq\)=>\{handler\.(\w+)\(self\.get_header_info\(\),&mutseq\.iter\(\)\.map\(\|x\|\((x\.value\.into\(\)|x\.value\.to_measurement\(cto\)),x\.index\.widen_to_u16\(\)\)\)\);true\}", body):
        if mm.group(2) in HANDLERS:
            prefixed[mm.group(1)] = [HANDLERS[mm.group(2)], mm.group(3) == "x.value.to_measurement(cto)"]
    m = re.search(r"pub\(crate\) fn get_header_info\(&self\) -> HeaderInfo", pf)
    if not m:
        die("prefixed.rs: get_header_info not found")
    body = norm(block_after(pf, m.start())[0])
    for var in prefixed:
        mm = re.search(r"PrefixedVariation::%s\(_\)=>HeaderInfo::new\(Variation::%s,I::COUNT_AND_PREFIX_QUALIFIER,(true|false),(true|false)\)," % (var, var), body)
        if not mm:
            die("prefixed.rs: get_header_info has no arm for " + var)
        prefixed[var] += [mm.group(1) == "true", mm.group(2) == "true"]
    return ranged, prefixed


# ------------------------------------------------------------------------------------------------

def opt(x):
    return "None" if x is None else "(Some %s)" % x


def main():
    os.makedirs(OUT, exist_ok=True)
    recipes = conversions()
    tmax = cto_conversions(recipes)
    lay = layouts(sorted(set(v for _, v in recipes)) + ["Group51Var1", "Group51Var2"])
    wf = wire_flags()
    guards = analog_guards()
    stat = static_table()
    evt = event_table()
    gap = cto_rule()
    ranged, prefixed = handler_tables(recipes)

    # cross checks between the tables
    for (ty, var), r in recipes.items():
        fields = [f for f, _ in lay[var]]
        for f, key in (("flags", "to_flags"), ("value", "to_value"), ("time", "to_time")):
            if (f in fields) != (r.get(key) is not None):
                die("%s for %s: field %s of the layout and the conversion disagree" % (var, ty, f))
        for key in ("from_value", "from_flags", "from_time"):
            if key not in r:
                die("%s for %s: incomplete recipe" % (var, ty))
    for ty, var, kind, promote in stat:
        if kind == "WkFixed" and (ty, var) not in recipes:
            die("static variation %s of %s has no conversion" % (var, ty))
        if var not in ranged or ranged[var][0] != TYPES[ty]:
            die("ranged.rs: %s is not dispatched to the handler of %s" % (var, ty))
    for ty, var, is_cto in evt:
        if (ty, var) not in recipes:
            die("event variation %s of %s has no conversion" % (var, ty))
        if var not in prefixed or prefixed[var][0] != TYPES[ty]:
            die("prefixed.rs: %s is not dispatched to the handler of %s" % (var, ty))
        if prefixed[var][1] != is_cto:
            die("prefixed.rs: %s: to_measurement(cto) and uses_cto disagree" % var)
    for ty in TYPES:
        if ty != "FrozenAnalogInput" and ty not in wf:
            die("extensions.rs: no WireFlags for " + ty)

    def key(tv):
        g, v = gv(tv[1])
        return (list(TYPES).index(tv[0]), g, v)

    with open(os.path.join(OUT, "Conversions.v"), "w") as f:
        w = f.write
        w("(* GENERATED by tools/gen/gen_conversions.py from dnp3/src/app/gen/conversion.rs, app/variations.rs,\n"
          "   app/extensions.rs, app/measurement.rs, app/types.rs, master/{convert,extract}.rs,\n"
          "   outstation/database/details/{range,event}/traits.rs, event/{write_fn,writer}.rs,\n"
          "   app/gen/{ranged,prefixed}.rs - do not edit *)\n")
        w("From Coq Require Import List NArith.\nImport ListNotations.\nOpen Scope N_scope.\n\n")
        w("Inductive mtype := BI | DBI | BOS | CTR | FCTR | AI | AOS | FAI.\n")
        w("Inductive wtype := WU8 | WU16 | WU32 | WI16 | WI32 | WF32 | WF64 | WTime48.\n")
        w("Inductive fld := FFlags | FValue | FTime.\n")
        w("(* measurement -> variation (ToVariation / ToVariationCto) *)\n")
        w("Inductive to_flags := ToFlagsWire | ToFlagsRaw | ToFlagsConv.\n")
        w("Inductive to_value := ToValRaw | ToValAsU16 | ToValI16 | ToValI32 | ToValF32.\n")
        w("Inductive to_time := ToTimeInto | ToTimeCto.\n")
        w("(* variation -> measurement (From / to_measurement) *)\n")
        w("Inductive from_value := FromState | FromDoubleState | FromValRaw | FromValAsU32 | FromValAsF64.\n")
        w("Inductive from_flags := FromFlagsNew | FromFlagsOnline.\n")
        w("Inductive from_time := FromTimeNone | FromTimeSync | FromTimeCto.\n")
        w("Record recipe := mk_recipe { rc_type : mtype; rc_group : N; rc_var : N; rc_layout : list (fld * wtype);\n"
          "  rc_to_flags : option to_flags; rc_to_value : option to_value; rc_to_time : option to_time;\n"
          "  rc_from_value : from_value; rc_from_flags : from_flags; rc_from_time : from_time }.\n\n")
        w("Definition recipes : list recipe := [\n")
        lines = []
        for (ty, var) in sorted(recipes, key=key):
            r = recipes[(ty, var)]
            g, v = gv(var)
            layout = "; ".join("(%s, %s)" % (FIELD[a], b) for a, b in lay[var])
            lines.append("  mk_recipe %s %d %d [%s] %s %s %s %s %s %s" % (
                TYPES[ty], g, v, layout, opt(r["to_flags"]), opt(r["to_value"]), opt(r["to_time"]),
                r["from_value"], r["from_flags"], r["from_time"]))
        w(";\n".join(lines) + "].\n\n")
        w("(* impl WireFlags *)\nInductive wire_flags_rule := WfRaw | WfBit7 | WfBits76.\n")
        w("Definition wire_flags_of (t : mtype) : wire_flags_rule :=\n  match t with\n")
        for ty in TYPES:
            w("  | %s => %s\n" % (TYPES[ty], wf.get(ty, "WfRaw")))
        w("  end.\n\n")
        w("(* AnalogConversions: guards tried in order, each returning OVER_RANGE and a constant; else the cast *)\n")
        w("Inductive conv_guard := GNan | GBelowMin | GAboveMax.\nInductive conv_sat := SZero | SMin | SMax.\n")
        for fn in ("to_i16", "to_i32", "to_f32"):
            w("Definition %s_guards : list (conv_guard * conv_sat) := [%s].\n" % (fn, "; ".join("(%s, %s)" % g for g in guards[fn])))
        w("Definition over_range_mask : N := 32.\nDefinition online_flags : N := 1.\n")
        w("Definition timestamp_max : N := %d.\n\n" % tmax)
        w("(* static variations: type, group, var, how the range writer writes it, promotion\n"
          "   (target var, bits removed from the flags before the comparison with ONLINE) *)\n")
        w("Inductive write_kind := WkBits | WkDoubleBits | WkFixed.\n")
        w("Definition static_vars : list (mtype * N * N * write_kind * option (N * N)) := [\n")
        lines = []
        for ty, var, kind, promote in sorted(stat, key=lambda r: key((r[0], r[1]))):
            g, v = gv(var)
            p = "None"
            if promote:
                pg, pv = gv(promote[0])
                if pg != g:
                    die("promotion of %s changes the group" % var)
                p = "(Some (%d, %d))" % (pv, promote[1])
            lines.append("  (%s, %d, %d, %s, %s)" % (TYPES[ty], g, v, kind, p))
        w(";\n".join(lines) + "].\n\n")
        w("(* event variations: type, group, var, uses_cto *)\n")
        w("Definition event_vars : list (mtype * N * N * bool) := [\n")
        lines = []
        for ty, var, is_cto in sorted(evt, key=lambda r: key((r[0], r[1]))):
            g, v = gv(var)
            lines.append("  (%s, %d, %d, %s)" % (TYPES[ty], g, v, "true" if is_cto else "false"))
        w(";\n".join(lines) + "].\n\n")
        w("(* write_cto: a new header is started when the synchronisation differs, the time is before\n"
          "   the header's CTO, or the difference exceeds this limit *)\n")
        w("Definition cto_max_gap : N := %d.\n\n" % gap)
        w("(* master dispatch: group, var, handler type, is_event, has_flags *)\n")
        w("Definition ranged_info : list (N * N * mtype * bool * bool) := [\n")
        lines = []
        for var in sorted(ranged, key=gv):
            g, v = gv(var)
            t, ie, hf = ranged[var]
            lines.append("  (%d, %d, %s, %s, %s)" % (g, v, t, str(ie).lower(), str(hf).lower()))
        w(";\n".join(lines) + "].\n")
        w("Definition prefixed_info : list (N * N * mtype * bool * bool) := [\n")
        lines = []
        for var in sorted(prefixed, key=gv):
            g, v = gv(var)
            t, _, ie, hf = prefixed[var]
            lines.append("  (%d, %d, %s, %s, %s)" % (g, v, t, str(ie).lower(), str(hf).lower()))
        w(";\n".join(lines) + "].\n")


if __name__ == "__main__":
    main()
