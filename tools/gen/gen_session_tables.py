#!/usr/bin/env python3
"""Translator: the tables of the outstation that coq/Outstation/{Session,Full}.v restate by hand
-> coq/gen/SessionTables.v   (checked against the hand-written model in coq/Outstation/TablesAgree.v)

  (a) `impl From<ObjectParseError> for Iin2`        dnp3/src/outstation/session.rs (+ the enum of app/parse_error.rs)
  (b) the IIN bit masks `Iin1::*`, `Iin2::*`        dnp3/src/app/header.rs (+ BIT_n of util/bit.rs), the order and the
      conditions of `get_response_iin` (session.rs), `impl BitOr<ApplicationIin> for Iin`, `impl From<RequestError>
      for Iin2` (header.rs), and the harness's coding of ApplicationIin / RequestError (/verif/harness/outstation.rs)
  (c) the dispatch of `handle_non_read`, of `handle_controls` (which control type is answered) and of
      `process_broadcast_get_action` (session.rs); function codes from `FunctionCode::as_u8` (app/app_enums.rs)
  (d) `ReadHeader::get`                              dnp3/src/outstation/database/read.rs composed with the variant each
      `Variation` is parsed to (app/gen/{all,count,ranged}.rs): (group, variation pattern) -> Some / None per family
  (e) `ParsedFragment::to_request` / `to_response`   dnp3/src/app/parse/parser.rs: the checks in order and their errors
  (f) defaults: `impl Default for <Point>Config` (outstation/database/config.rs), `ClassZeroConfig::default`,
      `EventBufferConfig::all_types` (outstation/database/mod.rs), `Features::default`, `OutstationConfig::new`
      (outstation/config.rs), the capacity of the deferred read (session.rs) and of the selection queue (static_db.rs)

Every construct is read with a CLOSED vocabulary: a statement, a match arm or a condition this file does not know
makes it stop with `gen_session_tables: ...` (a moved/renamed anchor: `pinned line not found in <file> (<what>)`).
The generated file holds data only (numbers, lists, small inductives)."""
import hashlib, json, os, re, struct, sys

REPO = os.environ.get("VERIF_REPO", "/repo")
HERE = os.path.dirname(os.path.abspath(__file__))
OUT = os.environ.get("VERIF_GEN_OUT") or os.path.join(HERE, "..", "..", "coq", "gen")
HARNESS = os.environ.get("VERIF_HARNESS") or os.path.join(HERE, "..", "..", "harness", "outstation.rs")

SOURCES = {}     # path -> sha256[:16] of every file read (recorded in session_tables.json)


def die(msg):
    sys.exit("gen_session_tables: " + msg)


def read(p):
    full = p if os.path.isabs(p) else os.path.join(REPO, p)
    if not os.path.exists(full):
        die("source file not found: " + p)
    data = open(full, "rb").read()
    SOURCES[p if not os.path.isabs(p) else "harness/" + os.path.basename(p)] = hashlib.sha256(data).hexdigest()[:16]
    return strip_comments(data.decode("utf-8"))


# ---- a small Rust scanner ---------------------------------------------------------------------------

def strip_comments(src):
    """removes // and /* */ comments (string literals are kept as they are)"""
    out, i, n = [], 0, len(src)
    while i < n:
        c = src[i]
        if c == '"':
            j = i + 1
            while j < n and src[j] != '"':
                j += 2 if src[j] == "\\" else 1
            out.append(src[i:j + 1]); i = j + 1
        elif src.startswith("//", i):
            j = src.find("\n", i)
            i = n if j < 0 else j
        elif src.startswith("/*", i):
            j = src.find("*/", i)
            i = n if j < 0 else j + 2
        else:
            out.append(c); i += 1
    return "".join(out)


OPEN, CLOSE = "([{", ")]}"


def skip_string(s, i):
    j = i + 1
    while j < len(s) and s[j] != '"':
        j += 2 if s[j] == "\\" else 1
    return j + 1


def closer(s, i, what):
    """index of the bracket that closes the one at s[i]"""
    depth = 0
    j = i
    while j < len(s):
        c = s[j]
        if c == '"':
            j = skip_string(s, j); continue
        if c in OPEN: depth += 1
        elif c in CLOSE:
            depth -= 1
            if depth == 0:
                return j
        j += 1
    die("unbalanced brackets in " + what)


def block_after(src, anchor_regex, path, what):
    """the text between the braces of the block whose header matches anchor_regex (exactly once)"""
    ms = list(re.finditer(anchor_regex, src))
    if len(ms) != 1:
        die("pinned line not found in %s (%s): /%s/ matches %d times" % (path, what, anchor_regex, len(ms)))
    i = src.find("{", ms[0].end() - 1)
    if i < 0:
        die("pinned line not found in %s (%s): no block follows" % (path, what))
    return src[i + 1:closer(src, i, what)]


def norm(s):
    s = " ".join(s.split())
    s = re.sub(r",\s*([)\]])", r"\1", s)           # trailing commas of rustfmt's multi-line calls
    s = re.sub(r",\s*\}", " }", s)
    s = re.sub(r"([(\[])\s+", r"\1", s)
    s = re.sub(r"\s+([)\]])", r"\1", s)
    s = re.sub(r"\s+\.", ".", s)
    return s


def unbrace(s):
    s = s.strip()
    while s.startswith("{") and closer(s, 0, "arm") == len(s) - 1:
        s = s[1:-1].strip()
    return s


def match_arms(body, head_regex, path, what):
    """the arms `pattern => rhs` of the match introduced by head_regex inside body, in order"""
    ms = list(re.finditer(head_regex, body))
    if len(ms) != 1:
        die("pinned line not found in %s (%s): /%s/ matches %d times" % (path, what, head_regex, len(ms)))
    i = body.find("{", ms[0].end() - 1)
    text = body[i + 1:closer(body, i, what)]
    arms, j, n = [], 0, len(text)
    while True:
        while j < n and text[j] in " \t\r\n,":
            j += 1
        if j >= n:
            break
        k, depth = j, 0
        while k < n:
            c = text[k]
            if c == '"':
                k = skip_string(text, k); continue
            if c in OPEN: depth += 1
            elif c in CLOSE: depth -= 1
            elif depth == 0 and text.startswith("=>", k):
                break
            k += 1
        if k >= n:
            die("%s: text after the last arm of %s: %r" % (path, what, text[j:j + 60]))
        pat = norm(text[j:k])
        k += 2
        while text[k] in " \t\r\n":
            k += 1
        if text[k] == "{":
            e = closer(text, k, what)
            rhs, j = text[k:e + 1], e + 1
        else:
            e, depth = k, 0
            while e < n:
                c = text[e]
                if c == '"':
                    e = skip_string(text, e); continue
                if c in OPEN: depth += 1
                elif c in CLOSE: depth -= 1
                elif c == "," and depth == 0:
                    break
                e += 1
            rhs, j = text[k:e], e + 1
        arms.append((pat, norm(unbrace(rhs))))
    if not arms:
        die("%s: no arms in %s" % (path, what))
    return arms


def statements(body, what):
    """top-level statements of a block: `...;`, a braced statement (if / match / for), or the final expression"""
    out, j, n = [], 0, len(body)
    while True:
        while j < n and body[j] in " \t\r\n":
            j += 1
        if j >= n:
            break
        k, depth = j, 0
        braced = re.match(r"(if|match|for|while|loop)\b", body[j:]) is not None
        while k < n:
            c = body[k]
            if c == '"':
                k = skip_string(body, k); continue
            if c in OPEN:
                if c == "{" and depth == 0 and braced:
                    k = closer(body, k, what)
                    rest = body[k + 1:].lstrip()
                    if rest.startswith("else"):
                        k += 1; continue
                    break
                depth += 1
            elif c in CLOSE: depth -= 1
            elif c == ";" and depth == 0:
                break
            k += 1
        out.append(norm(body[j:k + 1]))
        j = k + 1
    return out


def split_args(s):
    out, depth, cur = [], 0, ""
    for c in s:
        if c in OPEN: depth += 1
        elif c in CLOSE: depth -= 1
        if c == "," and depth == 0:
            out.append(cur.strip()); cur = ""
        else:
            cur += c
    if cur.strip():
        out.append(cur.strip())
    return out


def num(txt):
    txt = txt.replace("_", "")
    if txt.startswith("0x"): return int(txt, 16)
    if txt.startswith("0b"): return int(txt, 2)
    return int(txt)


def pin(src, text, path, what):
    if norm(text) not in norm(src):
        die("pinned line not found in %s (%s): %s" % (path, what, text))


def snake(n):
    return re.sub(r"(?<!^)(?=[A-Z])", "_", n).lower()


# ---- Coq output helpers -------------------------------------------------------------------------------

def coq_list(rows, indent="  "):
    if not rows:
        return "[]"
    return "[\n" + ";\n".join(indent + r for r in rows) + "]"


def coq_bool(b):
    return "true" if b else "false"


# ================================================================================================
S_RS = "dnp3/src/outstation/session.rs"
H_RS = "dnp3/src/app/header.rs"


def function_codes():
    path = "dnp3/src/app/app_enums.rs"
    src = read(path)
    i = src.find("pub enum FunctionCode")
    if i < 0:
        die("pinned line not found in %s (enum FunctionCode)" % path)
    fsrc = src[i:]
    frm = re.findall(r"(\d+) => Some\(FunctionCode::(\w+)\),", fsrc)
    back = re.findall(r"FunctionCode::(\w+) => (\d+),", fsrc)
    codes = dict((n, int(c)) for n, c in back)
    if not codes or dict((n, int(c)) for c, n in frm) != codes:
        die("%s: FunctionCode::from / as_u8 have unexpected shapes" % path)
    return codes


def iin_masks():
    bsrc = read("dnp3/src/util/bit.rs")
    bits = dict((int(k), num(v)) for k, v in
                re.findall(r"pub\(crate\) const BIT_(\d): BitMask = BitMask \{ value: (0b[01_]+) \};", bsrc))
    if sorted(bits) != list(range(8)):
        die("pinned line not found in dnp3/src/util/bit.rs (BIT_0..BIT_7)")
    hsrc = read(H_RS)
    out = {}
    for ty in ("Iin1", "Iin2"):
        body = block_after(hsrc, r"\nimpl %s \{" % ty, H_RS, "impl " + ty)
        consts = re.findall(r"pub const (\w+): %s = %s::new\(BIT_(\d)\.value\);" % (ty, ty), body)
        if not consts or len(consts) != len(re.findall(r"pub const \w+:", body)):
            die("%s: impl %s holds a constant of an unexpected shape" % (H_RS, ty))
        out[ty] = [(n, bits[int(b)]) for n, b in consts]
        pin(body, "pub const fn new(value: u8) -> Self { Self { value } }", H_RS, ty + "::new")
    pin(hsrc, "fn bitor(self, rhs: Iin1) -> Self::Output { Self::new(self.value | rhs.value) }", H_RS, "Iin1 | Iin1")
    pin(hsrc, "fn bitor(self, rhs: Iin2) -> Self::Output { Self::new(self.value | rhs.value) }", H_RS, "Iin2 | Iin2")
    pin(hsrc, "fn bitor(self, rhs: Iin1) -> Self::Output { Self { iin1: self.iin1 | rhs, iin2: self.iin2 } }", H_RS, "Iin | Iin1")
    pin(hsrc, "fn bitor(self, rhs: Iin2) -> Self::Output { Self { iin1: self.iin1, iin2: self.iin2 | rhs } }", H_RS, "Iin | Iin2")
    return out


def mask_of(masks, ty, name, where):
    for n, v in masks[ty]:
        if n == name:
            return v
    die("%s: unknown constant %s::%s" % (where, ty, name))


IIN_CONDS = [  # closed vocabulary: condition text -> constructor
    ("self.state.restart_iin_asserted", "TbRestartAsserted"),
    ("events_info.unwritten_classes.class1", "TbUnwrittenClass1"),
    ("events_info.unwritten_classes.class2", "TbUnwrittenClass2"),
    ("events_info.unwritten_classes.class3", "TbUnwrittenClass3"),
    ("events_info.is_overflown", "TbOverflown"),
    ("let Some(mode) = self.state.last_broadcast_type", "TbBroadcastPending"),
    ("rhs.need_time", "TbAppNeedTime"),
    ("rhs.local_control", "TbAppLocalControl"),
    ("rhs.device_trouble", "TbAppDeviceTrouble"),
    ("rhs.config_corrupt", "TbAppConfigCorrupt"),
]


def response_iin(masks):
    ssrc = read(S_RS)
    hsrc = read(H_RS)
    conds = dict(IIN_CONDS)
    app_rows = []
    body = block_after(hsrc, r"impl BitOr<ApplicationIin> for Iin \{", H_RS, "impl BitOr<ApplicationIin> for Iin")
    body = block_after(body, r"fn bitor\(mut self, rhs: ApplicationIin\) -> Self::Output \{", H_RS, "Iin | ApplicationIin")
    for st in statements(body, "Iin | ApplicationIin"):
        m = re.fullmatch(r"if (rhs\.\w+) \{ self \|= (Iin[12])::(\w+); \}", st)
        if m and m.group(1) in conds:
            app_rows.append((conds[m.group(1)], int(m.group(2)[3]), mask_of(masks, m.group(2), m.group(3), H_RS)))
        elif st != "self":
            die("%s: unexpected statement in `impl BitOr<ApplicationIin> for Iin`: %s" % (H_RS, st))
    if len(app_rows) != 4:
        die("%s: `impl BitOr<ApplicationIin> for Iin` does not set four bits" % H_RS)
    rows = []
    body = block_after(ssrc, r"fn get_response_iin\(&mut self, database: &DatabaseHandle\) -> Iin \{", S_RS, "get_response_iin")
    sts = statements(body, "get_response_iin")
    if sts[0] != "let mut iin = Iin::default();" or sts[-1] != "iin":
        die("%s: get_response_iin does not start from Iin::default() / does not return iin" % S_RS)
    for st in sts[1:-1]:
        if st == "let events_info = database.get_events_info();":
            continue
        if st == "iin |= self.application.get_application_iin();":
            rows += app_rows
            continue
        m = re.fullmatch(r"if (.+?) \{ iin \|= (Iin[12])::(\w+);? \}", st)
        if m and m.group(1) in conds and not m.group(1).startswith("let "):
            rows.append((conds[m.group(1)], int(m.group(2)[3]), mask_of(masks, m.group(2), m.group(3), S_RS)))
            continue
        m = re.fullmatch(r"if (let Some\(mode\) = self\.state\.last_broadcast_type) \{ iin \|= (Iin[12])::(\w+); "
                         r"if mode != BroadcastConfirmMode::Mandatory \{ self\.state\.last_broadcast_type = None; \} \}", st)
        if m:
            rows.append((conds[m.group(1)], int(m.group(2)[3]), mask_of(masks, m.group(2), m.group(3), S_RS)))
            continue
        die("%s: unexpected statement in get_response_iin: %s" % (S_RS, st))
    if len(set(r[0] for r in rows)) != len(rows):
        die("%s: get_response_iin tests a condition twice" % S_RS)
    # From<RequestError> for Iin2
    body = block_after(hsrc, r"impl From<RequestError> for Iin2 \{", H_RS, "impl From<RequestError> for Iin2")
    reqerr = []
    for pat, rhs in match_arms(body, r"match from \{", H_RS, "From<RequestError> for Iin2"):
        m, r = re.fullmatch(r"RequestError::(\w+)", pat), re.fullmatch(r"Iin2::(\w+)", rhs)
        if not m or not r:
            die("%s: unexpected arm in From<RequestError> for Iin2: %s => %s" % (H_RS, pat, rhs))
        reqerr.append((m.group(1), mask_of(masks, "Iin2", r.group(1), H_RS)))
    # the harness's coding of the application's answers (part of /verif, read so that the model's coding is tied too)
    hs = read(HARNESS)
    body = block_after(hs, r"fn get_application_iin\(&self\) -> ApplicationIin \{", "harness/outstation.rs", "get_application_iin")
    coding = []
    for field, bit in re.findall(r"(\w+): b & (\d+) != 0,", body):
        if "rhs." + field not in conds:
            die("harness/outstation.rs: unknown ApplicationIin field " + field)
        coding.append((conds["rhs." + field], int(bit)))
    if len(coding) != 4:
        die("pinned line not found in harness/outstation.rs (get_application_iin: four `field: b & n != 0`)")
    body = block_after(hs, r"fn req_result\(code: u8\) -> Result<\(\), RequestError> \{", "harness/outstation.rs", "req_result")
    rr = []
    for pat, rhs in match_arms(body, r"match code \{", "harness/outstation.rs", "req_result"):
        m = re.fullmatch(r"Err\(RequestError::(\w+)\)", rhs)
        if rhs == "Ok(())" and pat.isdigit():
            rr.append((pat, None))
        elif m and (pat.isdigit() or pat == "_"):
            rr.append((pat, m.group(1)))
        else:
            die("harness/outstation.rs: unexpected arm in req_result: %s => %s" % (pat, rhs))
    return rows, reqerr, coding, rr


def obj_err_iin2(masks):
    ssrc = read(S_RS)
    body = block_after(ssrc, r"impl From<ObjectParseError> for Iin2 \{", S_RS, "impl From<ObjectParseError> for Iin2")
    body = block_after(body, r"fn from\(err: ObjectParseError\) -> Self \{", S_RS, "From<ObjectParseError>::from")
    rows = []
    for pat, rhs in match_arms(body, r"match err \{", S_RS, "From<ObjectParseError> for Iin2"):
        m = re.fullmatch(r"ObjectParseError::(\w+)(?:\(_(?:, _)*\))?", pat)
        if not m:
            die("%s: unexpected pattern in From<ObjectParseError> for Iin2: %s" % (S_RS, pat))
        v = 0
        for part in rhs.split("|"):
            r = re.fullmatch(r"Iin2::(\w+)", part.strip())
            if not r:
                die("%s: unexpected right-hand side in From<ObjectParseError> for Iin2: %s" % (S_RS, rhs))
            v |= mask_of(masks, "Iin2", r.group(1), S_RS)
        rows.append((m.group(1), v))
    esrc = read("dnp3/src/app/parse_error.rs")
    ebody = block_after(esrc, r"pub enum ObjectParseError \{", "dnp3/src/app/parse_error.rs", "enum ObjectParseError")
    variants = re.findall(r"^\s*(\w+)(?:\([^)]*\))?,\s*$", ebody, re.M)
    if sorted(variants) != sorted(n for n, _ in rows) or len(set(variants)) != len(rows):
        die("%s: From<ObjectParseError> for Iin2 does not cover the enum arm by arm: %s"
            % (S_RS, sorted(set(variants) ^ set(n for n, _ in rows))))
    order = dict((n, i) for i, n in enumerate(variants))
    rows.sort(key=lambda r: order[r[0]])
    return rows


HANDLERS = [  # closed vocabulary of the calls in the arms of handle_non_read / process_broadcast_get_action
    (r"self\.handle_write\(seq, (?:object_headers|objects), database\)\.await", lambda m: "TbHandleWrite"),
    (r"self\.handle_delay_measure\(seq\)", lambda m: "TbHandleDelayMeasure"),
    (r"self\.handle_record_current_time\(seq\)", lambda m: "TbHandleRecordCurrentTime"),
    (r"self\.handle_controls\(ControlType::(\w+), database, seq, frame_id, (?:object_headers|objects)\)\.await",
     lambda m: "TbHandleControls Tb" + m.group(1)),
    (r"self\.handle_freeze\(database, seq, (?:object_headers|objects), FreezeType::(\w+)\)",
     lambda m: "TbHandleFreeze Tb" + m.group(1)),
    (r"self\.handle_freeze_at_time\(database, seq, (?:object_headers|objects)\)", lambda m: "TbHandleFreezeAtTime"),
    (r"self\.handle_enable_or_disable_unsolicited\((true|false), seq, (?:object_headers|objects)\)",
     lambda m: "TbHandleEnableOrDisableUnsolicited " + m.group(1)),
]


def handler_of(call, where):
    for rx, f in HANDLERS:
        m = re.fullmatch(rx, call)
        if m:
            return f(m)
    die("%s: unknown handler call: %s" % (where, call))


def dispatch(masks, codes):
    ssrc = read(S_RS)
    ctypes = re.findall(r"(\w+),", block_after(ssrc, r"\nenum ControlType \{", S_RS, "enum ControlType"))
    tsrc = read("dnp3/src/outstation/traits.rs")
    ftypes = [v for v in re.findall(r"^\s*(\w+)(?:\([^)]*\))?,\s*$", block_after(tsrc, r"pub enum FreezeType \{",
              "dnp3/src/outstation/traits.rs", "enum FreezeType"), re.M)]
    # ---- handle_non_read
    body = block_after(ssrc, r"async fn handle_non_read\(\s*&mut self,\s*database: &mut DatabaseHandle,\s*function: FunctionCode,"
                             r"\s*seq: Sequence,\s*frame_id: u32,\s*object_headers: HeaderCollection<'_>,?\s*\) -> Option<Response> \{",
                       S_RS, "handle_non_read")
    nr, default = [], None
    for pat, rhs in match_arms(body, r"let mut result = match function \{", S_RS, "handle_non_read: match function"):
        if pat == "_":
            m = re.fullmatch(r'tracing::warn!\("unsupported function code: \{:\?\}", function\); '
                             r"Some\(Response::empty_solicited\(seq, Iin::default\(\) \| Iin2::(\w+)\)\)", rhs)
            if not m:
                die("%s: unexpected default arm in handle_non_read: %s" % (S_RS, rhs))
            default = mask_of(masks, "Iin2", m.group(1), S_RS)
            continue
        if default is not None:
            die("%s: handle_non_read has an arm after `_`" % S_RS)
        m = re.fullmatch(r"FunctionCode::(\w+)", pat)
        if not m or m.group(1) not in codes:
            die("%s: unexpected pattern in handle_non_read: %s" % (S_RS, pat))
        fn = m.group(1)
        r = re.fullmatch(r"let delay = self\.application\.(cold|warm)_restart\(\); Some\(self\.handle_restart\(seq, delay\)\)", rhs)
        if r:
            nr.append((fn, "TbHandleRestart " + coq_bool(r.group(1) == "cold"), "TbReplyAlways")); continue
        r = re.fullmatch(r"Some\((.*)\)", rhs)
        if r:
            nr.append((fn, handler_of(r.group(1), S_RS), "TbReplyAlways")); continue
        r = re.fullmatch(r"(.*); None", rhs)
        if r:
            nr.append((fn, handler_of(r.group(1), S_RS), "TbReplyNever")); continue
        h = handler_of(rhs, S_RS)
        if not h.startswith("TbHandleControls "):
            die("%s: handle_non_read returns the result of %s unwrapped" % (S_RS, rhs))
        nr.append((fn, h, "TbReplyByHandler"))
    if default is None:
        die("%s: handle_non_read has no `_` arm" % S_RS)
    if len(set(r[0] for r in nr)) != len(nr):
        die("%s: handle_non_read names a function code twice" % S_RS)
    sts = statements(body, "handle_non_read")
    if len(sts) != 3 or sts[1] != "if let Some(response) = &mut result { response.header.iin |= Self::get_iin2(function, object_headers); }" \
            or sts[2] != "result":
        die("pinned line not found in %s (handle_non_read: `result`, get_iin2 ORed into a present response, `result`)" % S_RS)
    body = block_after(ssrc, r"fn get_iin2\(function: FunctionCode, object_headers: HeaderCollection\) -> Iin2 \{", S_RS, "get_iin2")
    m = re.fullmatch(r"if function\.get_function_info\(\)\.objects_allowed \{ return Iin2::default\(\); \} "
                     r'if object_headers\.is_empty\(\) \{ Iin2::default\(\) \} else \{ tracing::warn!\("[^"]*", function\); Iin2::(\w+) \}',
                     " ".join(statements(body, "get_iin2")))
    if not m:
        die("pinned line not found in %s (get_iin2: objects_allowed / is_empty / else Iin2::X)" % S_RS)
    not_allowed = mask_of(masks, "Iin2", m.group(1), S_RS)
    # ---- handle_controls: which control type is answered
    body = block_after(ssrc, r"async fn handle_controls\(\s*&mut self,\s*ct: ControlType,", S_RS, "handle_controls")
    sts = statements(body, "handle_controls")
    if len(sts) != 2 or not sts[0].startswith("let controls = match ControlCollection::from(object_headers) {") \
            or not sts[1].startswith("match ct {"):
        die("pinned line not found in %s (handle_controls: `let controls = match ControlCollection::from(..)`, `match ct`)" % S_RS)
    m = re.search(r"let err = Some\(Response::empty_solicited\(seq, Iin::default\(\) \| Iin2::(\w+)\)\);", sts[0])
    if not m or "Ok(controls) => controls" not in sts[0]:
        die("pinned line not found in %s (handle_controls: the error response)" % S_RS)
    bad_iin2 = mask_of(masks, "Iin2", m.group(1), S_RS)
    on_err, on_ok = {}, {}
    for pat, rhs in match_arms(sts[0], r"return match ct \{", S_RS, "handle_controls: return match ct"):
        m = re.fullmatch(r"ControlType::(\w+)", pat)
        if not m or rhs not in ("err", "None"):
            die("%s: unexpected arm in handle_controls (error path): %s => %s" % (S_RS, pat, rhs))
        on_err[m.group(1)] = rhs == "err"
    for pat, rhs in match_arms(sts[1], r"^match ct \{", S_RS, "handle_controls: match ct"):
        m = re.fullmatch(r"ControlType::(\w+)", pat)
        a = re.fullmatch(r"Some\(self\.handle_\w+\((?:database, seq, frame_id, controls|database, seq, controls)\)\.await\)", rhs)
        b = re.fullmatch(r"self\.handle_\w+\(database, controls\)\.await; None", rhs)
        if not m or not (a or b):
            die("%s: unexpected arm in handle_controls: %s => %s" % (S_RS, pat, rhs))
        on_ok[m.group(1)] = bool(a)
    if sorted(on_err) != sorted(ctypes) or sorted(on_ok) != sorted(ctypes):
        die("%s: handle_controls does not cover ControlType" % S_RS)
    # ---- broadcast
    body = block_after(ssrc, r"async fn process_broadcast_get_action\(\s*&mut self,\s*frame_id: u32,\s*database: &mut DatabaseHandle,"
                             r"\s*request: Request<'_>,?\s*\) -> BroadcastAction \{", S_RS, "process_broadcast_get_action")
    sts = statements(body, "process_broadcast_get_action")
    if len(sts) != 4 \
       or not re.fullmatch(r'if self\.config\.broadcast\.is_disabled\(\) \{ tracing::warn!\("[^"]*", request\.header\.function\); '
                           r"return BroadcastAction::IgnoredByConfiguration; \}", sts[0]) \
       or not re.fullmatch(r'let objects = match request\.objects \{ Ok\(x\) => x, Err\(err\) => \{ tracing::warn!\("[^"]*", err\); '
                           r"return BroadcastAction::BadObjectHeaders; \} \};", sts[1]) \
       or sts[2] != "let seq = request.header.control.seq;" or not sts[3].startswith("match request.header.function {"):
        die("pinned line not found in %s (process_broadcast_get_action: disabled / bad object headers / seq / match)" % S_RS)
    bc, seen_default = [], False
    for pat, rhs in match_arms(sts[3], r"^match request\.header\.function \{", S_RS, "process_broadcast_get_action: match"):
        if pat == "_":
            if not re.fullmatch(r'tracing::warn!\("[^"]*", request\.header\.function\); '
                                r"BroadcastAction::UnsupportedFunction\(request\.header\.function\)", rhs):
                die("%s: unexpected default arm in process_broadcast_get_action: %s" % (S_RS, rhs))
            seen_default = True
            continue
        m = re.fullmatch(r"FunctionCode::(\w+)", pat)
        r = re.fullmatch(r"(.*); BroadcastAction::Processed", rhs)
        if not m or m.group(1) not in codes or not r or seen_default:
            die("%s: unexpected arm in process_broadcast_get_action: %s => %s" % (S_RS, pat, rhs))
        bc.append((m.group(1), handler_of(r.group(1), S_RS)))
    if not seen_default:
        die("%s: process_broadcast_get_action has no `_` arm" % S_RS)
    body = block_after(ssrc, r"async fn process_broadcast\(", S_RS, "process_broadcast")
    pin(body, "self.state.last_broadcast_type = Some(mode); self.state.broadcast_reported_by = None; let action = self "
              ".process_broadcast_get_action(frame_id, database, request) .await; self.info "
              ".broadcast_received(request.header.function, action); action", S_RS, "process_broadcast")
    for _, h, _ in nr:
        for w in h.split()[1:]:
            if w.startswith("Tb") and w[2:] not in ctypes + ftypes:
                die("%s: %s is neither a ControlType nor a FreezeType" % (S_RS, w[2:]))
    return dict(ctypes=ctypes, ftypes=ftypes, non_read=nr, default=default, not_allowed=not_allowed,
                bad_iin2=bad_iin2, controls=[(c, on_err[c], on_ok[c]) for c in ctypes], broadcast=bc)


# ---- (d) read headers ------------------------------------------------------------------------------

def variant_gv():
    path = "dnp3/src/app/variations.rs"
    src = read(path)
    body = block_after(src, r"pub\(crate\) fn to_group_and_var\(self\) -> \(u8, u8\) \{", path, "to_group_and_var")
    gv = {}
    for m in re.finditer(r"Variation::(\w+) => \((\d+), (\d+)\),", body):
        gv[m.group(1)] = (int(m.group(2)), int(m.group(3)))
    for m in re.finditer(r"Variation::(\w+)\(x\) => \((\d+), x\),", body):
        gv[m.group(1)] = (int(m.group(2)), None)
    if not gv:
        die("%s: to_group_and_var has an unexpected shape" % path)
    return gv


def vpattern(pat, gv, where):
    m = re.fullmatch(r"Variation::(\w+)(?:\((\w+)\))?", pat)
    if not m or m.group(1) not in gv:
        die("%s: unknown variation pattern %s" % (where, pat))
    g, v = gv[m.group(1)]
    arg = m.group(2)
    if arg is None:
        if v is None: die("%s: wildcard variant used without argument: %s" % (where, pat))
        return g, "TbExact %d" % v
    if v is not None:
        die("%s: named variant used with an argument: %s" % (where, pat))
    return g, ("TbExact %d" % int(arg)) if arg.isdigit() else "TbAny"


def produced(rhs, wrapper, enum, where):
    """`Ok(Enum::Variant(args))` -> (Variant, [args])"""
    if not (rhs.startswith(wrapper + "(") and rhs.endswith(")")):
        die("%s: unexpected right-hand side %s" % (where, rhs))
    inner = rhs[len(wrapper) + 1:-1]
    m = re.fullmatch(r"%s::(\w+)(?:\((.*)\))?" % enum, inner)
    if not m:
        die("%s: unexpected right-hand side %s" % (where, rhs))
    return m.group(1), split_args(m.group(2)) if m.group(2) is not None else []


def arg_matches(pat, arg):
    if pat == "None": return arg == "None"
    if pat == "Some(_)": return arg.startswith("Some(")
    return re.fullmatch(r"_|\w+", pat) is not None and pat not in ("None",)


def read_headers():
    gv = variant_gv()
    R_RS = "dnp3/src/outstation/database/read.rs"
    rsrc = read(R_RS)
    impl = block_after(rsrc, r"\nimpl ReadHeader \{", R_RS, "impl ReadHeader")
    body = block_after(impl, r"pub\(crate\) fn get\(header: &ObjectHeader\) -> Option<ReadHeader> \{", R_RS, "ReadHeader::get")
    sts = statements(body, "ReadHeader::get")
    if len(sts) != 3 or sts[0] != "let res = Self::get_impl(&header.details);" or not sts[1].startswith("if res.is_none() { tracing::warn!(") \
            or sts[2] != "res":
        die("pinned line not found in %s (ReadHeader::get returns get_impl(&header.details))" % R_RS)
    body = block_after(impl, r"fn get_impl\(header: &HeaderDetails\) -> Option<ReadHeader> \{", R_RS, "ReadHeader::get_impl")
    SRC = {"Self::from_all_objects(x)": "TbFromAllObjects", "Self::from_count(x, *count as usize)": "TbFromCount",
           "Self::from_range(x, IndexRange::new(*start as u16, *stop as u16))": "TbFromRange",
           "Self::from_range(x, IndexRange::new(*start, *stop))": "TbFromRange", "None": "TbNever"}
    kinds = []
    for pat, rhs in match_arms(body, r"match header \{", R_RS, "ReadHeader::get_impl"):
        m = re.fullmatch(r"HeaderDetails::(\w+)\(([^)]*)\)", pat)
        if not m or rhs not in SRC:
            die("%s: unexpected arm in ReadHeader::get_impl: %s => %s" % (R_RS, pat, rhs))
        kinds.append((m.group(1), SRC[rhs]))
    want = ["AllObjects", "OneByteCount", "TwoByteCount", "OneByteStartStop", "TwoByteStartStop",
            "OneByteCountAndPrefix", "TwoByteCountAndPrefix", "TwoByteFreeFormat"]
    if sorted(k for k, _ in kinds) != sorted(want):
        die("%s: ReadHeader::get_impl does not cover HeaderDetails: %s" % (R_RS, [k for k, _ in kinds]))

    def consumer(fn_regex, match_regex, enum, what):
        b = block_after(impl, fn_regex, R_RS, what)
        arms = []
        for pat, rhs in match_arms(b, match_regex, R_RS, what):
            m = re.fullmatch(r"%s::(\w+)(?:\((.*)\))?" % enum, pat)
            if not m:
                die("%s: unexpected pattern in %s: %s" % (R_RS, what, pat))
            if rhs == "None": some = False
            elif rhs.startswith("Some(") and rhs.endswith(")"): some = True
            else: die("%s: unexpected right-hand side in %s: %s => %s" % (R_RS, what, pat, rhs))
            arms.append([m.group(1), split_args(m.group(2)) if m.group(2) is not None else [], some, 0])
        return arms

    def compose(producers, arms, what):
        rows = []
        for g, vp, (variant, args) in producers:
            hit = None
            for a in arms:
                if a[0] == variant and len(a[1]) == len(args) and all(arg_matches(p, x) for p, x in zip(a[1], args)):
                    hit = a; break
            if hit is None:
                die("%s: %s has no arm for %s(%s)" % (R_RS, what, variant, ", ".join(args)))
            hit[3] += 1
            rows.append((g, vp, hit[2]))
        return rows

    def producer(path, fn_regex, wrapper, enum, what, default_ok):
        src = read(path)
        b = block_after(src, fn_regex, path, what)
        out, seen_default = [], False
        for pat, rhs in match_arms(b, r"match v \{", path, what):
            if pat == "_":
                if not default_ok(rhs):
                    die("%s: unexpected default arm in %s: %s" % (path, what, rhs))
                seen_default = True
                continue
            g, vp = vpattern(pat, gv, path)
            out.append((g, vp, produced(rhs, wrapper, enum, path + " " + what)))
        if not seen_default:
            die("%s: %s has no `_` arm" % (path, what))
        return out

    invalid = lambda rhs: rhs == "Err(ObjectParseError::InvalidQualifierForVariation(v, qualifier))"
    p_all = producer("dnp3/src/app/gen/all.rs", r"pub\(crate\) fn get\(v: Variation\) -> Option<AllObjectsVariation> \{",
                     "Some", "AllObjectsVariation", "AllObjectsVariation::get", lambda rhs: rhs == "None")
    p_count = producer("dnp3/src/app/gen/count.rs", r"pub\(crate\) fn parse\(v: Variation, qualifier: QualifierCode, count: u16, "
                       r"cursor: &mut ReadCursor<'a>\) -> Result<CountVariation<'a>, ObjectParseError> \{",
                       "Ok", "CountVariation", "CountVariation::parse", invalid)
    p_rr = producer("dnp3/src/app/gen/ranged.rs", r"pub\(crate\) fn parse_read\(v: Variation, qualifier: QualifierCode\) -> "
                    r"Result<RangedVariation<'a>, ObjectParseError> \{", "Ok", "RangedVariation", "RangedVariation::parse_read", invalid)
    p_rn = producer("dnp3/src/app/gen/ranged.rs", r"pub\(crate\) fn parse_non_read\(v: Variation, qualifier: QualifierCode, range: Range, "
                    r"options: ParseOptions, cursor: &mut ReadCursor<'a>\) -> Result<RangedVariation<'a>, ObjectParseError> \{",
                    "Ok", "RangedVariation", "RangedVariation::parse_non_read", invalid)
    pin(read("dnp3/src/app/parse/parser.rs"), "FunctionCode::Read => Self::parse_read(v, qualifier), "
        "_ => Self::parse_non_read(v, qualifier, range, options, cursor)", "dnp3/src/app/parse/parser.rs", "READ uses parse_read")
    a_all = consumer(r"fn from_all_objects\(header: &AllObjectsVariation\) -> Option<ReadHeader> \{", r"match header \{",
                     "AllObjectsVariation", "ReadHeader::from_all_objects")
    a_count = consumer(r"fn from_count\(header: &CountVariation, count: usize\) -> Option<ReadHeader> \{", r"match header \{",
                       "CountVariation", "ReadHeader::from_count")
    a_range = consumer(r"fn from_range\(header: &RangedVariation, range: IndexRange\) -> Option<ReadHeader> \{", r"match header \{",
                       "RangedVariation", "ReadHeader::from_range")
    t_all = compose(p_all, a_all, "ReadHeader::from_all_objects")
    t_count = compose(p_count, a_count, "ReadHeader::from_count")
    t_rr = compose(p_rr, a_range, "ReadHeader::from_range")
    t_rn = compose(p_rn, a_range, "ReadHeader::from_range")
    for arms, what in ((a_all, "from_all_objects"), (a_count, "from_count"), (a_range, "from_range")):
        for a in arms:
            if a[3] == 0:
                die("%s: the arm %s(%s) of ReadHeader::%s matches nothing the parser produces" % (R_RS, a[0], ", ".join(a[1]), what))
    return dict(kinds=[(k, dict(kinds)[k]) for k in want], all=t_all, count=t_count, range_read=t_rr, range_non_read=t_rn)


# ---- (e) to_request / to_response --------------------------------------------------------------------

def validation(codes):
    P_RS = "dnp3/src/app/parse/parser.rs"
    psrc = read(P_RS)
    body = block_after(psrc, r"pub\(crate\) fn to_request\(self\) -> Result<Request<'a>, RequestValidationError> \{", P_RS, "to_request")
    RQ = {"self.iin.is_some()": "TbRqIinPresent", "!(self.control.is_fir_and_fin())": "TbRqNotFirAndFin",
          "self.control.uns && self.function != FunctionCode::Confirm": "TbRqUnsAndNotConfirm"}
    sts = statements(body, "to_request")
    rq = []
    for st in sts[:-1]:
        m = re.fullmatch(r"if (.+?) \{ return Err\(RequestValidationError::(\w+)(?:\(self\.function\))?\); \}", st)
        if not m or m.group(1) not in RQ:
            die("%s: unexpected statement in to_request: %s" % (P_RS, st))
        rq.append((RQ[m.group(1)], "TbRq" + m.group(2)))
    if not sts[-1].startswith("Ok(Request {") or not rq:
        die("pinned line not found in %s (to_request ends with Ok(Request {..}))" % P_RS)
    body = block_after(psrc, r"pub\(crate\) fn to_response\(self\) -> Result<Response<'a>, ResponseValidationError> \{", P_RS, "to_response")
    sts = statements(body, "to_response")
    RS = {"!function.is_unsolicited() && self.control.uns": "TbRsSolicitedWithUns",
          "function.is_unsolicited() && !self.control.uns": "TbRsUnsolicitedWithoutUns",
          "function.is_unsolicited() && !self.control.is_fir_and_fin()": "TbRsUnsolicitedNotFirAndFin"}
    if not sts[0].startswith("let (function, iin) = match (self.function, self.iin) {") or not sts[-1].startswith("Ok(Response {"):
        die("pinned line not found in %s (to_response: `let (function, iin) = match (self.function, self.iin)` ... Ok(Response {..}))" % P_RS)
    rfuncs, rs = [], []
    for pat, rhs in match_arms(sts[0], r"match \(self\.function, self\.iin\) \{", P_RS, "to_response: match"):
        m = re.fullmatch(r"\(FunctionCode::(\w+), Some\(x\)\)", pat)
        r = re.fullmatch(r"\(ResponseFunction::(\w+), x\)", rhs)
        if m and r and m.group(1) == r.group(1) and m.group(1) in codes:
            rfuncs.append(m.group(1))
        elif pat == "_" and (r2 := re.fullmatch(r"return Err\(ResponseValidationError::(\w+)\(self\.function\)\)", rhs)):
            rs.append(("TbRsNotResponseWithIin", "TbRs" + r2.group(1)))
        else:
            die("%s: unexpected arm in to_response: %s => %s" % (P_RS, pat, rhs))
    if len(rs) != 1:
        die("%s: to_response has no `_` arm" % P_RS)
    for st in sts[1:-1]:
        m = re.fullmatch(r"if (.+?) \{ return Err\(ResponseValidationError::(\w+)\); \}", st)
        if not m or m.group(1) not in RS:
            die("%s: unexpected statement in to_response: %s" % (P_RS, st))
        rs.append((RS[m.group(1)], "TbRs" + m.group(2)))
    # which response function is the unsolicited one
    esrc = read("dnp3/src/app/header.rs")
    body = block_after(esrc, r"pub fn is_unsolicited\(self\) -> bool \{", "dnp3/src/app/header.rs", "ResponseFunction::is_unsolicited")
    uns = {}
    for pat, rhs in match_arms(body, r"match self \{", "dnp3/src/app/header.rs", "ResponseFunction::is_unsolicited"):
        m = re.fullmatch(r"ResponseFunction::(\w+)", pat)
        if not m or rhs not in ("true", "false"):
            die("dnp3/src/app/header.rs: unexpected arm in ResponseFunction::is_unsolicited: %s => %s" % (pat, rhs))
        uns[m.group(1)] = rhs == "true"
    if sorted(uns) != sorted(rfuncs):
        die("dnp3/src/app/header.rs: ResponseFunction::is_unsolicited does not cover the response functions of to_response")
    pin(esrc, "pub(crate) fn is_fir_and_fin(self) -> bool { self.fir && self.fin }", "dnp3/src/app/header.rs", "is_fir_and_fin")
    # which function codes are followed by an IIN
    body = block_after(psrc, r"fn parse_no_logging\(", P_RS, "parse_no_logging")
    with_iin = []
    for pat, rhs in match_arms(body, r"let iin = match function \{", P_RS, "parse_no_logging: IIN"):
        m = re.fullmatch(r"FunctionCode::(\w+)", pat)
        if m and rhs == "Some(Iin::parse(&mut cursor)?)" and m.group(1) in codes:
            with_iin.append(m.group(1))
        elif not (pat == "_" and rhs == "None"):
            die("%s: unexpected arm in parse_no_logging (IIN): %s => %s" % (P_RS, pat, rhs))
    return dict(to_request=rq, to_response=rs, response_functions=[(f, uns[f]) for f in rfuncs], with_iin=with_iin)


# ---- (f) defaults --------------------------------------------------------------------------------------

def gv_of_name(name, where):
    m = re.fullmatch(r"Group(\d+)Var(\d+)", name)
    if not m:
        die("%s: %s is not a GroupXVarY name" % (where, name))
    return int(m.group(1)), int(m.group(2))


def defaults():
    C_RS = "dnp3/src/outstation/database/config.rs"
    csrc = read(C_RS)
    point = []
    want = ["BinaryInput", "DoubleBitBinaryInput", "BinaryOutputStatus", "Counter", "FrozenCounter", "AnalogInput", "AnalogOutputStatus"]
    for ty in want:
        nb = block_after(csrc, r"\nimpl %sConfig \{" % ty, C_RS, "impl %sConfig" % ty)
        m = re.search(r"pub fn new\(\s*s_var: (\w+),\s*e_var: (\w+),?\s*(?:deadband: (\w+),?\s*)?\) -> Self \{\s*Self \{\s*s_var,\s*e_var,?\s*(deadband,?\s*)?\}\s*\}", nb)
        if not m or (m.group(3) is None) != (m.group(4) is None):
            die("pinned line not found in %s (%sConfig::new(s_var, e_var[, deadband]))" % (C_RS, ty))
        sty, ety, dty = m.group(1), m.group(2), m.group(3)
        db = block_after(csrc, r"\nimpl Default for %sConfig \{" % ty, C_RS, "impl Default for %sConfig" % ty)
        d = re.fullmatch(r"fn default\(\) -> Self \{ Self::new\(%s::(\w+), %s::(\w+)(?:, ([0-9._]+))?\) \}" % (sty, ety), norm(db))
        if not d or (d.group(3) is None) != (dty is None):
            die("pinned line not found in %s (impl Default for %sConfig: Self::new(%s::X, %s::Y[, d]))" % (C_RS, ty, sty, ety))
        if dty is None:
            dead = 0
        elif dty == "u32" and re.fullmatch(r"\d+", d.group(3)):
            dead = int(d.group(3))
        elif dty == "f64" and re.fullmatch(r"\d+\.\d+", d.group(3)):
            dead = struct.unpack("<Q", struct.pack("<d", float(d.group(3))))[0]
        else:
            die("%s: unexpected dead-band %s: %s in %sConfig" % (C_RS, d.group(3), dty, ty))
        point.append((ty, gv_of_name(d.group(1), C_RS), gv_of_name(d.group(2), C_RS), dead))
    if len(re.findall(r"\nimpl Default for \w+Config \{", csrc)) != len(want):
        die("%s: the `impl Default for ...Config` blocks are not the seven known ones" % C_RS)
    M_RS = "dnp3/src/outstation/database/mod.rs"
    msrc = read(M_RS)
    fields = ["binary", "double_bit_binary", "binary_output_status", "counter", "frozen_counter", "analog", "analog_output_status", "octet_string"]
    sb = block_after(msrc, r"pub struct ClassZeroConfig \{", M_RS, "struct ClassZeroConfig")
    if re.findall(r"pub (\w+): bool,", sb) != fields:
        die("%s: the fields of ClassZeroConfig are not %s" % (M_RS, fields))
    db = block_after(msrc, r"\nimpl Default for ClassZeroConfig \{", M_RS, "impl Default for ClassZeroConfig")
    d = re.fullmatch(r"fn default\(\) -> Self \{ Self \{ (.*) \} \}", norm(db))
    got = re.findall(r"(\w+): (true|false)", d.group(1)) if d else []
    if [f for f, _ in got] != fields:
        die("pinned line not found in %s (ClassZeroConfig::default sets the eight fields in order)" % M_RS)
    class_zero = [v == "true" for _, v in got]
    efields = ["max_binary", "max_double_binary", "max_binary_output_status", "max_counter", "max_frozen_counter", "max_analog",
               "max_analog_output_status", "max_octet_string"]
    sb = block_after(msrc, r"pub struct EventBufferConfig \{", M_RS, "struct EventBufferConfig")
    if re.findall(r"pub (\w+): u16,", sb) != efields:
        die("%s: the fields of EventBufferConfig are not %s" % (M_RS, efields))
    ib = block_after(msrc, r"\nimpl EventBufferConfig \{", M_RS, "impl EventBufferConfig")
    a = re.fullmatch(r"Self::new\((.*)\)", norm(block_after(ib, r"pub fn all_types\(max: u16\) -> Self \{", M_RS, "EventBufferConfig::all_types")))
    nw = re.search(r"pub fn new\(([^)]*)\) -> Self \{\s*Self \{([^}]*)\}\s*\}", ib)
    if not a or not nw or [x.split(":")[0].strip() for x in split_args(nw.group(1))] != efields or split_args(nw.group(2)) != efields:
        die("pinned line not found in %s (EventBufferConfig::all_types / new in field order)" % M_RS)
    all_types = split_args(a.group(1))
    if len(all_types) != len(efields) or any(x != "max" for x in all_types):
        die("%s: EventBufferConfig::all_types does not pass `max` for every field" % M_RS)
    O_RS = "dnp3/src/outstation/config.rs"
    osrc = read(O_RS)
    fb = norm(block_after(osrc, r"\nimpl Default for Features \{", O_RS, "impl Default for Features"))
    ffields = ["self_address", "broadcast", "unsolicited", "respond_to_any_master"]
    got = re.findall(r"(\w+): Feature::(Enabled|Disabled)", fb)
    if [f for f, _ in got] != ffields:
        die("pinned line not found in %s (Features::default sets %s)" % (O_RS, ffields))
    features = [v == "Enabled" for _, v in got]
    ib = block_after(osrc, r"\nimpl OutstationConfig \{", O_RS, "impl OutstationConfig")
    m = re.search(r"pub const DEFAULT_MAX_READ_REQUEST_HEADERS: u16 = (\d+);", ib)
    if not m:
        die("pinned line not found in %s (DEFAULT_MAX_READ_REQUEST_HEADERS)" % O_RS)
    max_headers = int(m.group(1))
    nb = norm(block_after(ib, r"pub fn new\(\s*outstation_address: EndpointAddress,\s*master_address: EndpointAddress,\s*"
                              r"event_buffer_config: EventBufferConfig,?\s*\) -> Self \{", O_RS, "OutstationConfig::new"))
    opts = {}
    for f in ("max_unsolicited_retries", "max_read_request_headers", "max_controls_per_request"):
        m = re.search(r"\b%s: (None|Some\((\d+)\))" % f, nb)
        if not m:
            die("pinned line not found in %s (OutstationConfig::new: %s)" % (O_RS, f))
        opts[f] = None if m.group(1) == "None" else int(m.group(2))
    for text in ("class_zero: ClassZeroConfig::default()", "features: Features::default()", "event_buffer_config,"):
        if text.rstrip(",") not in nb:
            die("pinned line not found in %s (OutstationConfig::new: %s)" % (O_RS, text))
    # who consumes max_read_request_headers
    pin(read(S_RS), "max_read_headers_per_request: x .max_read_request_headers .unwrap_or(OutstationConfig::DEFAULT_MAX_READ_REQUEST_HEADERS)",
        S_RS, "capacity of the deferred read")
    pin(read("dnp3/src/outstation/database/details/range/static_db.rs"),
        "let max_read_selection = max_read_selection .map(|x| x.max(OutstationConfig::DEFAULT_MAX_READ_REQUEST_HEADERS)) "
        ".unwrap_or(OutstationConfig::DEFAULT_MAX_READ_REQUEST_HEADERS);", "dnp3/src/outstation/database/details/range/static_db.rs",
        "capacity of the selection queue")
    pin(read("dnp3/src/outstation/task.rs"), "config.max_read_request_headers,", "dnp3/src/outstation/task.rs", "DatabaseHandle::new arguments")
    return dict(point=point, class_zero=class_zero, class_zero_fields=fields, all_types=[0] * len(all_types), event_fields=efields,
                features=features, feature_fields=ffields, max_headers=max_headers, opts=opts)


# ================================================================================================

def main():
    os.makedirs(OUT, exist_ok=True)
    codes = function_codes()
    masks = iin_masks()
    iin_rows, reqerr, coding, rr = response_iin(masks)
    oerr = obj_err_iin2(masks)
    dsp = dispatch(masks, codes)
    rh = read_headers()
    val = validation(codes)
    dfl = defaults()

    w = []
    w.append("(* GENERATED by tools/gen/gen_session_tables.py from dnp3/src/outstation/{session,config,traits,task}.rs,\n"
             "   dnp3/src/outstation/database/{read,config,mod}.rs, dnp3/src/outstation/database/details/range/static_db.rs,\n"
             "   dnp3/src/app/{header,app_enums,parse_error,variations}.rs, dnp3/src/app/parse/parser.rs,\n"
             "   dnp3/src/app/gen/{all,count,ranged}.rs, dnp3/src/util/bit.rs and /verif/harness/outstation.rs - do not edit.\n"
             "   Data only; the agreement of the hand-written model with these tables is proved in Outstation/TablesAgree.v *)\n")
    w.append("From Coq Require Import List NArith.\nImport ListNotations.\nOpen Scope N_scope.\n\n")

    w.append("(* ---- FunctionCode::as_u8 ---------------------------------------------------------------------- *)\n")
    for n in sorted(codes, key=lambda n: codes[n]):
        w.append("Definition tb_fc_%s : N := %d.\n" % (snake(n), codes[n]))

    w.append("\n(* ---- (b) IIN bit masks: impl Iin1 / impl Iin2 of app/header.rs ------------------------------------ *)\n")
    for ty in ("Iin1", "Iin2"):
        for n, v in masks[ty]:
            w.append("Definition tb_%s_%s : N := %d.\n" % (ty.lower(), n.lower(), v))
        w.append("Definition tb_%s_all : list N := [%s].\n" % (ty.lower(), "; ".join(str(v) for _, v in masks[ty])))
    w.append("\n(* get_response_iin (outstation/session.rs) with `impl BitOr<ApplicationIin> for Iin` inlined: in the order of\n"
             "   the code, (condition, IIN byte 1 or 2, mask ORed in when the condition holds) *)\n")
    w.append("Inductive tb_iin_cond :=\n" + "\n".join("| %s" % c for _, c in IIN_CONDS) + ".\n")
    w.append("Definition tb_response_iin : list (tb_iin_cond * N * N) := %s.\n"
             % coq_list(["(%s, %d, %d)" % r for r in iin_rows]))
    w.append("\n(* harness/outstation.rs get_application_iin: the bit of the script's `appiin` value that sets each field *)\n")
    w.append("Definition tb_app_iin_coding : list (tb_iin_cond * N) := %s.\n" % coq_list(["(%s, %d)" % r for r in coding]))
    w.append("\n(* impl From<RequestError> for Iin2, and harness/outstation.rs req_result: script code -> RequestError\n"
             "   (None = Ok(()); the last row is the `_` arm when its code is None) *)\n")
    w.append("Inductive tb_request_error := " + " | ".join("TbRe" + n for n, _ in reqerr) + ".\n")
    w.append("Definition tb_request_error_iin2 : list (tb_request_error * N) := %s.\n"
             % coq_list(["(TbRe%s, %d)" % r for r in reqerr]))
    w.append("Definition tb_req_result : list (option N * option tb_request_error) := %s.\n"
             % coq_list(["(%s, %s)" % ("None" if c == "_" else "Some %s" % c, "None" if e is None else "Some TbRe" + e) for c, e in rr]))

    w.append("\n(* ---- (a) impl From<ObjectParseError> for Iin2 (outstation/session.rs), in the order of the enum ------ *)\n")
    w.append("Inductive tb_obj_err :=\n" + "\n".join("| Tb%s" % n for n, _ in oerr) + ".\n")
    w.append("Definition tb_obj_err_iin2 : list (tb_obj_err * N) := %s.\n" % coq_list(["(Tb%s, %d)" % r for r in oerr]))

    w.append("\n(* ---- (c) dispatch --------------------------------------------------------------------------------- *)\n")
    w.append("Inductive tb_control_type := " + " | ".join("Tb" + c for c in dsp["ctypes"]) + ".\n")
    w.append("Inductive tb_freeze_type := " + " | ".join("Tb" + c for c in dsp["ftypes"]) + ".\n")
    w.append("Inductive tb_handler :=\n| TbHandleWrite | TbHandleDelayMeasure | TbHandleRecordCurrentTime\n"
             "| TbHandleRestart (cold : bool)                     (* application.cold_restart() / warm_restart(), handle_restart *)\n"
             "| TbHandleControls (ct : tb_control_type)\n| TbHandleFreeze (ft : tb_freeze_type)\n| TbHandleFreezeAtTime\n"
             "| TbHandleEnableOrDisableUnsolicited (enable : bool).\n")
    w.append("(* Some(handler) / handler; None / the handler's own Option<Response> *)\n")
    w.append("Inductive tb_reply := TbReplyAlways | TbReplyNever | TbReplyByHandler.\n\n")
    w.append("(* handle_non_read: `match function`; every other function code takes the `_` arm: an empty response with\n"
             "   tb_non_read_default_iin2.  get_iin2: tb_objects_not_allowed_iin2 is ORed into a present response when the\n"
             "   function does not allow objects and the request has object headers *)\n")
    w.append("Definition tb_non_read_dispatch : list (N * tb_handler * tb_reply) := %s.\n"
             % coq_list(["(%d, %s, %s)  (* %s *)" % (codes[f], h, r, f) for f, h, r in dsp["non_read"]]))
    w.append("Definition tb_non_read_default_iin2 : N := %d.\n" % dsp["default"])
    w.append("Definition tb_objects_not_allowed_iin2 : N := %d.\n" % dsp["not_allowed"])
    w.append("\n(* handle_controls: (control type, a response is sent when a header is not a control header, a response is sent\n"
             "   otherwise); the former is an empty response with tb_controls_bad_header_iin2 *)\n")
    w.append("Definition tb_controls_reply : list (tb_control_type * bool * bool) := %s.\n"
             % coq_list(["(Tb%s, %s, %s)" % (c, coq_bool(a), coq_bool(b)) for c, a, b in dsp["controls"]]))
    w.append("Definition tb_controls_bad_header_iin2 : N := %d.\n" % dsp["bad_iin2"])
    w.append("\n(* process_broadcast_get_action: after `broadcast disabled -> IgnoredByConfiguration` and `objects Err ->\n"
             "   BadObjectHeaders`, `match request.header.function`: these are Processed, every other one UnsupportedFunction *)\n")
    w.append("Definition tb_broadcast_dispatch : list (N * tb_handler) := %s.\n"
             % coq_list(["(%d, %s)  (* %s *)" % (codes[f], h, f) for f, h in dsp["broadcast"]]))

    w.append("\n(* ---- (d) ReadHeader::get (outstation/database/read.rs) --------------------------------------------- *)\n")
    w.append("Inductive tb_header_kind :=\n" + "\n".join("| Tb%s" % k for k, _ in rh["kinds"]) + ".\n")
    w.append("Inductive tb_read_source := TbFromAllObjects | TbFromCount | TbFromRange | TbNever.\n")
    w.append("(* ReadHeader::get_impl *)\n")
    w.append("Definition tb_read_get_impl : list (tb_header_kind * tb_read_source) := %s.\n"
             % coq_list(["(Tb%s, %s)" % r for r in rh["kinds"]]))
    w.append("\n(* (group, variation pattern, ReadHeader::from_* answers Some) in the order of the parser's `match v`: first match\n"
             "   wins, TbAny = the wildcard variant GroupG(v) (every variation of the group without a named variant); a\n"
             "   (group, variation) without a row does not parse with that qualifier family (InvalidQualifierForVariation) *)\n")
    w.append("Inductive tb_vpat := TbExact (v : N) | TbAny.\n")
    for name, key, what in (("tb_read_all", "all", "AllObjectsVariation::get then ReadHeader::from_all_objects"),
                            ("tb_read_count", "count", "CountVariation::parse then ReadHeader::from_count"),
                            ("tb_read_range_read", "range_read", "RangedVariation::parse_read (function READ) then ReadHeader::from_range"),
                            ("tb_read_range_non_read", "range_non_read", "RangedVariation::parse_non_read (any other function) then ReadHeader::from_range")):
        w.append("\n(* %s *)\nDefinition %s : list (N * tb_vpat * bool) := %s.\n"
                 % (what, name, coq_list(["(%d, %s, %s)" % (g, vp, coq_bool(b)) for g, vp, b in rh[key]])))

    w.append("\n(* ---- (e) ParsedFragment::to_request / to_response (app/parse/parser.rs): checks in order ----------- *)\n")
    w.append("Inductive tb_rq_check := TbRqIinPresent | TbRqNotFirAndFin | TbRqUnsAndNotConfirm.\n")
    w.append("Inductive tb_rq_error := " + " | ".join(sorted(set(e for _, e in val["to_request"]), key=[e for _, e in val["to_request"]].index)) + ".\n")
    w.append("Definition tb_to_request : list (tb_rq_check * tb_rq_error) := %s.\n" % coq_list(["(%s, %s)" % r for r in val["to_request"]]))
    w.append("Inductive tb_rs_check := TbRsNotResponseWithIin | TbRsSolicitedWithUns | TbRsUnsolicitedWithoutUns | TbRsUnsolicitedNotFirAndFin.\n")
    w.append("Inductive tb_rs_error := " + " | ".join(e for _, e in val["to_response"]) + ".\n")
    w.append("Definition tb_to_response : list (tb_rs_check * tb_rs_error) := %s.\n" % coq_list(["(%s, %s)" % r for r in val["to_response"]]))
    w.append("(* the function codes to_response accepts (with an IIN), and ResponseFunction::is_unsolicited *)\n")
    w.append("Definition tb_response_functions : list (N * bool) := %s.\n"
             % coq_list(["(%d, %s)  (* %s *)" % (codes[f], coq_bool(u), f) for f, u in val["response_functions"]]))
    w.append("(* parse_no_logging: the function codes followed by an IIN *)\n")
    w.append("Definition tb_functions_with_iin : list N := [%s].\n" % "; ".join(str(codes[f]) for f in val["with_iin"]))

    w.append("\n(* ---- (f) defaults ------------------------------------------------------------------------------------ *)\n")
    w.append("(* impl Default for <Point>Config: ((static group, variation), (event group, variation), dead-band: the u32, or the\n"
             "   bits of the f64) *)\n")
    for ty, s, e, d in dfl["point"]:
        w.append("Definition tb_default_%s_config : (N * N) * (N * N) * N := ((%d, %d), (%d, %d), %d).\n" % (snake(ty), s[0], s[1], e[0], e[1], d))
    w.append("(* ClassZeroConfig::default(): %s *)\n" % ", ".join(dfl["class_zero_fields"]))
    w.append("Definition tb_class_zero_default : list bool := [%s].\n" % "; ".join(coq_bool(b) for b in dfl["class_zero"]))
    w.append("(* EventBufferConfig::all_types(max): which argument (0 = max) each field receives: %s *)\n" % ", ".join(dfl["event_fields"]))
    w.append("Definition tb_event_buffer_all_types : list N := [%s].\n" % "; ".join(str(x) for x in dfl["all_types"]))
    w.append("(* Features::default(): %s (true = Enabled) *)\n" % ", ".join(dfl["feature_fields"]))
    w.append("Definition tb_features_default : list bool := [%s].\n" % "; ".join(coq_bool(b) for b in dfl["features"]))
    w.append("(* OutstationConfig::new *)\n")
    for f in ("max_unsolicited_retries", "max_read_request_headers", "max_controls_per_request"):
        v = dfl["opts"][f]
        w.append("Definition tb_default_%s : option N := %s.\n" % (f, "None" if v is None else "Some %d" % v))
    w.append("Definition tb_const_default_max_read_request_headers : N := %d.\n" % dfl["max_headers"])

    text = "".join(w)
    with open(os.path.join(OUT, "SessionTables.v"), "w") as f:
        f.write(text)
    with open(os.path.join(OUT, "session_tables.json"), "w") as f:
        json.dump({"sources": SOURCES, "iin_masks": masks, "response_iin": iin_rows, "obj_err_iin2": oerr, "dispatch": dsp,
                   "read_headers": rh, "validation": val, "defaults": dfl,
                   "sizes": {"obj_err_iin2": len(oerr), "iin1": len(masks["Iin1"]), "iin2": len(masks["Iin2"]),
                             "response_iin": len(iin_rows), "non_read_dispatch": len(dsp["non_read"]),
                             "broadcast_dispatch": len(dsp["broadcast"]), "read_all": len(rh["all"]), "read_count": len(rh["count"]),
                             "read_range_read": len(rh["range_read"]), "read_range_non_read": len(rh["range_non_read"]),
                             "to_request": len(val["to_request"]), "to_response": len(val["to_response"]),
                             "point_defaults": len(dfl["point"])}},
                  f, indent=1, sort_keys=True)


if __name__ == "__main__":
    main()
