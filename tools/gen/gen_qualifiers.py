#!/usr/bin/env python3
"""Translator: dnp3/src/app/gen/{all,count,ranged,prefixed}.rs, dnp3/src/app/parse/free_format.rs
(+ QualifierCode of app/app_enums.rs, offsets of app/file/g70v{2,3,7}.rs) -> coq/gen/Qualifiers.v

For each qualifier family (all objects, count, range for READ, range for non-READ, count-and-prefix,
free format) the match over `Variation` is turned into an ORDERED table of
      (group, variation pattern, data kind)
first match wins, no match = `InvalidQualifierForVariation`.  Data kinds:
      DNone        header only, nothing is read
      DBits        BitSequence::parse              ceil(count/8) bytes
      DDoubleBits  DoubleBitSequence::parse        ceil(count/4) bytes
      DFixed       RangedSequence / CountSequence  SIZE * count  (prefixed: (prefix + SIZE) * count)
      DOctets      RangedBytesSequence / PrefixedBytesSequence   variation = length of each string
      DAttr        device attribute (g0)
      DFree        free-format object (g70)
Patterns: PExact v (a named variant `GroupXVarV` or a literal `GroupX(v)`), PAny (`GroupX(var)`: the
wildcard variant, i.e. every variation of the group that has no named variant of its own).

Also pins (fails loudly if changed) the few hand-modelled lines that compute byte demands."""
import json, os, re, sys

REPO = os.environ.get("VERIF_REPO", "/repo")
OUT = os.environ.get("VERIF_GEN_OUT") or os.path.join(os.path.dirname(os.path.abspath(__file__)), "..", "..", "coq", "gen")


def die(msg):
    sys.exit("gen_qualifiers: " + msg)


def read(p):
    return open(os.path.join(REPO, p)).read()


def fn_body(src, header_regex, what):
    m = re.search(header_regex, src)
    if not m:
        die(what + " not found")
    i = src.index("{", m.end() - 1)
    depth = 0
    for j in range(i, len(src)):
        if src[j] == "{": depth += 1
        elif src[j] == "}":
            depth -= 1
            if depth == 0:
                return src[i + 1:j]
    die("unbalanced braces in " + what)


def variant_gv():
    """variant name -> (group, var or None) re-derived from variations.rs (same source as gen_variations)"""
    src = read("dnp3/src/app/variations.rs")
    body = fn_body(src, r"pub\(crate\) fn to_group_and_var\(self\) -> \(u8, u8\) ", "to_group_and_var")
    gv = {}
    for m in re.finditer(r"Variation::(\w+) => \((\d+), (\d+)\),", body):
        gv[m.group(1)] = (int(m.group(2)), int(m.group(3)))
    for m in re.finditer(r"Variation::(\w+)\(x\) => \((\d+), x\),", body):
        gv[m.group(1)] = (int(m.group(2)), None)
    if not gv:
        die("to_group_and_var has an unexpected shape")
    return gv


def enum_types(src, enum_name):
    """variant -> payload text of `enum <name><..> { Variant(payload), ... }`"""
    body = fn_body(src, r"pub\(crate\) enum %s\b[^{]*" % enum_name, "enum " + enum_name)
    out = {}
    for line in body.splitlines():
        line = line.strip()
        if not line or line.startswith("//"):
            continue
        m = re.fullmatch(r"(\w+)(?:\((.*)\))?,", line)
        if not m:
            die("unexpected line in enum %s: %s" % (enum_name, line))
        out[m.group(1)] = m.group(2)
    return out


def arms(body, what):
    """match arms `Variation::X => rhs,` (rhs possibly a braced block) in order; returns (pattern, rhs)"""
    m = re.search(r"match v \{", body)
    if not m:
        die("no `match v` in " + what)
    text = body[m.end():]
    out = []
    i = 0
    default = None
    arm_re = re.compile(r"\s*(Variation::\w+(?:\(\w+\))?|_) => ")
    while True:
        m = arm_re.match(text, i)
        if not m:
            if text[i:].strip() in ("}", "};", "}\n"):
                break
            rest = text[i:].strip()
            if rest.startswith("}"):
                break
            die("unexpected text in %s: %r" % (what, text[i:i + 80]))
        pat = m.group(1)
        j = m.end()
        if text[j] == "{":
            depth = 0
            k = j
            while True:
                if text[k] == "{": depth += 1
                elif text[k] == "}":
                    depth -= 1
                    if depth == 0: break
                k += 1
            rhs = text[j:k + 1]
            k += 1
            if text[k] == ",": k += 1
        else:
            k = text.index("\n", j)
            rhs = text[j:k].rstrip().rstrip(",")
        i = k
        if pat == "_":
            default = rhs
            break
        out.append((pat, " ".join(rhs.split())))
    if default is None or "InvalidQualifierForVariation" not in default:
        die("%s: the default arm is not InvalidQualifierForVariation" % what)
    return out


def pattern(pat, gv, what):
    m = re.fullmatch(r"Variation::(\w+)(?:\((\w+)\))?", pat)
    name, arg = m.group(1), m.group(2)
    if name not in gv:
        die("%s: unknown variant %s" % (what, name))
    g, v = gv[name]
    if arg is None:
        if v is None: die("%s: wildcard variant %s used without argument" % (what, name))
        return g, "PExact %d" % v, name
    if v is not None:
        die("%s: named variant %s used with an argument" % (what, name))
    if re.fullmatch(r"\d+", arg):
        return g, "PExact %d" % int(arg), name
    return g, "PAny", name


def table(rows):
    return "[\n" + ";\n".join("  (%d, %s, %s)" % r for r in rows) + "]"


def pin(path, text, what):
    if text not in read(path):
        die("pinned line not found in %s (%s): %s" % (path, what, text))


def main():
    os.makedirs(OUT, exist_ok=True)
    gv = variant_gv()
    fixed_names = set(re.findall(r"impl FixedSize for (\w+) \{", read("dnp3/src/app/variations.rs")))

    # ---- all objects -----------------------------------------------------------------------
    src = read("dnp3/src/app/gen/all.rs")
    body = fn_body(src, r"pub\(crate\) fn get\(v: Variation\) -> Option<AllObjectsVariation> ", "AllObjectsVariation::get")
    q_all = []
    lines = [l.strip() for l in body.splitlines() if l.strip()]
    if lines[0] != "match v {" or lines[-1] != "}" or lines[-2] != "_ => None,":
        die("AllObjectsVariation::get has an unexpected shape")
    for l in lines[1:-2]:
        m = re.fullmatch(r"(Variation::\w+(?:\(\w+\))?) => Some\(AllObjectsVariation::\w+(?:\(var\))?\),", l)
        if not m:
            die("unexpected arm in AllObjectsVariation::get: " + l)
        g, p, _ = pattern(m.group(1), gv, "all.rs")
        q_all.append((g, p, "DNone"))

    # ---- count -----------------------------------------------------------------------------
    src = read("dnp3/src/app/gen/count.rs")
    types = enum_types(src, "CountVariation")
    body = fn_body(src, r"pub\(crate\) fn parse\(v: Variation, qualifier: QualifierCode, count: u16, cursor: &mut ReadCursor<'a>\) -> Result<CountVariation<'a>, ObjectParseError> ", "CountVariation::parse")
    q_count = []
    for pat, rhs in arms(body, "CountVariation::parse"):
        g, p, name = pattern(pat, gv, "count.rs")
        m = re.fullmatch(r"Ok\(CountVariation::(\w+)(?:\((.*)\))?\)", rhs)
        if not m: die("count.rs: unexpected arm " + rhs)
        var, arg = m.group(1), m.group(2)
        if arg is None or arg == "x":
            kind = "DNone"
        elif arg == "CountSequence::parse(count, cursor)?":
            if types.get(var) != "CountSequence<'a, %s>" % name or name not in fixed_names:
                die("count.rs: %s is not CountSequence<'a, %s>" % (var, name))
            kind = "DFixed"
        else:
            die("count.rs: unexpected arm " + rhs)
        q_count.append((g, p, kind))

    # ---- ranged ----------------------------------------------------------------------------
    src = read("dnp3/src/app/gen/ranged.rs")
    types = enum_types(src, "RangedVariation")
    body = fn_body(src, r"pub\(crate\) fn parse_non_read\(v: Variation, qualifier: QualifierCode, range: Range, options: ParseOptions, cursor: &mut ReadCursor<'a>\) -> Result<RangedVariation<'a>, ObjectParseError> ", "RangedVariation::parse_non_read")
    q_rng = []
    for pat, rhs in arms(body, "RangedVariation::parse_non_read"):
        g, p, name = pattern(pat, gv, "ranged.rs")
        if rhs == "{ Ok(RangedVariation::Group110VarX(x, RangedBytesSequence::parse(options, x, range.get_start(), range.get_count(), cursor)?)) }":
            if types.get("Group110VarX") != "u8, RangedBytesSequence<'a>": die("ranged.rs: Group110VarX has an unexpected type")
            q_rng.append((g, p, "DOctets")); continue
        m = re.fullmatch(r"Ok\(RangedVariation::(\w+)(?:\((.*)\))?\)", rhs)
        if not m: die("ranged.rs: unexpected arm " + rhs)
        var, arg = m.group(1), m.group(2)
        if arg is None:
            kind = "DNone"
        elif arg == "BitSequence::parse(range, cursor)?":
            if types.get(var) != "BitSequence<'a>": die("ranged.rs: type of " + var)
            kind = "DBits"
        elif arg == "DoubleBitSequence::parse(range, cursor)?":
            if types.get(var) != "DoubleBitSequence<'a>": die("ranged.rs: type of " + var)
            kind = "DDoubleBits"
        elif arg == "RangedSequence::parse(range, cursor)?":
            if types.get(var) != "RangedSequence<'a, %s>" % name or name not in fixed_names:
                die("ranged.rs: %s is not RangedSequence<'a, %s>" % (var, name))
            kind = "DFixed"
        elif arg == "var, Some(crate::app::attr::Attribute::parse_from_range(var, range, cursor)?)":
            kind = "DAttr"
        else:
            die("ranged.rs: unexpected arm " + rhs)
        q_rng.append((g, p, kind))
    body = fn_body(src, r"pub\(crate\) fn parse_read\(v: Variation, qualifier: QualifierCode\) -> Result<RangedVariation<'a>, ObjectParseError> ", "RangedVariation::parse_read")
    q_rng_read = []
    for pat, rhs in arms(body, "RangedVariation::parse_read"):
        g, p, name = pattern(pat, gv, "ranged.rs")
        m = re.fullmatch(r"Ok\(RangedVariation::(\w+)(?:\((.*)\))?\)", rhs)
        if not m or m.group(2) not in (None, "BitSequence::empty()", "DoubleBitSequence::empty()", "RangedSequence::empty()", "var, None"):
            die("ranged.rs parse_read: unexpected arm " + rhs)
        q_rng_read.append((g, p, "DNone"))

    # ---- count and prefix ------------------------------------------------------------------
    src = read("dnp3/src/app/gen/prefixed.rs")
    types = enum_types(src, "PrefixedVariation")
    body = fn_body(src, r"pub\(crate\) fn parse\(v: Variation, count: u16, options: ParseOptions, cursor: &mut ReadCursor<'a>\) -> Result<PrefixedVariation<'a, I>, ObjectParseError> ", "PrefixedVariation::parse")
    q_pre = []
    for pat, rhs in arms(body, "PrefixedVariation::parse"):
        g, p, name = pattern(pat, gv, "prefixed.rs")
        m = re.fullmatch(r"Ok\(PrefixedVariation::(\w+)\((.*)\)\)", rhs)
        if not m: die("prefixed.rs: unexpected arm " + rhs)
        var, arg = m.group(1), m.group(2)
        if arg == "CountSequence::parse(count, cursor)?":
            if types.get(var) != "CountSequence<'a, Prefix<I, %s>>" % name or name not in fixed_names:
                die("prefixed.rs: %s is not CountSequence<'a, Prefix<I, %s>>" % (var, name))
            kind = "DFixed"
        elif arg == "crate::app::attr::Attribute::parse_prefixed::<I>(var, count, cursor)?":
            kind = "DAttr"
        elif arg == "x, PrefixedBytesSequence::parse(options, x, count, cursor)?":
            kind = "DOctets"
        else:
            die("prefixed.rs: unexpected arm " + rhs)
        q_pre.append((g, p, kind))

    # ---- free format -----------------------------------------------------------------------
    src = read("dnp3/src/app/parse/free_format.rs")
    body = fn_body(src, r"pub\(crate\) fn parse\(\s*v: Variation,\s*cursor: &mut ReadCursor<'a>,\s*\) -> Result<Self, ObjectParseError> ", "FreeFormatVariation::parse")
    q_free = []
    for pat, rhs in arms(body, "FreeFormatVariation::parse"):
        g, p, name = pattern(pat, gv, "free_format.rs")
        if rhs != "{ FreeFormatVariation::%s(file::%s::read(cursor)?) }" % (name, name):
            die("free_format.rs: unexpected arm " + rhs)
        q_free.append((g, p, "DFree"))
    offsets = {}
    for var, const in (("2", "USER_NAME_OFFSET"), ("3", "FILE_NAME_OFFSET"), ("7", "FILE_NAME_OFFSET")):
        m = re.search(r"const %s: u16 = (\d+);" % const, read("dnp3/src/app/file/g70v%s.rs" % var))
        if not m: die("%s not found in g70v%s.rs" % (const, var))
        offsets[var] = int(m.group(1))

    # ---- attribute data type codes (framing of g0) --------------------------------------------
    asrc = read("dnp3/src/app/attr.rs")
    attr_consts = {}
    for n in ["VISIBLE_STRING", "UNSIGNED_INT", "SIGNED_INT", "FLOATING_POINT", "OCTET_STRING", "BIT_STRING", "DNP3_TIME", "ATTR_LIST", "EXT_ATTR_LIST"]:
        m = re.search(r"^const %s: u8 = (\d+);" % n, asrc, re.M)
        if not m: die("attr.rs: const %s not found" % n)
        attr_consts[n] = int(m.group(1))
    getb = fn_body(asrc, r"pub\(crate\) fn get\(value: u8\) -> Option<AttrDataType> ", "AttrDataType::get")
    got = re.findall(r"(\w+) => Some\(Self::(\w+)\),", getb)
    if [a for a, _ in got] != list(attr_consts) or [b for _, b in got] != ["VisibleString", "UnsignedInt", "SignedInt", "FloatingPoint", "OctetString", "BitString", "Dnp3Time", "AttrList", "ExtAttrList"]:
        die("AttrDataType::get has an unexpected shape")
    for text, what in [("let len = len as u16 + 256;", "extended list length"), ("if len != 6 {", "time length"),
                       ("if len % 2 != 0 {", "list length parity"), ("1 => Ok(cursor.read_u8()? as i8 as i32),", "1-byte signed int read (sign-extended)"),
                       ("2 => Ok(cursor.read_i16_le()? as i32),", "2-byte signed int read"),
                       ("if range.get_count() != 1 {", "attribute range count"), ("if count != 1 {", "attribute prefix count")]:
        if text not in asrc: die("attr.rs: pinned line not found (%s)" % what)

    # ---- qualifier codes -------------------------------------------------------------------
    src = read("dnp3/src/app/app_enums.rs")
    qsrc = src[:src.index("pub enum FunctionCode")]
    body = fn_body(qsrc, r"pub fn from\(x: u8\) -> Option<Self> ", "QualifierCode::from")
    quals = dict((n, int(c, 16)) for c, n in re.findall(r"(0x[0-9A-Fa-f]+) => Some\(QualifierCode::(\w+)\),", body))
    want = ["Range8", "Range16", "AllObjects", "Count8", "Count16", "CountAndPrefix8", "CountAndPrefix16", "FreeFormat16"]
    if sorted(quals) != sorted(want):
        die("QualifierCode::from has unexpected variants: %s" % sorted(quals))
    body2 = fn_body(qsrc, r"pub fn as_u8\(self\) -> u8 ", "QualifierCode::as_u8")
    back = dict((n, int(c, 16)) for n, c in re.findall(r"QualifierCode::(\w+) => (0x[0-9A-Fa-f]+),", body2))
    if back != quals:
        die("QualifierCode::as_u8 is not the inverse of QualifierCode::from")

    # ---- pinned lines of the hand-modelled generic code ------------------------------------
    P = "dnp3/src/app/parse/"
    pin(P + "range.rs", "if stop < start {\n            return Err(InvalidRange { start, stop });", "Range::from rejects stop < start")
    pin(P + "range.rs", "count: stop as usize - start as usize + 1,", "Range::from count")
    pin(P + "range.rs", "let num_bytes = T::SIZE as usize * range.count;", "RangedSequence::parse")
    pin(P + "range.rs", "self.index = self.index.saturating_add(1);", "RangeIterator::next")
    pin(P + "count.rs", "let num_bytes = T::SIZE as usize * count as usize;", "CountSequence::parse")
    pin(P + "bit.rs", "fn num_bytes_for_bits(count: usize) -> usize {\n    count.div_ceil(8)\n}", "bit demand")
    pin(P + "bit.rs", "fn num_bytes_for_double_bits(count: usize) -> usize {\n    count.div_ceil(4)\n}", "double-bit demand")
    pin(P + "bytes.rs", "bytes: cursor.read_bytes(variation as usize * count)?,", "RangedBytesSequence::parse")
    pin(P + "bytes.rs", "let size = (variation as usize + T::SIZE as usize) * count as usize;", "PrefixedBytesSequence::parse")
    pin(P + "prefix.rs", "const SIZE: u8 = I::SIZE + V::SIZE;", "Prefix SIZE")
    pin(P + "parser.rs", "if count != 1 {\n            return Err(ObjectParseError::UnsupportedFreeFormatCount(count));", "free-format count")
    pin(P + "parser.rs", "cursor.expect_empty()?;", "free-format exact length")
    pin(P + "parser.rs", "FunctionCode::Read => Self::parse_read(v, qualifier),\n            _ => Self::parse_non_read(v, qualifier, range, options, cursor),", "READ carries no range data")

    with open(os.path.join(OUT, "Qualifiers.v"), "w") as f:
        f.write("(* GENERATED by tools/gen/gen_qualifiers.py from dnp3/src/app/gen/{all,count,ranged,prefixed}.rs,\n"
                "   dnp3/src/app/parse/free_format.rs, dnp3/src/app/app_enums.rs, dnp3/src/app/file/g70v{2,3,7}.rs - do not edit *)\n")
        f.write("From Coq Require Import List NArith.\nImport ListNotations.\nOpen Scope N_scope.\n\n")
        f.write("Inductive vpat := PExact (v : N) | PAny.\n")
        f.write("Inductive dkind := DNone | DBits | DDoubleBits | DFixed | DOctets | DAttr | DFree.\n")
        f.write("Definition qtable := list (N * vpat * dkind).\n\n")
        for k in want:
            f.write("Definition q_%s : N := %d.\n" % (re.sub(r"(?<!^)(?=[A-Z])", "_", k).lower(), quals[k]))
        f.write("\n(* AllObjectsVariation::get *)\nDefinition qt_all : qtable := %s.\n" % table(q_all))
        f.write("\n(* CountVariation::parse (the same for every function code) *)\nDefinition qt_count : qtable := %s.\n" % table(q_count))
        f.write("\n(* RangedVariation::parse_read *)\nDefinition qt_range_read : qtable := %s.\n" % table(q_rng_read))
        f.write("\n(* RangedVariation::parse_non_read *)\nDefinition qt_range : qtable := %s.\n" % table(q_rng))
        f.write("\n(* PrefixedVariation::parse (the same for every function code and both prefix widths) *)\nDefinition qt_prefix : qtable := %s.\n" % table(q_pre))
        f.write("\n(* FreeFormatVariation::parse *)\nDefinition qt_free : qtable := %s.\n" % table(q_free))
        f.write("\n(* AttrDataType::get *)\n" + "".join("Definition attr_%s : N := %d.\n" % (k.lower(), v) for k, v in attr_consts.items()))
        f.write("\nDefinition g70v2_user_name_offset : N := %d.\nDefinition g70v3_file_name_offset : N := %d.\nDefinition g70v7_file_name_offset : N := %d.\n"
                % (offsets["2"], offsets["3"], offsets["7"]))
    with open(os.path.join(OUT, "qualifiers.json"), "w") as f:
        json.dump({"quals": quals, "all": q_all, "count": q_count, "range_read": q_rng_read, "range": q_rng,
                   "prefix": q_pre, "free": q_free}, f, indent=1, sort_keys=True)


if __name__ == "__main__":
    main()
