"""Independent table of DNP3 objects (IEEE 1815 object library, the part stepfunc/dnp3 supports) and a
reference encoder / header walker used by the C09 script generator and oracle.

NOT derived from /repo at run time: sizes are the object sizes of the standard, the support matrix
(which qualifier families an object may be used with, READ and non-READ) was written down once and is
cross-checked against the generated tables only by running this file by hand:
        python3 tools/dnp_objects.py            (after a ./check run, which leaves .cache/gen/*.json)
Any disagreement is printed; none is tolerated silently."""

# ---- sizes of the fixed-size objects (octets) ---------------------------------------------------------
FIXED = {
    (1, 2): 1,
    (2, 1): 1, (2, 2): 7, (2, 3): 3,
    (3, 2): 1,
    (4, 1): 1, (4, 2): 7, (4, 3): 3,
    (10, 2): 1,
    (11, 1): 1, (11, 2): 7,
    (12, 1): 11,
    (13, 1): 1, (13, 2): 7,
    (20, 1): 5, (20, 2): 3, (20, 5): 4, (20, 6): 2,
    (21, 1): 5, (21, 2): 3, (21, 5): 11, (21, 6): 9, (21, 9): 4, (21, 10): 2,
    (22, 1): 5, (22, 2): 3, (22, 5): 11, (22, 6): 9,
    (23, 1): 5, (23, 2): 3, (23, 5): 11, (23, 6): 9,
    (30, 1): 5, (30, 2): 3, (30, 3): 4, (30, 4): 2, (30, 5): 5, (30, 6): 9,
    (31, 1): 5, (31, 2): 3, (31, 3): 11, (31, 4): 9, (31, 5): 4, (31, 6): 2, (31, 7): 5, (31, 8): 9,
    (32, 1): 5, (32, 2): 3, (32, 3): 11, (32, 4): 9, (32, 5): 5, (32, 6): 9, (32, 7): 11, (32, 8): 15,
    (33, 1): 5, (33, 2): 3, (33, 3): 11, (33, 4): 9, (33, 5): 5, (33, 6): 9, (33, 7): 11, (33, 8): 15,
    (34, 1): 2, (34, 2): 4, (34, 3): 4,
    (40, 1): 5, (40, 2): 3, (40, 3): 5, (40, 4): 9,
    (41, 1): 5, (41, 2): 3, (41, 3): 5, (41, 4): 9,
    (42, 1): 5, (42, 2): 3, (42, 3): 11, (42, 4): 9, (42, 5): 5, (42, 6): 9, (42, 7): 11, (42, 8): 15,
    (43, 1): 5, (43, 2): 3, (43, 3): 11, (43, 4): 9, (43, 5): 5, (43, 6): 9, (43, 7): 11, (43, 8): 15,
    (50, 1): 6, (50, 2): 10, (50, 3): 6, (50, 4): 11,
    (51, 1): 6, (51, 2): 6,
    (52, 1): 2, (52, 2): 2,
    (102, 1): 1,
}

# qualifier codes
Q_RANGE8, Q_RANGE16, Q_ALL, Q_COUNT8, Q_COUNT16, Q_PREFIX8, Q_PREFIX16, Q_FREE = 0x00, 0x01, 0x06, 0x07, 0x08, 0x17, 0x28, 0x5B
QUALIFIERS = [Q_RANGE8, Q_RANGE16, Q_ALL, Q_COUNT8, Q_COUNT16, Q_PREFIX8, Q_PREFIX16, Q_FREE]

FC_CONFIRM, FC_READ, FC_WRITE, FC_SELECT, FC_OPERATE, FC_DIRECT, FC_RESPONSE, FC_UNSOL = 0, 1, 2, 3, 4, 5, 129, 130
FUNCTIONS = list(range(0, 31)) + [129, 130]

# ---- support matrix -------------------------------------------------------------------------------------
# groups whose variation is free (every variation is a distinct object): octet strings and attributes
OCTET_STATIC, OCTET_EVENT, ATTR = 110, 111, 0

_static_fixed = [(1, 2), (3, 2), (10, 2)] + [(20, v) for v in (1, 2, 5, 6)] + [(21, v) for v in (1, 2, 5, 6, 9, 10)] \
    + [(30, v) for v in range(1, 7)] + [(31, v) for v in range(1, 9)] + [(34, v) for v in (1, 2, 3)] \
    + [(40, v) for v in range(1, 5)] + [(102, 1)]
_static_bits = [(1, 1), (10, 1), (80, 1)]
_static_dbits = [(3, 1)]
_static_any = [(g, 0) for g in (1, 3, 10, 20, 21, 30, 31, 40, 102)]
_event_fixed = [(2, v) for v in (1, 2, 3)] + [(4, v) for v in (1, 2, 3)] + [(11, 1), (11, 2), (13, 1), (13, 2)] \
    + [(g, v) for g in (22, 23) for v in (1, 2, 5, 6)] + [(g, v) for g in (32, 33, 42) for v in range(1, 9)] \
    + [(43, v) for v in range(1, 9)]
_event_any = [(g, 0) for g in (2, 4, 11, 22, 23, 32, 33, 42)]
_commands = [(12, 1)] + [(41, v) for v in range(1, 5)]
_times = [(50, 1), (50, 2), (50, 3), (50, 4), (51, 1), (51, 2), (52, 1), (52, 2)]

# every named object the library knows (attributes g0 and octet strings g110/g111 have free variations)
NAMED = sorted(set(_static_fixed + _static_bits + _static_dbits + _static_any + _event_fixed + _event_any + _commands
                   + _times + [(34, 0), (60, 1), (60, 2), (60, 3), (60, 4), (0, 254)] + [(70, v) for v in range(2, 9)]))


def known(g, v):
    if g == ATTR: return v != 0
    if g in (OCTET_STATIC, OCTET_EVENT): return True
    return (g, v) in NAMED


def kind(fc, q, g, v):
    """data that follows a header of object (g, v) with qualifier q in a fragment of function fc:
       None = the combination is not supported, else one of
       'none' | 'bits' | 'dbits' | ('fixed', size) | ('octets', n) | 'attr' | 'free'
       (for the prefix qualifiers every object is preceded by its index)"""
    gv = (g, v)
    if not known(g, v):
        return None
    if q == Q_ALL:
        if gv in _static_fixed or gv in _static_bits or gv in _static_dbits or gv in _static_any \
           or gv in _event_fixed or gv in _event_any or gv in [(34, 0), (60, 1), (60, 2), (60, 3), (60, 4), (0, 254)] \
           or (g == ATTR) or gv in [(110, 0), (111, 0)]:
            return 'none'
        return None
    if q in (Q_RANGE8, Q_RANGE16):
        if fc == FC_READ:
            if (gv in _static_fixed or gv in _static_bits or gv in _static_dbits or gv in _static_any
                    or gv == (0, 254) or g == ATTR or gv == (110, 0)):
                return 'none'
            return None
        if gv in _static_any or gv == (0, 254): return 'none'
        if gv in _static_bits: return 'bits'
        if gv in _static_dbits: return 'dbits'
        if gv in _static_fixed: return ('fixed', FIXED[gv])
        if g == ATTR: return 'attr'
        if g == OCTET_STATIC: return ('octets', v)
        return None
    if q in (Q_COUNT8, Q_COUNT16):
        if gv in _times: return ('fixed', FIXED[gv])
        if gv in _event_fixed or gv in _event_any or gv in [(60, 2), (60, 3), (60, 4)] or g == OCTET_EVENT:
            return 'none'
        return None
    if q in (Q_PREFIX8, Q_PREFIX16):
        if gv in _event_fixed or gv in _commands or gv in [(34, 1), (34, 2), (34, 3)]: return ('fixed', FIXED[gv])
        if g == ATTR and v != 254: return 'attr'
        if g == OCTET_EVENT: return ('octets', v)
        return None
    if q == Q_FREE:
        return 'free' if g == 70 else None
    return None


# ---- reference encoder ------------------------------------------------------------------------------------

def le(x, n):
    return bytes((x >> (8 * i)) & 0xFF for i in range(n))


def control(fir=True, fin=True, con=False, uns=False, seq=0):
    return (0x80 if fir else 0) | (0x40 if fin else 0) | (0x20 if con else 0) | (0x10 if uns else 0) | (seq & 0x0F)


def app_header(ctrl, fc, iin=None):
    return bytes([ctrl, fc]) + (bytes(iin) if fc in (FC_RESPONSE, FC_UNSOL) else b"")


def header_prefix(g, v, q, a=None, b=None):
    """group, variation, qualifier and the range or count field"""
    out = bytes([g, v, q])
    if q == Q_RANGE8: out += bytes([a, b])
    elif q == Q_RANGE16: out += le(a, 2) + le(b, 2)
    elif q in (Q_COUNT8, Q_PREFIX8): out += bytes([a])
    elif q in (Q_COUNT16, Q_PREFIX16): out += le(a, 2)
    elif q == Q_FREE: out += bytes([a]) + le(b, 2)
    return out


def pack_bits(values, width):
    """values (each < 2**width) packed LSB first, `8 / width` per octet, zero padded"""
    per = 8 // width
    out = bytearray((len(values) + per - 1) // per)
    for i, x in enumerate(values):
        out[i // per] |= x << (width * (i % per))
    return bytes(out)


def demand(k, count, prefix=0):
    """octets of object data for `count` objects of kind k (prefix = index size for 0x17 / 0x28)"""
    if k == 'none': return 0
    if k == 'bits': return (count + 7) // 8
    if k == 'dbits': return (count + 3) // 4
    if isinstance(k, tuple): return (k[1] + prefix) * count
    raise ValueError(k)


SUM_MOD = 4294967291
LIST_LIMIT, EDGE = 300, 4


def checksum(objs):
    h = 0
    for idx, data in objs:
        h = (h * 31 + (0 if idx is None else idx + 1)) % SUM_MOD
        for b in data:
            h = (h * 31 + b + 1) % SUM_MOD
    return h


def hexs(b):
    return bytes(b).hex() if len(b) else "-"


def listing(objs):
    """the canonical object lines of one header (see harness/app.rs)"""
    line = lambda o: "o %s %s" % ("-" if o[0] is None else o[0], hexs(o[1]))
    out = ["n %d" % len(objs)]
    if len(objs) <= LIST_LIMIT:
        out += [line(o) for o in objs]
    else:
        out += [line(o) for o in objs[:EDGE]] + [line(o) for o in objs[-EDGE:]] + ["sum %d" % checksum(objs)]
    return out


# ---- cross-check against the generated tables (run by hand) -----------------------------------------------

def crosscheck(gen_dir):
    import json, os
    var = json.load(open(os.path.join(gen_dir, "variations.json")))
    qual = json.load(open(os.path.join(gen_dir, "qualifiers.json")))
    bad = []
    gv = {k: tuple(v) for k, v in var["gv"].items()}
    gen_fixed = {gv[n]: d["size"] for n, d in var["fixed"].items()}
    for k in sorted(set(gen_fixed) | set(FIXED)):
        if gen_fixed.get(k) != FIXED.get(k):
            bad.append("size of g%dv%d: standard table %s, library %s" % (k[0], k[1], FIXED.get(k), gen_fixed.get(k)))
    named = {tuple(v) for v in gv.values() if v[1] is not None}
    if named != set(NAMED):
        bad.append("named objects differ: only here %s, only in the library %s" % (sorted(set(NAMED) - named), sorted(named - set(NAMED))))
    lookup = var["lookup"]
    for g in range(256):
        for v in range(256):
            row = lookup.get(str(g))
            lib = bool(row) and (v in row["explicit"] or (row["wild"] is not None and v not in row["none"]))
            if lib != known(g, v):
                bad.append("lookup(%d,%d): here %s, library %s" % (g, v, known(g, v), lib))
    quals = qual["quals"]
    want = {"Range8": Q_RANGE8, "Range16": Q_RANGE16, "AllObjects": Q_ALL, "Count8": Q_COUNT8, "Count16": Q_COUNT16,
            "CountAndPrefix8": Q_PREFIX8, "CountAndPrefix16": Q_PREFIX16, "FreeFormat16": Q_FREE}
    if quals != want:
        bad.append("qualifier codes differ: %s" % quals)

    def lib_kind(table, g, v):
        row = lookup.get(str(g))
        is_named = bool(row) and v in row["explicit"]
        for tg, pat, k in qual[table]:
            if tg != g: continue
            if pat == "PAny":
                if not is_named: return k
            elif int(pat.split()[1]) == v:
                return k
        return None
    conv = {None: None, "DNone": "none", "DBits": "bits", "DDoubleBits": "dbits", "DFixed": "fixed", "DOctets": "octets", "DAttr": "attr", "DFree": "free"}
    fams = [("all", Q_ALL, FC_RESPONSE), ("count", Q_COUNT8, FC_RESPONSE), ("range_read", Q_RANGE8, FC_READ),
            ("range", Q_RANGE8, FC_RESPONSE), ("prefix", Q_PREFIX8, FC_RESPONSE), ("free", Q_FREE, FC_RESPONSE)]
    for g in range(256):
        for v in range(256):
            if not known(g, v): continue
            for table, q, fc in fams:
                mine = kind(fc, q, g, v)
                mine = mine[0] if isinstance(mine, tuple) else mine
                lib = conv[lib_kind(table, g, v)]
                if mine != lib:
                    bad.append("g%dv%d with %s: here %s, library %s" % (g, v, table, mine, lib))
    return bad


if __name__ == "__main__":
    import os, sys
    d = sys.argv[1] if len(sys.argv) > 1 else os.path.join(os.path.dirname(os.path.abspath(__file__)), "..", ".cache", "gen")
    bad = crosscheck(d)
    for b in bad[:200]:
        print("DISAGREE", b)
    print("%d disagreements" % len(bad))
    sys.exit(1 if bad else 0)
