#!/usr/bin/env python3
"""Regenerates MANIFEST.json: registers every property whose check is listed in REGISTERED below."""
import json, os, sys
HERE = os.path.dirname(os.path.dirname(os.path.abspath(__file__)))
REG = {
 "C03": ("db+outstation", "Coq theorems over the event-buffer model (ids unique and monotone, overflow discards the oldest of the type, selection, oldest-first writing, release of exactly the written events, reset) for arbitrary operation lists; session level: release only after a matching confirm, re-offering after every unconfirmed end of a series, and a draining epilogue that must release every recorded event, checked on implementation traces and against the session model"),
 "C06": ("link", "Coq theorems: CRC linearity and detection of every 1-3 bit error (finite syndrome sweep lifted by linearity), frame round trip, parser incrementality, discard mode = ideal scanner, read-buffer invariant, chunking independence, datagram isolation, damaged frames never delivered; CRC table and constants regenerated from the source"),
 "C07": ("layer+outstation", "Coq theorems on the link layer's address filter, replies and secondary-station state (all 256 control bytes swept), plus session-level inertness for foreign masters and broadcasts checked on implementation traces and against the session model"),
 "C08": ("treader+twriter", "Coq theorems: transport header codec, segmentation/reassembly from any assembler state, every delivered fragment is a well-formed run, consecutive frame ids, write/read round trip through the link layer"),
 "C09": ("app", "Coq theorems over tables regenerated from the source (variation sizes and field orders, qualifier admissibility, function codes): fixed-size codec round trips by reflection, accepted headers consume exactly the implied bytes, iteration agrees with validation, writer/parser round trips; the real parser and writers compared with the model on the variation x qualifier x count product and on mutated fragments"),
 "C10": ("conv", "Coq theorems over conversion recipes regenerated from the source: exact trip for representable measurements, saturation with OVER_RANGE, counter truncation, CTO reconstruction, flag placement; f64->f32 related to Flocq; database -> writers -> parser -> extract trips through the real code compared with the model"),
 "C11": ("db+outstation", "Coq theorems over the static-database model (selection snapshots, series_exactly_once, snapshot under interleaved updates, write progress); session level: series shape (FIR/FIN/CON/sequence/confirm gating) checked on implementation traces and against the session model"),
 "C13": ("db+outstation", "Coq theorems: counters_exact / class_bits_exact / no_underflow / overflow_flag_history over arbitrary op lists; session level: every IIN bit of every response checked against the database's answer, the restart/broadcast history and the application's answer"),
 "C18": ("tsync", "Coq theorems (exact, zero slack): LAN error = forward delay of the record-time request, non-LAN error <= half the asymmetry for every honestly reported processing delay, failure whenever the procedure must fail, 48-bit bounds; a real master task and a real outstation task joined by a scripted channel compared with the model line by line"),
 "C20": ("ffi", "Coq theorems over tables regenerated from the binding crate's source: every enum arm maps to its namesake (or a pinned, justified fallback), one-to-one tables bijective, struct fields from namesake accessors, configuration fields from namesake accessors through a reviewed wrapper of a closed vocabulary; database operations through the binding compared with the native API; configuration conversions executed on boundary values and compared field by field with the documented reading of each field"),
 "C04": ("outstation", "Coq theorems over the session model: a select-before-operate callback needs a matching, adjacent, fresh select (one-step characterisation + history invariant + trace theorem), rejected operates echo a non-success status, select-then-operate executes exactly once; histories checked on the implementation and against the model"),
 "C05": ("outstation", "Coq theorems over the session model: a repeated non-READ is never re-executed, the stored response stays coherent with the transmit buffer (the invariant the two repaired defects broke), every re-sent fragment equals an earlier one; histories checked on the implementation and against the model"),
 "C12": ("outstation", "Coq theorems over the session model: shape and correlation of every transmitted fragment, unsolicited numbering, no reply to no-ack functions and broadcasts, rejections reported in IIN2, size bound and echo well-formedness; histories over every function code checked on the implementation and against the model"),
 "C14": ("outstation", "Coq theorems over the session model: null responses until one is confirmed, data only for enabled classes, one outstanding response, bounded unchanged retries, retry delay, DISABLE stops, deferred READ served; unsolicited histories checked on the implementation and against the model"),
 "C15": ("master", "Coq theorems over the master task model (response acceptance, confirms, unsolicited duplicates, delivery order) + correspondence with the real master task"),
 "C16": ("master", "Coq theorems over the command task model (faithful echo, operate only after select echo, exactly one outcome) + correspondence with the real master task"),
 "C17": ("msched", "Coq theorems over the association auto-task and back-off models + correspondence with the real master task"),
 "C19": ("msched", "Coq theorems over the scheduling model (user FIFO before polls, poll cadence, round robin, keep-alive, one outstanding) + correspondence with the real master task"),
 "C01": ("all", "PARTIAL: Coq theorems for termination/fuel/guards of the modelled layers and a reviewed ledger of every potential panic site regenerated from the source; the runtime part (no panic or stall on hostile input, liveness afterwards) by hostile runs through the real stack"),
 "C02": ("pair", "PARTIAL: Coq theorems over an abstract composition of the per-layer guarantees (nothing fabricated, convergence after quiescence, undiscarded events delivered) plus a trace-abstraction check: every recorded end-to-end run of the real TCP/link/transport stack (re-chunking, cuts) must be accepted by the extracted `explain` as a run of that abstract system, and transfer theorems carry the abstract theorems to explained runs; schedules and byte offsets not sampled are not covered"),
}
def main():
    registered = sys.argv[1:]
    m = json.load(open(os.path.join(HERE, "MANIFEST.json")))
    checks = []
    for pid in sorted(registered):
        eng, text = REG[pid]
        checks.append({"property_id": pid, "quick_cmd": "./check %s quick" % pid, "thorough_cmd": "./check %s thorough" % pid,
            "evidence_file": "evidence/%s.json" % pid, "replay_cmd_template": "./check %s --replay {path}" % pid, "engine": eng,
            "level_claimed": {"category": "proof", "text": text, "design_ref": "DESIGN.md section 6, " + pid},
            "level_note": "trusted: Coq 8.16.1 kernel + vm_compute; translators tools/gen/*.py; extraction (ExtrOcamlBasic only); the Rust harness compiled into the crate's test build (hooks H1,H2,H4,H5,H6,H7,H8); hand-written models are tied to the code by differential execution, by tables regenerated from the source on every run with agreement theorems (gen_session_tables, gen_master_tables, gen_variations, gen_qualifiers, gen_functions, gen_conversions, gen_ffi, gen_link, gen_panic_sites) and, for the extraction, by an in-Coq vm_compute cross-check on a sample of every run; see DESIGN.md sections 8 and 9",
            "technique": "machine-checked proof in Coq over an executable model + model/implementation correspondence (differential execution) + direct oracle on implementation traces"})
    m["checks"] = checks
    hooks = os.popen("git -C /repo log --format='%h %s' | grep 'verif hook' | awk '{print $1}'").read().split()
    m["hooks"]["source_commits"] = list(reversed(hooks))
    m["not_applicable"] = [{"property_id": "C%02d" % i, "reason": "check under construction in this round (model, harness engine and generators exist or are being written; not registered until its theorem set and evidence are complete), see DESIGN.md section 0"}
                           for i in range(1, 21) if "C%02d" % i not in registered]
    json.dump(m, open(os.path.join(HERE, "MANIFEST.json"), "w"), indent=1)
    print("registered:", " ".join(sorted(registered)))
main()
