#!/bin/bash
# Sensitivity of tools/gen/gen_master_tables.py + coq/Master/TablesAgree.v, in a scratch worktree of /repo
# (never touches /repo's working tree nor /verif/coq/gen):
#   1. unchanged source      -> identical table, TablesAgree compiles
#   2. two automatic tasks swapped in TaskStates::next, two checks swapped in validate_non_read_response,
#      checked_mul(2) -> checked_mul(3): the table changes and TablesAgree no longer compiles
#   3. a pinned function renamed: the translator stops with "pinned line not found"
# Needs the .vo files of the master models (run ./check C17 quick once).  Exit 0 = all as expected.
set -u
VERIF=$(cd "$(dirname "$0")/../.." && pwd)
WT=/tmp/gm_wt_$$; SC=/tmp/gm_sc_$$
fail() { echo "UNEXPECTED: $*"; cleanup; exit 1; }
cleanup() { git -C /repo worktree remove --force $WT >/dev/null 2>&1; git -C /repo worktree prune; rm -rf $SC; }
git -C /repo worktree add --detach $WT HEAD >/dev/null 2>&1 || { echo "cannot create worktree"; exit 1; }
mkdir -p $SC/Base $SC/Master $SC/gen
cp $VERIF/coq/Base/Bytes.vo $SC/Base/
for m in Backoff Assoc Sched MParse Command MTask TimeSync; do cp $VERIF/coq/Master/$m.vo $SC/Master/ || fail "missing $m.vo"; done
cp $VERIF/coq/Master/TablesAgree.v $SC/Master/
gen() { VERIF_REPO=$WT VERIF_GEN_OUT=$SC/gen python3 $VERIF/tools/gen/gen_master_tables.py; }
agree() { (cd $SC && timeout 120 coqc -Q . Dnp3V gen/MasterTables.v && timeout 600 coqc -Q . Dnp3V -w -notation-overridden Master/TablesAgree.v) >$SC/log 2>&1; }
reset() { git -C $WT checkout -q -- .; }

gen || fail "translator fails on the unchanged source"
agree || fail "TablesAgree fails on the unchanged source: $(tail -5 $SC/log)"
cp $SC/gen/MasterTables.v $SC/base.v
echo "ok  unchanged source: table generated, agreement proved"

mutate_expect_break() {  # name, python snippet editing files under $WT
  reset
  python3 -c "$2" || fail "$1: mutation did not apply"
  gen || fail "$1: translator failed"
  cmp -s $SC/gen/MasterTables.v $SC/base.v && fail "$1: the table did not change"
  agree && fail "$1: TablesAgree still compiles"
  echo "ok  $1: table changed, $(grep -m1 -o 'TablesAgree.v", line [0-9]*' $SC/log) fails"
}
mutate_expect_break "swap time_sync / enable_unsolicited in TaskStates::next" "
p='$WT/dnp3/src/master/association.rs'; s=open(p).read()
a=s.index('        if self.time_sync.is_pending() {'); b=s.index('        if config.enable_unsol_classes.any() && self.enabled_unsolicited.is_pending() {')
c=s.index('        let events_to_scan = association.events_available & config.event_scan_on_events_available;')
open(p,'w').write(s[:a]+s[b:c]+s[a:b]+s[c:])"
mutate_expect_break "swap FIR/FIN and IIN2 checks in validate_non_read_response" "
p='$WT/dnp3/src/master/task.rs'; s=open(p).read(); i=s.index('async fn validate_non_read_response')
a=s.index('        if !response.header.control.is_fir_and_fin() {', i); b=s.index('        if response.header.iin.has_bad_request_error() {', i)
c=s.index('        // the response is accepted', i)
open(p,'w').write(s[:a]+s[b:c]+s[a:b]+s[c:])"
mutate_expect_break "checked_mul(2) -> checked_mul(3)" "
p='$WT/dnp3/src/app/retry.rs'; s=open(p).read(); assert '.checked_mul(2)' in s
open(p,'w').write(s.replace('.checked_mul(2)','.checked_mul(3)'))"
mutate_expect_break "RECORD_CURRENT_TIME followed by g50v1 instead of g50v3" "
p='$WT/dnp3/src/master/tasks/time.rs'; s=open(p).read(); assert 'writer.write_count_of_one(Group50Var3 { time: x })' in s
open(p,'w').write(s.replace('writer.write_count_of_one(Group50Var3 { time: x })','writer.write_count_of_one(Group50Var1 { time: x })'))"

rename_expect_pin() {  # file, sed expression
  reset
  sed -i "$2" $WT/$1
  out=$(gen 2>&1) && fail "renaming in $1 did not stop the translator"
  echo "$out" | grep -q "pinned line not found" || fail "no pinned-anchor message: $out"
  echo "ok  $out"
}
rename_expect_pin dnp3/src/master/association.rs 's/fn on_restart_iin(&mut self)/fn on_restart_detected(\&mut self)/'
rename_expect_pin dnp3/src/master/task.rs "s/async fn validate_non_read_response</async fn validate_nonread_response</"
rename_expect_pin dnp3/src/app/retry.rs 's/pub(crate) fn on_failure(&mut self) -> Duration/pub(crate) fn on_fail(\&mut self) -> Duration/'
cleanup
echo "master tables sensitivity: all as expected"
