#!/usr/bin/env python3
"""(The two-hunk mutation `hoist_last_unsol_record` is kept as hoist_last_unsol_record.patch next to this file:
`git -C /repo apply <patch>`, build, `git -C /repo apply -R <patch>`.)
Teeth test: apply one textual mutation to /repo, build the harness (under the cargo lock), revert
the file at once, then run the full check of the named properties with the mutated binary."""
import os, shutil, subprocess, sys, hashlib, io, contextlib, importlib
sys.path.insert(0, "/verif/tools"); sys.path.insert(0, "/verif/tools/props")
import driver, propcheck

T = "/repo/dnp3/src/master/task.rs"
A = "/repo/dnp3/src/master/association.rs"
R = "/repo/dnp3/src/master/request.rs"
C = "/repo/dnp3/src/master/tasks/command.rs"

MUTATIONS = {
 "revert_f10": (T, """        if response.header.control.con {
            self.confirm_solicited(io, destination, seq, writer).await?;
        }

        Ok(Some(response))""", """        Ok(Some(response))""", ["C15"]),
 "accept_wrong_seq": (T, """        if response.header.control.seq != seq {
            tracing::warn!(
                "unexpected sequence number in response: {}",
                response.header.control.seq.value()
            );
            return Ok(None);
        }""", """""", ["C15"]),
 "accept_wrong_seq_read": (T, """        if response.header.control.seq != seq {
            tracing::warn!(
                "response with seq: {} doesn't match expected seq: {}",
                response.header.control.seq.value(),
                seq.value()
            );
            return Ok(ReadResponseAction::Ignore);
        }""", """""", ["C15"]),
 "skip_source_check": (T, """        if source.link != destination.link {
            tracing::warn!(
                "Received response from {} while expecting response from {}",
                source.link,
                destination.link
            );
            return Ok(None);
        }""", """""", ["C15"]),
 "deliver_duplicate_unsol": (A, """                self.notify_unsolicited_response(true, new_frag.header.control.seq);
                return true; // still want to send confirmation if requested""",
                             """                self.notify_unsolicited_response(true, new_frag.header.control.seq);""", ["C15"]),
 "revert_malformed_unsol_fix": (A, """            if let Err(err) = response.objects {
                tracing::warn!("ignoring unsolicited response with malformed objects: {err}");
                return false;
            }""", """""", ["C15"]),
 "confirm_twice": (T, """        if response.header.control.con {
            self.confirm_solicited(io, destination, seq, writer).await?;
        }

        if response.header.control.fin {""", """        if response.header.control.con {
            self.confirm_solicited(io, destination, seq, writer).await?;
            self.confirm_solicited(io, destination, seq, writer).await?;
        }

        if response.header.control.fin {""", ["C15"]),
 "compare_first_header_only": (R, """        for sent in &self.headers {
            match iter.next() {
                None => return Err(CommandResponseError::HeaderCountMismatch),
                Some(received) => sent.compare(received.details)?,
            }
        }

        if iter.next().is_some() {
            return Err(CommandResponseError::HeaderCountMismatch);
        }

        Ok(())""", """        for sent in self.headers.iter().take(1) {
            match iter.next() {
                None => return Err(CommandResponseError::HeaderCountMismatch),
                Some(received) => sent.compare(received.details)?,
            }
        }

        Ok(())""", ["C16"]),
 "ignore_status": (R, """                    if x.value.status() != CommandStatus::Success {
                        return Err(CommandResponseError::BadStatus(x.value.status()));
                    }
                    if !x.equals(item) {
                        return Err(CommandResponseError::ObjectValueMismatch);
                    }""", """                    if x.index != item.1 {
                        return Err(CommandResponseError::ObjectValueMismatch);
                    }""", ["C16"]),
 "operate_same_seq": (T, """        let seq = association.increment_seq();""",
                      """        let seq = if request.function() == crate::app::FunctionCode::Operate { crate::app::Sequence::new(association.seq().value().wrapping_sub(1)) } else { association.increment_seq() };""", ["C16", "C15"]),
 "operate_without_select_echo": (C, """        if let Err(err) = self.compare(headers) {
            self.promise.complete(Err(err.into()));
            return Err(TaskError::UnexpectedResponseHeaders);
        }""", """        if !matches!(self.state, State::Select) {
            if let Err(err) = self.compare(headers) {
                self.promise.complete(Err(err.into()));
                return Err(TaskError::UnexpectedResponseHeaders);
            }
        }""", ["C16"]),
 "never_complete_on_disable": (T, """                    match y {
                        Ok(_) => (), // unless shutdown, proceed to next event
                        Err(err) => {
                            task.on_task_error(self.associations.get_mut(dest.link).ok(), err.into());
                            return Err(err.into());
                        }
                    }""", """                    match y {
                        Ok(_) => (), // unless shutdown, proceed to next event
                        Err(err) => {
                            return Err(err.into());
                        }
                    }""", ["C16"]),
 "queued_not_failed_on_reset": (A, """        while let Some(task) = self.request_queue.pop_front() {
            task.on_task_error(Some(self), err.into());
        }""", """        let _ = err;
        self.request_queue.clear();""", ["C16"]),
 "operate_no_seq_increment": (T, """        let seq = association.increment_seq();""",
                      """        let seq = if request.function() == crate::app::FunctionCode::Operate { association.seq() } else { association.increment_seq() };""", ["C16", "C15"]),
 "revert_link_status_fix": (T, """        let timeout = self.associations.get_timeout(destination.link)?;
        let deadline = timeout.deadline_from_now();

        loop {
            // Wait for something on the link
            tokio::select! {
                _ = tokio::time::sleep_until(deadline) => {""", """        loop {
            let timeout = self.associations.get_timeout(destination.link)?;
            // Wait for something on the link
            tokio::select! {
                _ = tokio::time::sleep_until(timeout.deadline_from_now()) => {""", ["C16"]),
 "wrong_timeout_error": (T, """                    task.on_task_error(self.associations.get_mut(dest.link).ok(), TaskError::ResponseTimeout);
                    return Err(TaskError::ResponseTimeout);""", """                    task.on_task_error(self.associations.get_mut(dest.link).ok(), TaskError::Shutdown);
                    return Err(TaskError::ResponseTimeout);""", ["C16"]),
}


def build_mutant(name):
    path, old, new, props = MUTATIONS[name]
    src = open(path).read()
    if src.count(old) != 1:
        raise SystemExit("mutation %s: pattern found %d times" % (name, src.count(old)))
    with driver.Lock("cargo"):
        try:
            open(path, "w").write(src.replace(old, new))
            p = subprocess.run(["cargo", "test", "-p", "dnp3", "--lib", "--no-run", "--offline", "--message-format=json"],
                               cwd="/repo", env=driver.ENV, stdout=subprocess.PIPE, stderr=subprocess.STDOUT, text=True)
        finally:
            subprocess.run(["git", "-C", "/repo", "checkout", "--", os.path.relpath(path, "/repo")], check=True)
    import json
    exe = None
    for line in p.stdout.splitlines():
        if line.startswith("{"):
            try:
                j = json.loads(line)
            except ValueError:
                continue
            if j.get("reason") == "compiler-artifact" and j.get("executable") and j["target"]["name"] == "dnp3":
                exe = j["executable"]
    if p.returncode != 0 or not exe:
        raise SystemExit("mutant %s does not build:\n%s" % (name, p.stdout[-1500:]))
    os.makedirs("/verif/work/selftest", exist_ok=True)
    dst = "/verif/work/selftest/mutant_%s" % name
    shutil.copy2(exe, dst)
    return dst, props


def main():
    names = sys.argv[1:] or list(MUTATIONS)
    for name in names:
        exe, props = build_mutant(name)
        for pid in props:
            driver._harness_bin = exe
            mod = importlib.import_module(pid.lower())
            prop = mod.PROP
            text = open(os.path.join("/verif/coq", prop.property_file)).read()
            import re
            prop.theorems = re.findall(r"^Print Assumptions\s+([\w']+)\s*\.", text, re.M)
            buf = io.StringIO()
            with contextlib.redirect_stdout(buf):
                code = propcheck.check_property(prop, "quick", int(os.environ.get("VERIF_SEED", "1")))
            out = buf.getvalue().splitlines()
            viol = [l for l in out if l.startswith("VIOLATION")]
            summ = [l for l in out if l.startswith(pid + " quick")]
            print("MUTATION %-30s %s exit=%d %s | %s" % (name, pid, code, "; ".join(v[:90] for v in viol[:3]) or "NO VIOLATION", summ[0] if summ else ""))
            # keep the clauses
            for v in viol[:4]:
                f = v.split("replay=")[1].split()[0]
                try:
                    j = json.load(open(os.path.join("/verif", f)))
                    print("     clause=%s: %s" % (j.get("clause"), (j.get("what") or "")[:160]))
                except Exception:
                    pass
        os.remove(exe)


import json
if __name__ == "__main__":
    main()
