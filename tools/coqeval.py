#!/usr/bin/env python3
"""Extraction cross-check (DESIGN.md sections 0 and 8): evaluate model scripts INSIDE Coq and compare with
what the extracted OCaml engine computes for the same scripts.

Two independent paths from the script TEXT to a list of lists of numbers (one inner list per observation,
the numeric serialisation of coq/Codes/Codes*.v):

  A. this file renders the script as a Coq TERM (configuration record + list of operations, numbers as N / Z
     literals, bytes as lists of N; no OCaml involved), writes `Eval vm_compute in (cx_show (cx_<engine>_run ...))`
     into cases_<k>.v files and runs coqc on them (cx_show: every number as its binary digits, which Coq
     prints a hundred times faster than number literals);
  B. `ocaml/driver --codes <scripts>`: the hand-written glue ocaml/eng_<engine>.ml parses the tokens, calls the
     EXTRACTED model and prints the EXTRACTED serialiser applied to every observation.

Agreement on a script checks, for that script, the extraction mechanism (Coq -> OCaml of the model functions
reached) and the input half of the glue (tokens -> model values).  Trusted instead: this renderer, Coq's
vm_compute and printer.  The renderers are written from the script language as the Rust harness
(/verif/harness/*.rs) defines it - defaults of configuration keys included - not from the OCaml glue.

Command line:  coqeval.py <scripts-file> [n]     cross-check the first n (default all) scripts of a file
"""
import os, re, struct, subprocess, sys, time

VERIF = os.path.dirname(os.path.dirname(os.path.abspath(__file__)))
COQ = os.path.join(VERIF, "coq")
OCAML = os.path.join(VERIF, "ocaml")

PER_FILE = 12          # scripts per cases_<k>.v
COQC_TIMEOUT = 600     # seconds per coqc process


class RenderError(Exception):
    """the script is outside what the renderer of its engine covers (the script is then not sampled)"""


# ---------------------------------------------------------------------------------------------------
# Coq literals (the cases files open N_scope)

def cn(x):
    try:
        x = int(x)
    except ValueError:
        raise RenderError("bad number")
    if x < 0:
        raise RenderError("negative N")
    return str(x)

def cz(x):
    return "(%d)%%Z" % int(x)

def cnat(x):
    x = int(x)
    if x < 0:
        raise RenderError("negative nat")
    return "(N.to_nat %d)" % x          # never a big nat literal

def cbool(x):
    return "true" if x else "false"

def cbytes(h):
    """script byte string (lowercase hex, `-` = empty) -> list N"""
    if h == "-":
        return "[]"
    if len(h) % 2 or not re.fullmatch(r"[0-9a-fA-F]*", h):
        raise RenderError("bad hex")
    return "[" + ";".join(str(int(h[i:i + 2], 16)) for i in range(0, len(h), 2)) + "]"

def clist(items):
    return "[" + "; ".join(items) + "]"

def copt(x, f):
    return "None" if x is None else "(Some %s)" % f(x)


def parse_script(text):
    lines = [l.split() for l in text.strip().split("\n") if l.strip()]
    head = lines[0]
    if head[0] != "S" or lines[-1] != ["E"]:
        raise RenderError("not a script")
    cfg = {}
    for kv in head[3:]:
        if "=" not in kv:
            raise RenderError("cfg token without =")
        k, v = kv.split("=", 1)
        cfg[k] = v
    return head[1], head[2], cfg, lines[1:-1]


def u(cfg, key, default):
    """Script::cfg_u64 of harness/mod.rs"""
    v = cfg.get(key)
    if v is None:
        return default
    if not re.fullmatch(r"[0-9]+", v):
        raise RenderError("bad integer in cfg")
    return int(v)


# ---------------------------------------------------------------------------------------------------
# engine `ofull` (coq/Outstation/Full.v): the script language of harness/outstation.rs run_outstation

BCAST = {"none": "None", "opt": "(Some BOptional)", "mand": "(Some BMandatory)", "notreq": "(Some BNotRequired)"}
PTYPE = {"binary": "TBinary", "double": "TDoubleBit", "bos": "TBos", "counter": "TCounter", "frozen": "TFrozen",
         "analog": "TAnalog", "aos": "TAos", "octet": "TOctet"}
CLASS = {"0": "None", "1": "(Some Class1)", "2": "(Some Class2)", "3": "(Some Class3)"}


def f64_bits(s):
    """the IEEE-754 binary64 bit pattern of a decimal string, as Rust's str::parse::<f64> yields it"""
    return struct.unpack("<Q", struct.pack("<d", float(s)))[0]


def restart_delay(s):
    if s == "none":
        return "None"
    k, _, v = s.partition(":")
    if k not in ("s", "ms") or not re.fullmatch(r"[0-9]+", v):
        raise RenderError("bad restart delay")
    return "(Some (%s, %s))" % (cbool(k == "ms"), cn(v))


def ofull_cfg(cfg):
    retries = cfg.get("retries", "none")
    maxctl = u(cfg, "maxctl", 0)
    o = [("o_master", cn(u(cfg, "master", 1))),
         ("o_any_master", cbool(u(cfg, "anymaster", 0) != 0)),
         ("o_unsol", cbool(u(cfg, "unsol", 0) != 0)),
         ("o_broadcast", cbool(u(cfg, "broadcast", 1) != 0)),
         ("o_confirm_ms", cz(u(cfg, "confirm_ms", 5000))),
         ("o_select_ms", cz(u(cfg, "select_ms", 5000))),
         ("o_retries", "None" if retries == "none" else "(Some %s)" % cnat(retries)),
         ("o_retry_delay_ms", cz(u(cfg, "retry_delay_ms", 5000))),
         ("o_max_controls", "None" if maxctl == 0 else "(Some %s)" % cn(maxctl)),
         ("o_sol_tx", cnat(u(cfg, "soltx", 2048))),
         ("o_delay_ms", cn(u(cfg, "delay", 0))),
         ("o_cold", restart_delay(cfg.get("cold", "none"))),
         ("o_warm", restart_delay(cfg.get("warm", "none"))),
         ("o_wtime", cn(u(cfg, "wtime", 0))),
         ("o_freeze", cn(u(cfg, "freeze", 1)))]
    return "{| f_o := {| %s |}; f_unsol_tx := %s; f_evbuf := %s |}" % (
        "; ".join("%s := %s" % kv for kv in o), cn(u(cfg, "unsoltx", 2048)), cn(u(cfg, "evbuf", 5)))


def ofull_meas(ty, v, flags, time):
    """the measurement harness/outstation.rs builds for `update <type> <index> <value> <flags> <time>`"""
    tm = "(Some (true, %s))" % cn(time)          # Time::Synchronized
    if ty == "binary":
        return "(mkMeas %s %s %s [])" % ("1" if v != "0" else "0", cn(flags), tm)
    if ty == "counter":
        return "(mkMeas %s %s %s [])" % (cn(v), cn(flags), tm)
    if ty == "analog":
        return "(mkMeas %s %s %s [])" % (cn(f64_bits(v)), cn(flags), tm)
    if ty == "octet":
        return "(mkMeas 0 0 None %s)" % cbytes(v)
    raise RenderError("update: type not covered by the harness")


def ofull_op(t):
    if t[0] == "rx" and len(t) == 4:
        if t[2] not in BCAST:
            raise RenderError("bad broadcast mode")
        return "FRx %s %s %s" % (cn(t[1]), BCAST[t[2]], cbytes(t[3]))
    if t[0] == "sleep" and len(t) == 2:
        return "FSleep %s" % cz(t[1])
    if t[0] == "add" and len(t) == 4:
        return "FAdd %s %s %s" % (PTYPE[t[1]], cn(t[2]), CLASS[t[3]])
    if t[0] == "update" and len(t) == 6:
        return "FUpdate %s %s %s" % (PTYPE[t[1]], cn(t[2]), ofull_meas(t[1], t[3], t[4], t[5]))
    if t[0] == "handler" and len(t) == 3:
        return "FHandler %s %s" % (cn(t[1]), cn(t[2]))
    if t[0] == "appiin" and len(t) == 2:
        return "FAppIin %s" % cn(t[1])
    if t in (["disconnect"], ["bounce"]):
        return "FDisconnect"
    raise RenderError("bad op " + "_".join(t))


def render_ofull(cfg, ops):
    try:
        opterms = [ofull_op(t) for t in ops]
    except (KeyError, ValueError) as e:
        raise RenderError("bad token %s" % e)
    return "cx_ofull_run %s %s %s %s\n  %s" % (
        ofull_cfg(cfg), cn(u(cfg, "sel", 0)), cn(u(cfg, "op", 0)), cn(u(cfg, "appiin", 0)),
        "[" + ";\n   ".join(opterms) + "]")


# ---------------------------------------------------------------------------------------------------
# engines `link`, `layer`, `treader`, `twriter` (coq/Link, coq/Transport): the script language of harness/link.rs

def link_modes(cfg):
    mode = {"close": "Close", "discard": "Discard"}.get(cfg.get("mode", "close"))
    read = {"stream": "Stream", "datagram": "Datagram"}.get(cfg.get("read", "stream"))
    if mode is None or read is None:
        raise RenderError("bad mode")
    return "%s %s %s" % (mode, read, cnat(u(cfg, "frag", 2048)))


def link_feeds(ops):
    out = []
    for t in ops:
        if len(t) != 2 or t[0] != "feed":
            raise RenderError("only feed ops are modelled")
        out.append(cbytes(t[1]))
    return "[" + ";\n   ".join(out) + "]"


def link_lcfg(cfg):
    role = {"master": "Master", "outstation": "Outstation"}.get(cfg.get("role", "outstation"))
    if role is None:
        raise RenderError("bad role")
    return "{| l_type := %s; l_self := %s; l_addr := %s |}" % (role, cbool(u(cfg, "self", 0) != 0), cn(u(cfg, "addr", 1024)))


def render_link(cfg, ops):
    return "cx_link_run %s\n  %s" % (link_modes(cfg), link_feeds(ops))


def render_layer(cfg, ops):
    return "cx_layer_run %s %s\n  %s" % (link_modes(cfg), link_lcfg(cfg), link_feeds(ops))


def render_treader(cfg, ops):
    return "cx_treader_run %s %s\n  %s" % (link_modes(cfg), link_lcfg(cfg), link_feeds(ops))


def render_twriter(cfg, ops):
    role = {"master": "Master", "outstation": "Outstation"}.get(cfg.get("role", "outstation"))
    if role is None:
        raise RenderError("bad role")
    out = []
    for t in ops:
        if t[0] == "write" and len(t) == 3:
            out.append("WWrite %s %s" % (cn(t[1]), cbytes(t[2])))
        elif t[0] == "lsreq" and len(t) == 2:
            out.append("WLinkStatus %s" % cn(t[1]))
        elif t == ["reset"]:
            out.append("WReset")
        else:
            raise RenderError("bad twriter op")
    return "cx_twriter_run {| w_type := %s; w_addr := %s |}\n  [%s]" % (role, cn(u(cfg, "addr", 1024)), ";\n   ".join(out))


# ---------------------------------------------------------------------------------------------------
# engine `db` (coq/Outstation/Database.v): the script language of harness/db.rs run_db

DB_PTYPE = {"bi": "TBinary", "dbi": "TDoubleBit", "bos": "TBos", "ctr": "TCounter", "fctr": "TFrozen",
            "ai": "TAnalog", "aos": "TAos", "oct": "TOctet"}
DB_PTYPE_ORDER = ["TBinary", "TDoubleBit", "TBos", "TCounter", "TFrozen", "TAnalog", "TAos", "TOctet"]
_variations = {}


def db_variations():
    """the constructors of `svar` and `evar` (coq/Outstation/DbTypes.v), so that a variation token the model has
    no constructor for is a RenderError and not a coqc error"""
    if not _variations:
        text = open(os.path.join(COQ, "Outstation", "DbTypes.v")).read()
        for name in ("svar", "evar"):
            m = re.search(r"Inductive %s :=(.*?)\." % name, text, re.S)
            _variations[name] = set(re.findall(r"G[0-9]+(?:V[0-9]+)?", m.group(1))) if m else set()
    return _variations


def db_var(kind, tok):
    m = re.fullmatch(r"g([0-9]+)v([0-9]+)", tok)
    if not m:
        raise RenderError("variation token")
    name = "G%dV%d" % (int(m.group(1)), int(m.group(2)))
    if name not in db_variations()[kind]:
        raise RenderError("variation outside the model")
    return name


def db_num(x, bits):
    """num(s) as u<bits> of harness/db.rs"""
    if not re.fullmatch(r"[0-9]+", x):
        raise RenderError("bad number")
    return int(x) & ((1 << bits) - 1)


def db_time(tok):
    if tok == "n":
        return "None"
    if tok[:1] in ("s", "u") and re.fullmatch(r"[0-9]+", tok[1:]):
        return "(Some (%s, %s))" % (cbool(tok[0] == "s"), cn(tok[1:]))
    raise RenderError("bad time")


def db_mode(tok):
    if len(tok) < 2 or tok[0] not in "dfs":
        raise RenderError("bad mode")
    return "%s %s" % (cbool(tok[1] == "1"), {"d": "Detect", "f": "Force", "s": "Suppress"}[tok[0]])


def db_f64(tok):
    if not re.fullmatch(r"[0-9a-fA-F]{1,16}", tok):
        raise RenderError("bad f64 bits")
    return int(tok, 16)


def db_op(t):
    k = t[0]
    if k == "add" and len(t) >= 6:
        ty = DB_PTYPE[t[1]]
        idx, cl = cn(db_num(t[2], 16)), CLASS[t[3]]
        if t[1] == "oct":
            return "DAdd TOctet %s (mkPc %s G110 G111 0)" % (idx, cl)
        sv, ev = db_var("svar", t[4]), db_var("evar", t[5])
        dead = 0
        if t[1] in ("ctr", "fctr"):
            dead = db_num(t[6], 32)
        elif t[1] in ("ai", "aos"):
            if db_f64(t[6]) != 0:
                raise RenderError("analog dead-band other than 0.0 is not modelled")
        return "DAdd %s %s (mkPc %s %s %s %s)" % (ty, idx, cl, sv, ev, cn(dead))
    if k == "rm" and len(t) == 3:
        return "DRm %s %s" % (DB_PTYPE[t[1]], cn(db_num(t[2], 16)))
    if k == "upd" and len(t) == 7:
        ty, v = t[1], t[3]
        flags, tm = cn(db_num(t[4], 8)), db_time(t[5])
        if ty in ("bi", "bos"):
            m = "(mkMeas %s %s %s [])" % ("1" if v == "1" else "0", flags, tm)
        elif ty == "dbi":
            if v not in ("0", "1", "2", "3"):
                raise RenderError("bad double bit")
            m = "(mkMeas %s %s %s [])" % (v, flags, tm)
        elif ty in ("ctr", "fctr"):
            m = "(mkMeas %s %s %s [])" % (cn(db_num(v, 32)), flags, tm)
        elif ty in ("ai", "aos"):
            m = "(mkMeas %s %s %s [])" % (cn(db_f64(v)), flags, tm)
        elif ty == "oct":
            m = "(mkMeas 0 %s %s %s)" % (flags, tm, cbytes(v))
        else:
            raise RenderError("bad type")
        return "DUpd %s %s %s %s" % (DB_PTYPE[ty], cn(db_num(t[2], 16)), m, db_mode(t[6]))
    if k == "updf" and len(t) == 6:
        if t[1] == "oct":
            raise RenderError("bad type")
        return "DUpdf %s %s %s %s %s" % (DB_PTYPE[t[1]], cn(db_num(t[2], 16)), cn(db_num(t[3], 8)), db_time(t[4]), db_mode(t[5]))
    if k == "get" and len(t) == 3:
        return "DGet %s %s" % (DB_PTYPE[t[1]], cn(db_num(t[2], 16)))
    if k == "sel" and len(t) >= 4:
        g, v = cn(db_num(t[1], 8)), cn(db_num(t[2], 8))
        q = t[3:]
        if q == ["all"]:
            qq = "QAll"
        elif q[0] in ("c8", "c16") and len(q) == 2:
            qq = "(QCount %s)" % cn(db_num(q[1], 8 if q[0] == "c8" else 16))
        elif q[0] in ("r8", "r16") and len(q) == 3:
            w = 8 if q[0] == "r8" else 16
            qq = "(QRange %s %s)" % (cn(db_num(q[1], w)), cn(db_num(q[2], w)))
        else:
            raise RenderError("bad qualifier")
        return "DSel %s %s %s" % (g, v, qq)
    if k == "selm" and len(t) == 2 and len(t[1]) >= 3:
        return "DSelm %s %s %s" % tuple(cbool(c == "1") for c in t[1][:3])
    if k == "wr" and len(t) == 2:
        return "DWr %s" % cn(db_num(t[1], 64))
    if k == "wre" and len(t) == 2:
        return "DWre %s" % cn(db_num(t[1], 64))
    if t == ["clr"]:
        return "DClr"
    if t == ["rst"]:
        return "DRst"
    if t == ["iin"]:
        return "DIin"
    raise RenderError("db engine: bad op " + "_".join(t))


def render_db(cfg, ops):
    c0s = cfg.get("c0", "11111110")
    if len(c0s) != 8:
        raise RenderError("c0 needs 8 digits")
    c0 = "(fun t => match t with %s end)" % " | ".join(
        "%s => %s" % (n, cbool(c == "1")) for n, c in zip(DB_PTYPE_ORDER, c0s))
    maxsel = "None" if "maxsel" not in cfg else "(Some %s)" % cn(db_num(cfg["maxsel"], 16))
    eb = "(mkEbCfg %s)" % " ".join(cn(db_num(cfg.get(k, "0"), 16)) for k in ("mb", "mdb", "mbos", "mc", "mfc", "ma", "maos", "mo"))
    try:
        opterms = [db_op(t) for t in ops]
    except (KeyError, IndexError) as e:
        raise RenderError("bad token %s" % e)
    return "cx_db_run %s %s %s\n  [%s]" % (maxsel, c0, eb, ";\n   ".join(opterms))


LINK_MODS = "Base.Bytes Link.Frame Link.Parser Link.Reader Link.Layer Transport.Assembler Transport.Segment Codes.CodesLink"

ENGINES = {
    # engine: (modules to import, renderer (cfg, ops) -> Coq term of type list (list N), .vo to build first)
    "ofull": ("Base.Bytes Link.Frame Outstation.DbTypes Outstation.Session Outstation.Full Codes.CodesOfull",
              render_ofull, "Codes/CodesOfull.vo"),
    "link": (LINK_MODS, render_link, "Codes/CodesLink.vo"),
    "layer": (LINK_MODS, render_layer, "Codes/CodesLink.vo"),
    "treader": (LINK_MODS, render_treader, "Codes/CodesLink.vo"),
    "twriter": (LINK_MODS, render_twriter, "Codes/CodesLink.vo"),
    "db": ("Base.Bytes Outstation.DbTypes Outstation.EventBuffer Outstation.StaticDb Outstation.Database Codes.CodesDb",
           render_db, "Codes/CodesDb.vo"),
}


def has_evaluator(script_text):
    try:
        return parse_script(script_text)[1] in ENGINES
    except (RenderError, IndexError):
        return False


# ---------------------------------------------------------------------------------------------------
# path A: coqc

HEADER = ("(* GENERATED by tools/coqeval.py: extraction cross-check, one Eval per script *)\n"
          "From Coq Require Import List NArith ZArith.\n"
          "From Dnp3V Require Import %s.\n"
          "Import ListNotations.\nOpen Scope N_scope.\nSet Printing Depth 100000000.\nSet Printing Width 4000.\n")

RESULT_RE = re.compile(r"^\s*=\s*(\[.*?\])\s*^\s*:\s*list \(list \(list bool\)\)", re.S | re.M)


def parse_codes(txt):
    """what Coq prints for `cx_show r` - every number as the list of its binary digits, least significant
    first, e.g. `[[[true]; [false; true]]; [[]]]` - -> [[1, 2], [0]].  (Coq's printer needs ~1 ms per number
    literal and microseconds per constructor: a 2 kB fragment printed as numbers costs seconds.)"""
    import json
    s = re.sub(r"\s+", "", txt).replace("true", "1").replace("false", "0").replace(";", ",")
    if not re.fullmatch(r"[01,\[\]]*", s):
        raise ValueError("unexpected characters")
    try:
        v = json.loads(s)
    except ValueError:
        raise ValueError("not a list")
    out = []
    if not isinstance(v, list):
        raise ValueError("not a list")
    for line in v:
        if not isinstance(line, list):
            raise ValueError("not a list of lists")
        nums = []
        for bits in line:
            if not isinstance(bits, list) or any(b not in (0, 1) for b in bits) or (bits and bits[-1] != 1):
                raise ValueError("not a list of binary digits")
            nums.append(sum(b << k for k, b in enumerate(bits)))
        out.append(nums)
    return out


def coq_codes(scripts, workdir, jobs=None):
    """scripts: [(sid, engine, cfg, ops)] all renderable.  Returns ({sid: [[int]]}, [error text], seconds)"""
    os.makedirs(workdir, exist_ok=True)
    t0 = time.time()
    by_engine = {}
    for s in scripts:
        by_engine.setdefault(s[1], []).append(s)
    files = []
    for eng, group in sorted(by_engine.items()):
        mods, render, _ = ENGINES[eng]
        jobs_n = jobs or os.cpu_count() or 4
        # as many files as processes are worth starting (loading the .vo files costs a second or two each)
        per = max(1, min(PER_FILE, (len(group) + jobs_n - 1) // jobs_n))
        for k in range(0, len(group), per):
            part = group[k:k + per]
            name = "cases_%s_%d" % (eng, k // per)
            body = HEADER % mods + "".join(
                "(* %s *)\nEval vm_compute in (cx_show (%s)).\n" % (sid, render(cfg, ops)) for sid, _, cfg, ops in part)
            path = os.path.join(workdir, name + ".v")
            open(path, "w").write(body)
            files.append((path, [p[0] for p in part]))
    out, errors = {}, []
    jobs_n = jobs or os.cpu_count() or 4
    pending = list(files)
    running = []
    while pending or running:
        while pending and len(running) < jobs_n:
            path, sids = pending.pop(0)
            # output to a file, not a pipe: a pipe that nobody reads blocks the process after 64 kB
            log = open(path + ".out", "w")
            p = subprocess.Popen(["timeout", str(COQC_TIMEOUT), "coqc", "-Q", COQ, "Dnp3V", "-w", "-notation-overridden",
                                  "-o", path + "o", path], cwd=workdir, stdout=log, stderr=subprocess.STDOUT)
            running.append((p, path, sids, log))
        done = [r for r in running if r[0].poll() is not None]
        if not done:
            time.sleep(0.02)
            continue
        for item in done:
            running.remove(item)
            p, path, sids, log = item
            log.close()
            so = open(path + ".out").read()
            res = RESULT_RE.findall(so)
            if p.returncode != 0 or len(res) != len(sids):
                errors.append("coqc %s: exit %s%s, %d results for %d scripts: %s"
                              % (os.path.basename(path), p.returncode, " (timeout)" if p.returncode == 124 else "",
                                 len(res), len(sids), so[-600:]))
                continue
            for sid, r in zip(sids, res):
                try:
                    out[sid] = parse_codes(r)
                except ValueError as e:
                    errors.append("coqc %s: %s: unparsable result (%s)" % (os.path.basename(path), sid, e))
    return out, errors, time.time() - t0


# ---------------------------------------------------------------------------------------------------
# path B: the extracted engine

def ocaml_codes(script_texts, workdir):
    os.makedirs(workdir, exist_ok=True)
    sp = os.path.join(workdir, "codes.in")
    open(sp, "w").write("\n".join(script_texts) + "\n")
    p = subprocess.run(["bash", "-c", "ulimit -s unlimited; exec %s --codes %s" % (os.path.join(OCAML, "driver"), sp)],
                       stdout=subprocess.PIPE, stderr=subprocess.PIPE, text=True, timeout=1800)
    if p.returncode != 0:
        raise RuntimeError("driver --codes failed: " + (p.stderr or "")[-1500:])
    out, cur = {}, None
    for line in p.stdout.splitlines():
        if line.startswith("C "):
            cur = []
            out[line.split()[1]] = cur
        elif line == "E":
            cur = None
        elif cur is not None:
            t = line.split()
            cur.append([int(x) for x in t] if all(re.fullmatch(r"[0-9]+", x) for x in t) else ["?" + line])
    return out


# ---------------------------------------------------------------------------------------------------

def sample(script_texts, n, seed):
    """a deterministic sample of n of the scripts that have an in-Coq evaluator, spread over the engines
    present (round robin); the order within an engine is that of a hash of seed and script id"""
    import hashlib
    groups = {}
    for txt in script_texts:
        try:
            sid, eng, cfg, ops = parse_script(txt)
            if eng not in ENGINES:
                continue
            ENGINES[eng][1](cfg, ops)
        except (RenderError, IndexError):
            continue
        groups.setdefault(eng, []).append((hashlib.sha256(("%d %s" % (seed, sid)).encode()).hexdigest(), txt))
    for g in groups.values():
        g.sort()
    out = []
    engines = sorted(groups)
    while len(out) < n and any(groups[e] for e in engines):
        for e in engines:
            if groups[e] and len(out) < n:
                out.append(groups[e].pop(0)[1])
    return out, sum(len(g) for g in groups.values()) + len(out)


def crosscheck(script_texts, workdir, jobs=None):
    """Returns a dict: evaluated (scripts evaluated in Coq), agreeing, not_rendered, seconds, differences
    [(sid, script text, description)], errors [text] (the machinery failed: coqc error, timeout, driver)."""
    todo, texts, skipped = [], {}, 0
    for txt in script_texts:
        try:
            sid, eng, cfg, ops = parse_script(txt)
            if eng not in ENGINES:
                skipped += 1
                continue
            ENGINES[eng][1](cfg, ops)           # renderable?
            if sid in texts:
                continue
            todo.append((sid, eng, cfg, ops))
            texts[sid] = txt
        except RenderError:
            skipped += 1
    res = {"evaluated": 0, "agreeing": 0, "not_rendered": skipped, "seconds": 0.0, "differences": [], "errors": []}
    if not todo:
        return res
    t0 = time.time()
    try:
        ocaml = ocaml_codes([texts[s[0]] for s in todo], workdir)
    except (RuntimeError, subprocess.TimeoutExpired) as e:
        res["errors"].append(str(e))
        return res
    coq, errors, _ = coq_codes(todo, workdir, jobs)
    res["errors"] += errors
    for sid, eng, _, _ in todo:
        if sid not in coq:
            continue
        res["evaluated"] += 1
        a, b = coq[sid], ocaml.get(sid)
        if a == b:
            res["agreeing"] += 1
        else:
            res["differences"].append((sid, texts[sid], first_code_difference(a, b)))
    res["seconds"] = round(time.time() - t0, 1)
    return res


def first_code_difference(a, b):
    if b is None:
        return "the extracted engine printed no codes for this script"
    for k in range(max(len(a), len(b))):
        x = a[k] if k < len(a) else None
        y = b[k] if k < len(b) else None
        if x != y:
            return "observation %d: in-Coq %s, extracted %s" % (k, str(x)[:300], str(y)[:300])
    return "no difference"


def main():
    import shutil
    text = open(sys.argv[1]).read()
    scripts = ["S " + x.strip() for x in ("\n" + text).split("\nS ")[1:]]
    if len(sys.argv) > 2:
        scripts = scripts[:int(sys.argv[2])]
    work = "/tmp/coqeval.%d" % os.getpid()
    try:
        r = crosscheck(scripts, work)
    finally:
        if not os.environ.get("COQEVAL_KEEP"):
            shutil.rmtree(work, ignore_errors=True)
    for sid, txt, d in r["differences"][:10]:
        print("DIFFERENCE %s: %s" % (sid, d))
    for e in r["errors"][:10]:
        print("ERROR " + e)
    print("coq_crosscheck: %d scripts evaluated in Coq, %d agreeing, %d not rendered, %.1fs"
          % (r["evaluated"], r["agreeing"], r["not_rendered"], r["seconds"]))
    sys.exit(1 if r["differences"] or r["errors"] else 0)


if __name__ == "__main__":
    main()
