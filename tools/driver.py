#!/usr/bin/env python3
"""Common machinery behind ./check: translators, Coq build with per-property targets, hygiene,
harness build, script execution on implementation and model, diffing, evidence, reporting."""
import fcntl, glob, hashlib, json, os, re, shutil, subprocess, sys, time

VERIF = os.path.dirname(os.path.dirname(os.path.abspath(__file__)))
REPO = os.environ.get("VERIF_REPO", "/repo")
COQ = os.path.join(VERIF, "coq")
OCAML = os.path.join(VERIF, "ocaml")
CACHE = os.path.join(VERIF, ".cache")
TARGET = os.path.join(CACHE, "target")
WORK = os.path.join(VERIF, "work")
NPROC = os.cpu_count() or 4

ENV = dict(os.environ, CARGO_NET_OFFLINE="true", CARGO_TARGET_DIR=TARGET,
           RUSTFLAGS="--cfg dnp3_verif")

# axioms of the standard library that may appear under Print Assumptions (DESIGN.md section 8)
ALLOWED_AXIOMS = {
    "ClassicalDedekindReals.sig_forall_dec", "ClassicalDedekindReals.sig_not_dec",
    "FunctionalExtensionality.functional_extensionality_dep", "Classical_Prop.classic",
}

TRUSTED_BASE = [
    "Coq 8.16.1 kernel and vm_compute (no native_compute)",
    "translators tools/gen/*.py (Rust tables -> coq/gen/*.v)",
    "extraction: Require Extraction + ExtrOcamlBasic only (bool, option, unit, list, prod, sumbool, sumor, andb, orb mapped to OCaml); OCaml 4.13.1; ocaml/driver.ml, ocaml/eng_*.ml - for engines ofull, link, layer, treader, twriter, db cross-checked on a sample of every run's scripts against Eval vm_compute inside Coq (coverage.coq_crosscheck); trusted for that check: the term renderer tools/coqeval.py, coq/Codes/*.v, vm_compute and Coq's printer",
    "correspondence harness /verif/harness (Rust, compiled into dnp3's test build via hook H1/H2), sfio-tokio-mock-io, tokio paused clock",
    "script generators and textual diff in tools/*.py",
    "rustc/cargo and the crate's dependencies",
]


class Lock:
    def __init__(self, name):
        os.makedirs(CACHE, exist_ok=True)
        self.path = os.path.join(CACHE, name + ".lock")
    def __enter__(self):
        self.f = open(self.path, "w")
        fcntl.flock(self.f, fcntl.LOCK_EX)
    def __exit__(self, *a):
        fcntl.flock(self.f, fcntl.LOCK_UN)
        self.f.close()


def sh(cmd, cwd=None, env=None, timeout=3600, check=True):
    p = subprocess.run(cmd, cwd=cwd, env=env, timeout=timeout, stdout=subprocess.PIPE,
                       stderr=subprocess.STDOUT, text=True, shell=isinstance(cmd, str))
    if check and p.returncode != 0:
        raise BuildError("command failed (%d): %s\n%s" % (p.returncode, cmd, p.stdout[-4000:]))
    return p


class BuildError(Exception):
    pass


# --------------------------------------------------------------------------------------------
# translators

def write_if_changed(path, text):
    if os.path.exists(path) and open(path).read() == text:
        return False
    os.makedirs(os.path.dirname(path), exist_ok=True)
    with open(path, "w") as f:
        f.write(text)
    return True


def run_translators(names):
    """each translator writes into a scratch dir; files are moved over only when they differ so
    that make does not rebuild proofs whose inputs did not change"""
    out = {}
    for name in names:
        script = os.path.join(VERIF, "tools", "gen", name + ".py")
        tmp = os.path.join(CACHE, "gen_tmp_" + name)
        shutil.rmtree(tmp, ignore_errors=True)
        os.makedirs(tmp)
        p = sh([sys.executable, script], env=dict(os.environ, VERIF_GEN_OUT=tmp, VERIF_REPO=REPO),
               check=False)
        if p.returncode != 0:
            raise BuildError("translator %s failed: %s" % (name, p.stdout[-2000:]))
        for f in sorted(os.listdir(tmp)):
            dst = os.path.join(COQ, "gen", f) if f.endswith(".v") else os.path.join(CACHE, "gen", f)
            changed = write_if_changed(dst, open(os.path.join(tmp, f)).read())
            out[f] = hashlib.sha256(open(dst, "rb").read()).hexdigest()[:16]
        shutil.rmtree(tmp, ignore_errors=True)
    return out


# --------------------------------------------------------------------------------------------
# Coq

def coq_files():
    fs = []
    for root, _, files in os.walk(COQ):
        for f in files:
            if f.endswith(".v"):
                rel = os.path.relpath(os.path.join(root, f), COQ)
                if rel.startswith("Extract") or rel.startswith("Properties") or rel.startswith("cases"):
                    continue
                if f.endswith("_wip.v") or "scratch" in rel:
                    continue
                fs.append(rel)
    return sorted(fs)


def coq_makefile():
    files = coq_files()
    text = "-Q . Dnp3V\n-arg -w -arg -notation-overridden,-deprecated-hint-without-locality,-deprecated-instance-without-locality,-deprecated-syntactic-definition\n" + "\n".join(files) + "\n"
    changed = write_if_changed(os.path.join(COQ, "_CoqProject"), text)
    if changed or not os.path.exists(os.path.join(COQ, "Makefile")):
        sh(["coq_makefile", "-f", "_CoqProject", "-o", "Makefile"], cwd=COQ)


def coq_build(targets, timeout=3000):
    """full .vo build (never -vos) of the named targets and everything they depend on"""
    with Lock("coq"):
        coq_makefile()
        t0 = time.time()
        p = sh(["timeout", str(timeout), "make", "-j%d" % NPROC] + [t + "o" if t.endswith(".v") else t for t in targets],
               cwd=COQ, check=False, timeout=timeout + 60)
        return p.returncode == 0, p.stdout, time.time() - t0


def coq_property(prop_file, timeout=1200):
    """compile Properties/<file>.v on its own to obtain a fresh Print Assumptions listing"""
    with Lock("coq"):
        p = sh(["timeout", str(timeout), "coqc", "-Q", ".", "Dnp3V", "-w",
                "-notation-overridden,-deprecated-hint-without-locality", prop_file],
               cwd=COQ, check=False, timeout=timeout + 60)
    return p.returncode == 0, p.stdout


def parse_assumptions(output):
    """returns {theorem: [axioms]} from the output of 'Print Assumptions' preceded by a marker
    line printed through 'Check' is not needed: coqc prints blocks in order, we pair them with the
    list of theorem names given by the caller instead."""
    blocks = []
    cur = None
    for line in output.splitlines():
        if line.startswith("Closed under the global context"):
            blocks.append([])
            cur = None
        elif line.startswith("Axioms:"):
            cur = []
            blocks.append(cur)
        elif cur is not None:
            m = re.match(r"^([A-Za-z_][\w.']*)\s*:", line)
            if m:
                cur.append(m.group(1))
            elif line and not line.startswith(" "):
                cur = None
    return blocks


HYGIENE_RE = re.compile(r"\b(Admitted|admit|Axiom|Axioms|Parameter|Parameters|Conjecture|Conjectures|Hypothesis|Hypotheses|Variable|Variables|Abort|bypass_check|Unset\s+Guard|Unset\s+Positivity|Unset\s+Universe|type-in-type|impredicative-set|Admit\s+Obligations|native_compute)\b")


def strip_comments(text):
    out = []
    depth = 0
    i = 0
    while i < len(text):
        if text.startswith("(*", i):
            depth += 1; i += 2
        elif text.startswith("*)", i) and depth > 0:
            depth -= 1; i += 2
        else:
            if depth == 0:
                out.append(text[i])
            elif text[i] == "\n":
                out.append("\n")
            i += 1
    return "".join(out)


def coq_closure(start_files):
    """the .v files (relative to coq/) a set of files depends on through `From Dnp3V Require ...`"""
    seen, todo = [], list(start_files)
    while todo:
        f = todo.pop()
        if f in seen or not os.path.exists(os.path.join(COQ, f)):
            continue
        seen.append(f)
        text = strip_comments(open(os.path.join(COQ, f)).read())
        for m in re.finditer(r"From\s+Dnp3V\s+Require\s+(?:Import\s+|Export\s+)?([^.]+(?:\.[A-Za-z_][\w']*)*)\s*\.", text):
            for mod in m.group(1).split():
                todo.append(mod.replace(".", "/") + ".v")
    return seen


def hygiene(scope=None):
    """no Admitted/admit/Axiom/Parameter/... in the development; Variable/Hypothesis are allowed
    only inside a Section.  scope = list of .v files (relative to coq/): only these and everything
    they depend on are scanned (the files a property's theorems are built from); None = all."""
    bad = []
    only = None if scope is None else set(coq_closure(scope))
    for root, _, files in os.walk(COQ):
        for f in files:
            if not f.endswith(".v") or f.endswith("_wip.v") or "scratch" in root:
                continue
            path = os.path.join(root, f)
            if only is not None and os.path.relpath(path, COQ) not in only:
                continue
            text = strip_comments(open(path).read())
            in_section = 0
            for ln, line in enumerate(text.splitlines(), 1):
                if re.match(r"\s*Section\b", line): in_section += 1
                if re.match(r"\s*End\b", line) and in_section: in_section -= 1
                for m in HYGIENE_RE.finditer(line):
                    w = m.group(1)
                    if w in ("Variable", "Variables", "Hypothesis", "Hypotheses") and in_section:
                        continue
                    bad.append("%s:%d: %s" % (os.path.relpath(path, VERIF), ln, line.strip()[:120]))
    return bad


# --------------------------------------------------------------------------------------------
# OCaml model driver

def extract_roots():
    """coq/Extract/roots/<engine>.txt: lines 'Require <Module>' and 'Root <ident> ...'.
    Returns {engine: (requires, roots)}"""
    out = {}
    d = os.path.join(COQ, "Extract", "roots")
    for f in sorted(os.listdir(d)):
        if not f.endswith(".txt"):
            continue
        reqs, roots = [], []
        for line in open(os.path.join(d, f)):
            t = line.split()
            if not t:
                continue
            if t[0] == "Require":
                reqs += [x for x in t[1:] if x not in reqs]
            elif t[0] == "Root":
                roots += [x for x in t[1:] if x not in roots]
        out[f[:-4]] = (reqs, roots)
    return out


def build_model():
    """One extraction per engine: coq/Extract/roots/<e>.txt -> Extract_<e>.v -> ocaml/model_<e>.ml
    (ExtrOcamlBasic only).  ocaml/eng_<e>.ml is compiled as
        module Model = Model_<e>  +  conv.inc  +  eng_<e>.ml
    so that the models of different engines cannot clash.  An engine whose model or glue does not
    compile is left out with a warning: only its own scripts are affected."""
    with Lock("ocaml"):
        allroots = extract_roots()
        stamp = os.path.join(OCAML, "driver")
        srcs = [os.path.join(COQ, f) for f in coq_files()] + glob.glob(os.path.join(COQ, "Extract", "roots", "*.txt")) \
            + [os.path.join(OCAML, x) for x in ("driver.ml", "main.ml", "conv.inc")] + glob.glob(os.path.join(OCAML, "eng_*.ml"))
        newest = max(os.path.getmtime(x) for x in srcs)
        if os.path.exists(stamp) and os.path.getmtime(stamp) >= newest:
            return
        sh(["ocamlfind", "ocamlopt", "-w", "-a", "-c", "driver.ml"], cwd=OCAML)
        good = []
        conv = open(os.path.join(OCAML, "conv.inc")).read()
        for eng, (reqs, roots) in sorted(allroots.items()):
            engfile = os.path.join(OCAML, "eng_%s.ml" % eng)
            if not os.path.exists(engfile):
                continue
            try:
                ok, out, _ = coq_build([r.replace(".", "/") + ".vo" for r in reqs])
                if not ok:
                    raise BuildError("coq build of the model failed:\n" + out[-1500:])
                text = ("(* GENERATED by tools/driver.py from coq/Extract/roots/%s.txt.  Extraction of an executable\n"
                        "   model to OCaml.  ExtrOcamlBasic only: bool, option, unit, list, prod, sumbool, sumor are\n"
                        "   mapped to their OCaml namesakes; numbers stay Coq positive/N/Z/nat. *)\n"
                        "Require Extraction.\nRequire Import ExtrOcamlBasic.\n" % eng
                        + "".join("From Dnp3V Require Import %s.\n" % r for r in reqs)
                        + "Extraction Language OCaml.\n"
                        + 'Extraction "model_%s.ml" %s.\n' % (eng, " ".join(roots)))
                vfile = os.path.join(COQ, "Extract", "Extract_%s.v" % eng)
                write_if_changed(vfile, text)
                sh(["coqc", "-Q", COQ, "Dnp3V", vfile], cwd=OCAML)
                sh(["ocamlfind", "ocamlopt", "-w", "-a", "-c", "model_%s.mli" % eng, "model_%s.ml" % eng], cwd=OCAML)
                body = open(engfile).read()
                body = re.sub(r"^open Model\s*$", "", body, flags=re.M)
                gen = "module Model = Model_%s\n%s\n%s" % (eng, conv, body)
                write_if_changed(os.path.join(OCAML, "gen_eng_%s.ml" % eng), gen)
                sh(["ocamlfind", "ocamlopt", "-w", "-a", "-c", "gen_eng_%s.ml" % eng], cwd=OCAML)
                good.append(eng)
            except BuildError as e:
                sys.stderr.write("warning: engine %s is left out of the model driver: %s\n" % (eng, str(e)[-800:]))
        objs = []
        for eng in good:
            objs += ["model_%s.cmx" % eng, "gen_eng_%s.cmx" % eng]
        sh(["ocamlfind", "ocamlopt", "-w", "-a", "driver.cmx"] + objs + ["main.ml", "-o", "driver"], cwd=OCAML)


def run_model(script_path, out_path):
    p = subprocess.run(["bash", "-c", "ulimit -s unlimited; exec %s %s" % (os.path.join(OCAML, "driver"), script_path)],
                       stdout=open(out_path, "w"), stderr=subprocess.PIPE, text=True)
    if p.returncode != 0:
        raise BuildError("model driver failed: " + p.stderr[-2000:])


# --------------------------------------------------------------------------------------------
# Rust harness

_harness_bin = None

def build_harness():
    global _harness_bin
    if _harness_bin:
        return _harness_bin
    with Lock("cargo"):
        p = sh(["cargo", "test", "-p", "dnp3", "--lib", "--no-run", "--offline", "--message-format=json"],
               cwd=REPO, env=ENV, check=False, timeout=3000)
        exe = None
        msgs = []
        for line in p.stdout.splitlines():
            if not line.startswith("{"):
                continue
            try:
                j = json.loads(line)
            except ValueError:
                continue
            if j.get("reason") == "compiler-artifact" and j.get("executable") and j["target"]["name"] == "dnp3":
                exe = j["executable"]
            if j.get("reason") == "compiler-message":
                msgs.append(j["message"].get("rendered", ""))
        if p.returncode != 0 or not exe:
            raise BuildError("cargo build of the harness failed:\n" + "\n".join(msgs)[-4000:] + p.stdout[-1000:])
        # private copy so that a concurrent rebuild cannot replace the binary while we run it
        dst = os.path.join(CACHE, "bin", "dnp3-harness-%s" % hashlib.sha256(open(exe, "rb").read()).hexdigest()[:12])
        os.makedirs(os.path.dirname(dst), exist_ok=True)
        if not os.path.exists(dst):
            shutil.copy2(exe, dst)
        else:
            os.utime(dst)
        # keep the few most recent copies only (a concurrent check may still run an older one)
        olds = sorted((f for f in os.listdir(os.path.dirname(dst)) if f.startswith("dnp3-harness-")),
                      key=lambda f: os.path.getmtime(os.path.join(os.path.dirname(dst), f)))
        for f in olds[:-4]:
            if os.path.join(os.path.dirname(dst), f) != dst:
                try: os.remove(os.path.join(os.path.dirname(dst), f))
                except OSError: pass
        _harness_bin = dst
        return dst


def run_impl_shards(scripts, workdir, tag):
    """scripts: list of script texts. Returns dict id -> list of observation lines."""
    exe = build_harness()
    os.makedirs(workdir, exist_ok=True)
    n = max(1, min(NPROC, (len(scripts) + 19) // 20))
    procs = []
    for i in range(n):
        part = scripts[i::n]
        sp = os.path.join(workdir, "%s.impl.%d.in" % (tag, i))
        op = os.path.join(workdir, "%s.impl.%d.out" % (tag, i))
        open(sp, "w").write("\n".join(part) + "\n")
        if os.path.exists(op):
            os.remove(op)
        env = dict(os.environ, VERIF_SCRIPTS=sp, VERIF_OUT=op, RUST_BACKTRACE="0")
        procs.append((subprocess.Popen([exe, "verif_harness::verif_run", "--exact", "--test-threads=1"],
                                       env=env, stdout=subprocess.PIPE, stderr=subprocess.STDOUT, text=True), op, sp))
    out = {}
    for p, op, sp in procs:
        try:
            so, _ = p.communicate(timeout=1800)
        except subprocess.TimeoutExpired:
            p.kill()
            so = "timeout"
        if os.path.exists(op):
            out.update(parse_traces(open(op).read()))
        else:
            # the process died (abort, stall): mark all its scripts
            for sid in script_ids(open(sp).read()):
                out.setdefault(sid, ["harness-died " + so[-200:].replace("\n", " ")])
    return out


def run_model_shards(scripts, workdir, tag):
    build_model()
    os.makedirs(workdir, exist_ok=True)
    n = max(1, min(NPROC, (len(scripts) + 19) // 20))
    procs = []
    for i in range(n):
        part = scripts[i::n]
        sp = os.path.join(workdir, "%s.model.%d.in" % (tag, i))
        op = os.path.join(workdir, "%s.model.%d.out" % (tag, i))
        open(sp, "w").write("\n".join(part) + "\n")
        procs.append((subprocess.Popen(["bash", "-c", "ulimit -s unlimited; exec %s %s" % (os.path.join(OCAML, "driver"), sp)],
                                       stdout=open(op, "w"), stderr=subprocess.PIPE, text=True), op))
    out = {}
    for p, op in procs:
        _, se = p.communicate(timeout=1800)
        if p.returncode != 0:
            raise BuildError("model driver failed: " + (se or "")[-2000:])
        out.update(parse_traces(open(op).read()))
    return out


def script_ids(text):
    return [l.split()[1] for l in text.splitlines() if l.startswith("S ")]


def parse_traces(text):
    out = {}
    cur = None
    for line in text.splitlines():
        if line.startswith("T "):
            cur = []
            out[line.split()[1]] = cur
        elif line == "E":
            cur = None
        elif cur is not None:
            cur.append(line)
    return out


def script_text(sid, engine, cfg, ops):
    head = "S %s %s %s" % (sid, engine, " ".join("%s=%s" % kv for kv in sorted(cfg.items())))
    return "\n".join([head.rstrip()] + [" ".join(str(x) for x in op) for op in ops] + ["E"])


# --------------------------------------------------------------------------------------------
# deterministic PRNG (xorshift64*) so that every random choice derives from VERIF_SEED

class Rng:
    def __init__(self, seed):
        self.s = (seed * 0x9E3779B97F4A7C15 + 0x1234567) & 0xFFFFFFFFFFFFFFFF or 1
    def next(self):
        x = self.s
        x ^= (x >> 12); x ^= (x << 25) & 0xFFFFFFFFFFFFFFFF; x ^= (x >> 27)
        self.s = x
        return (x * 0x2545F4914F6CDD1D) & 0xFFFFFFFFFFFFFFFF
    def below(self, n):
        return self.next() % n if n > 0 else 0
    def range(self, a, b):
        return a + self.below(b - a + 1)
    def choice(self, xs):
        return xs[self.below(len(xs))]
    def chance(self, num, den):
        return self.below(den) < num
    def bytes(self, n):
        return bytes(self.below(256) for _ in range(n))
    def shuffle(self, xs):
        for i in range(len(xs) - 1, 0, -1):
            j = self.below(i + 1)
            xs[i], xs[j] = xs[j], xs[i]


def hexs(b):
    return b.hex() if len(b) else "-"


# --------------------------------------------------------------------------------------------
# known findings, reporting, evidence

def known_findings():
    p = os.path.join(VERIF, "known_findings.json")
    if not os.path.exists(p):
        return []
    return json.load(open(p))["findings"]


def write_evidence(pid, tier, seed, coverage, assumptions, wall, violations):
    os.makedirs(os.path.join(VERIF, "evidence"), exist_ok=True)
    ev = {"property_id": pid, "tier": tier, "seed": seed, "level": "proof", "coverage": coverage,
          "assumptions": assumptions, "wall_s": round(wall, 2), "violations": violations}
    with open(os.path.join(VERIF, "evidence", pid + ".json"), "w") as f:
        json.dump(ev, f, indent=1, sort_keys=True)
        f.write("\n")


def write_replay(pid, name, obj):
    d = os.path.join(VERIF, "replays", pid)
    os.makedirs(d, exist_ok=True)
    path = os.path.join(d, name)
    with open(path, "w") as f:
        json.dump(obj, f, indent=1)
        f.write("\n")
    return os.path.relpath(path, VERIF)
