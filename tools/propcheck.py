#!/usr/bin/env python3
"""Generic flow of one property check (DESIGN.md section 3)."""
import hashlib, json, os, shutil, sys, time, traceback
from driver import *


class Case:
    def __init__(self, sid, script, meta=None):
        self.sid = sid          # script id
        self.script = script    # script text (S ... E)
        self.meta = meta or {}  # ground truth kept by the generator, used by the oracle


class Prop:
    id = "C00"
    translators = []
    proof_targets = []       # .vo files built with make
    property_file = None     # Properties/Cxx.v
    theorems = []            # names proved in property_file, in file order
    extra_assumptions = []
    modelled = ""            # what is modelled rather than verified (goes into evidence)

    def cases(self, rng, tier):
        return []

    def corpus(self):
        """minimised scripts that once failed; always run first"""
        d = os.path.join(VERIF, "corpus", self.id)
        out = []
        if os.path.isdir(d):
            for f in sorted(os.listdir(d)):
                if f.endswith(".txt"):
                    text = open(os.path.join(d, f)).read().strip()
                    sid = text.split()[1]
                    meta = {}
                    mp = os.path.join(d, f[:-4] + ".meta.json")
                    if os.path.exists(mp):
                        meta = json.load(open(mp))
                    out.append(Case(sid, text, meta))
        return out

    def oracle(self, case, impl):
        """direct check of the property on an implementation trace; returns list of
        (clause, description)"""
        return []

    def nontrivial(self, case, impl):
        return len(impl) > 1

    def finding_signature(self, case, clause, desc):
        """signature used to match known findings"""
        return clause

    def model_script(self, case, impl):
        """script given to the model; engines whose model consumes the answers of the
        implementation's environment (recorded in the implementation trace) override this"""
        return case.script

    def canon(self, lines, side):
        """canonical form of a trace before comparison (side = 'impl' or 'model')"""
        return lines

    def search(self, rng, reason):
        """extra, targeted cases generated when a proof or the correspondence broke"""
        return []


def trace_hash(lines):
    return hashlib.sha256("\n".join(lines).encode()).hexdigest()[:16]


def run_cases(prop, cases, tag):
    # one scratch directory per process: concurrent checks of the same property must not collide
    work = os.path.join(WORK, prop.id, "p%d" % os.getpid())
    scripts = [c.script for c in cases]
    try:
        impl = run_impl_shards(scripts, work, tag)
        mscripts = [prop.model_script(c, impl.get(c.sid, [])) for c in cases]
        model = run_model_shards(mscripts, work, tag)
        # optional second model pass (the composed outstation model, engine `ofull`; the composed master model,
        # engine `mfull`; prop.extra_name names the engine in the reports): scripts that do NOT depend on the
        # implementation's answers / the generator's oracle inputs; None = the case is not covered by that model
        extra = None
        if hasattr(prop, "extra_model_script"):
            xscripts = [x for x in (prop.extra_model_script(c, impl.get(c.sid, [])) for c in cases) if x]
            extra = run_model_shards(xscripts, work, tag + "x") if xscripts else {}
    finally:
        shutil.rmtree(work, ignore_errors=True)
    return impl, model, extra


def check_property(prop, tier, seed, replay=None):
    t0 = time.time()
    rng = Rng(seed)
    lines = []         # report lines printed at the end
    broken = []        # proof obligations / correspondences that no longer check
    coverage = {"checker_cmd": "make -C coq <targets> (coq_makefile, full .vo) ; coqc Properties/%s.v ; Print Assumptions" % prop.id,
                "trusted_base": TRUSTED_BASE + ([prop.modelled] if prop.modelled else [])}
    violations = []    # (clause, desc, case, impl_trace, model_trace)

    # 0. fingerprints of the anchored source files (which code this run was about)
    try:
        for line in open(os.path.join(VERIF, "properties.jsonl")):
            rec = json.loads(line)
            if rec["id"] == prop.id:
                fpr = {}
                for f in rec["anchors"]["files"]:
                    path = os.path.join(REPO, f)
                    if os.path.exists(path):
                        fpr[f] = hashlib.sha256(open(path, "rb").read()).hexdigest()[:12]
                coverage["anchored_source_fingerprints"] = fpr
                head = sh(["git", "-C", REPO, "rev-parse", "--short", "HEAD"], check=False).stdout.strip()
                dirty = sh(["git", "-C", REPO, "status", "--porcelain", "--untracked-files=no"], check=False).stdout.strip()
                coverage["repo_head"] = head + ("+dirty" if dirty else "")
    except Exception:
        pass

    # 1. translators
    try:
        fp = run_translators(prop.translators)
        coverage["generated_tables"] = fp
    except BuildError as e:
        broken.append(("translator", str(e)[:1500]))
        fp = {}

    # 2. hygiene
    bad = hygiene([prop.property_file] + [t[:-1] if t.endswith(".vo") else t for t in prop.proof_targets] if prop.property_file else None)
    if bad:
        broken.append(("hygiene", "; ".join(bad[:10])))

    # 3. proofs
    obligations = len(prop.theorems)
    discharged = 0
    assumptions_seen = {}
    if not any(b[0] == "translator" for b in broken):
        ok, out, secs = coq_build(prop.proof_targets)
        coverage["coq_build_s"] = round(secs, 1)
        if not ok:
            m = [l for l in out.splitlines() if "Error" in l or l.startswith("File ")]
            broken.append(("proof-build", "\n".join(out.splitlines()[-25:])))
        else:
            ok2, out2 = coq_property(prop.property_file)
            if not ok2:
                broken.append(("property-file", "\n".join(out2.splitlines()[-25:])))
            else:
                blocks = parse_assumptions(out2)
                if len(blocks) != len(prop.theorems):
                    broken.append(("assumptions", "expected %d Print Assumptions blocks, saw %d" % (len(prop.theorems), len(blocks))))
                else:
                    for name, axs in zip(prop.theorems, blocks):
                        assumptions_seen[name] = axs
                        extra = [a for a in axs if a not in ALLOWED_AXIOMS]
                        if extra:
                            broken.append(("axioms", "%s depends on %s" % (name, ", ".join(extra))))
                        else:
                            discharged += 1
    # thorough tier: independent re-check of the compiled property file and everything it depends on
    if tier == "thorough" and prop.property_file and not broken:
        mod = "Dnp3V." + prop.property_file[:-2].replace("/", ".")
        p = sh(["timeout", "3000", "coqchk", "-o", "-silent", "-Q", ".", "Dnp3V", mod], cwd=COQ, check=False, timeout=3100)
        tail = [l for l in p.stdout.splitlines() if l.strip()][-12:]
        coverage["coqchk"] = {"exit": p.returncode, "tail": tail}
        if p.returncode != 0:
            broken.append(("coqchk", "\n".join(tail)))
    coverage["obligations"] = obligations
    coverage["discharged"] = discharged
    coverage["theorems"] = prop.theorems
    coverage["print_assumptions"] = assumptions_seen

    # 4./5. correspondence and direct oracle
    evaluations = 0
    nontrivial = set()
    mismatches = []
    xmismatches = []   # second model pass (prop.extra_model_script / prop.extra_canon)
    xpass = {"compared": 0, "skipped_by_script": 0, "skipped_by_model": 0}
    samples = []
    dist = {}
    try:
        if replay:
            cases = [load_replay_case(replay)]
        else:
            cases = prop.corpus() + prop.cases(rng, tier)
            if broken:
                cases += prop.search(rng, broken[0][0])
        if cases:
            res = run_cases(prop, cases, "run")     # (impl, model) from the overrides of c02/c20, else (impl, model, extra)
            impl, model = res[0], res[1]
            extra = res[2] if len(res) > 2 else None
            if extra is not None:
                # second pass: compare the implementation's trace with the second model's own trace
                for c in cases:
                    if c.sid not in extra:
                        xpass["skipped_by_script"] += 1
                        continue
                    it = impl.get(c.sid, ["missing"])
                    xt = extra[c.sid]
                    a, b = prop.extra_canon(it, "impl"), prop.extra_canon(xt, "model")
                    if a is None or b is None:          # the model itself says the script is outside its domain
                        xpass["skipped_by_model"] += 1
                        continue
                    xpass["compared"] += 1
                    if a != b:
                        xmismatches.append((c, it, xt))
            for c in cases:
                it = impl.get(c.sid, ["missing"])
                mt = model.get(c.sid, ["missing"])
                evaluations += 1
                k = c.meta.get("kind", "?")
                dist[k] = dist.get(k, 0) + 1
                if prop.nontrivial(c, it):
                    nontrivial.add(trace_hash(it + [c.script.split("\n", 1)[0].split(" ", 2)[2]]))
                if len(samples) < 3 and prop.nontrivial(c, it):
                    samples.append({"script": c.script.splitlines()[:12], "impl_trace": it[:12], "model_trace": mt[:12]})
                if prop.canon(it, "impl") != prop.canon(mt, "model") and not c.meta.get("impl_only"):
                    mismatches.append((c, it, mt))
                for clause, desc in prop.oracle(c, it):
                    violations.append((clause, desc, c, it, mt))
    except BuildError as e:
        broken.append(("harness-or-model-build", str(e)[:3000]))
    except Exception as e:  # a crash of the machinery must not look like success
        broken.append(("machinery", traceback.format_exc()[-3000:]))

    # 5a. extraction cross-check: a deterministic sample of the scripts the model was given is evaluated
    # INSIDE Coq (vm_compute on a term rendered from the script text by tools/coqeval.py) and compared with the
    # numeric serialisation the extracted OCaml engine prints for the same scripts (driver --codes)
    xc_differences = []
    try:
        if evaluations:
            given = []
            for c in cases:
                if c.sid in model and not c.meta.get("impl_only"):      # impl_only: the model's trace is not used
                    given.append(prop.model_script(c, impl.get(c.sid, [])))
                if extra and c.sid in extra:
                    given.append(prop.extra_model_script(c, impl.get(c.sid, [])))
            want = int(os.environ.get("VERIF_CROSSCHECK_N", "120" if tier == "thorough" else "12"))
            xc = extraction_crosscheck([g for g in given if g], want, seed, prop.id)
            if xc is not None:
                xc_differences = xc.pop("differences")
                errors = xc.pop("errors")
                coverage["coq_crosscheck"] = xc
                if xc_differences:
                    broken.append(("extraction-crosscheck", "in-Coq evaluation and extracted engine differ on %d of %d scripts; first: %s: %s"
                                   % (len(xc_differences), xc["scripts_evaluated_in_coq"], xc_differences[0][0], xc_differences[0][2])))
                if errors:
                    broken.append(("extraction-crosscheck", "the cross-check could not be carried out: " + "; ".join(errors)[:1500]))
    except BuildError as e:
        broken.append(("extraction-crosscheck", "the cross-check could not be carried out: " + str(e)[:1500]))
    except Exception:
        broken.append(("extraction-crosscheck", "the cross-check could not be carried out: " + traceback.format_exc()[-1500:]))

    if evaluations == 0 and not any(b[0] in ("harness-or-model-build", "machinery") for b in broken):
        broken.append(("machinery", "no script was executed"))
    coverage["evaluations"] = evaluations
    coverage["distinct_nontrivial"] = len(nontrivial)
    coverage["traces_validated_against_impl"] = evaluations
    coverage["model_impl_mismatches"] = len(mismatches) + len(xmismatches)
    if hasattr(prop, "extra_model_script"):
        coverage["second_pass"] = dict(xpass, mismatches=len(xmismatches),
                                       what=getattr(prop, "extra_what", "second model pass"))
        coverage["traces_validated_against_impl_second_pass"] = xpass["compared"]
    coverage["input_distribution"] = dist
    coverage["samples"] = samples or [{"note": "no script executed"}]
    coverage["rule"] = getattr(prop, "rule", "")
    # a property may name correspondences of its own that broke (C02: runs the abstract system cannot explain)
    broken += getattr(prop, "broken_correspondences", lambda: [])()
    coverage.update(getattr(prop, "coverage_extra", lambda: {})())

    # 6. classify
    known = [k for k in known_findings() if k.get("property") == prop.id and k.get("status") == "open"]
    exit_code = 0
    reported_known = set()
    nviol = 0
    seen_sigs = set()
    for clause, desc, c, it, mt in violations:
        sig = prop.finding_signature(c, clause, desc)
        k = next((k for k in known if k["signature"] == sig), None)
        if k:
            if sig not in reported_known:
                reported_known.add(sig)
                lines.append("KNOWN-FINDING: property=%s %s" % (prop.id, k["what"]))
            continue
        if sig in seen_sigs:
            continue
        seen_sigs.add(sig)
        nviol += 1
        path = write_replay(prop.id, "violation_%d.json" % nviol,
                            {"property": prop.id, "clause": clause, "what": desc, "script": c.script,
                             "meta": c.meta, "impl_trace": it, "model_trace": mt,
                             "replay": "./check %s --replay <this file>" % prop.id})
        lines.append("VIOLATION property=%s replay=%s" % (prop.id, path))
        exit_code = 1
    if nviol == 0 and (broken or mismatches or xmismatches):
        what = []
        for kind, text in broken:
            what.append({"broken": kind, "detail": text})
        for c, it, mt in mismatches[:5]:
            what.append({"broken": "correspondence", "script": c.script, "impl_trace": it, "model_trace": mt})
        for c, it, xt in xmismatches[:5]:
            what.append({"broken": "correspondence-" + getattr(prop, "extra_name", "ofull"), "script": c.script, "impl_trace": it, "model_trace": xt})
        for sid, text, diff in xc_differences[:5]:
            what.append({"broken": "extraction-crosscheck", "script": text, "difference": diff})
        path = write_replay(prop.id, "unexplained.json",
                            {"property": prop.id, "no_failing_input_found": True,
                             "theorems_or_correspondence_no_longer_checking": what})
        lines.append("VIOLATION property=%s replay=%s no-failing-input-found" % (prop.id, path))
        exit_code = 1
    if broken:
        coverage["broken"] = [b[0] for b in broken]

    write_evidence(prop.id, tier, seed, coverage,
                   ["model and theorems: /verif/coq; tie: translators + correspondence (see coverage.trusted_base)"]
                   + prop.extra_assumptions, time.time() - t0, nviol)
    for l in lines:
        print(l)
    print("%s %s: obligations %d/%d, %d scripts (%d distinct non-trivial), %d model/impl mismatches, %d violations, %.1fs"
          % (prop.id, tier, discharged, obligations, evaluations, len(nontrivial), len(mismatches) + len(xmismatches), nviol, time.time() - t0))
    if hasattr(prop, "extra_model_script"):
        print("%s second pass (%s): %d scripts compared, %d mismatches, %d not covered (%d by script, %d by model)"
              % (prop.id, getattr(prop, "extra_what", "second model"), xpass["compared"], len(xmismatches),
                 xpass["skipped_by_script"] + xpass["skipped_by_model"], xpass["skipped_by_script"], xpass["skipped_by_model"]))
    if "coq_crosscheck" in coverage:
        xc = coverage["coq_crosscheck"]
        print("%s extraction cross-check: %d scripts evaluated in Coq, %d agreeing with the extracted engine (sample of %d with an in-Coq evaluator; %s), %.1fs"
              % (prop.id, xc["scripts_evaluated_in_coq"], xc["scripts_agreeing"], xc["candidates"],
                 ", ".join("%s %d" % kv for kv in sorted(xc["engines"].items())) or "no engine", xc["seconds"]))
    if broken:
        for kind, text in broken:
            print("BROKEN %s: %s" % (kind, text[:600].replace("\n", " | ")))
    for c, it, mt in mismatches[:3]:
        print("MISMATCH %s\n  script: %s\n  impl:   %s\n  model:  %s" % (c.sid, c.script.replace("\n", " / ")[:600], " / ".join(it)[:400], " / ".join(mt)[:400]))
    for c, it, xt in xmismatches[:3]:
        print("MISMATCH-%s %s\n  script: %s\n  %s" % (getattr(prop, "extra_name", "ofull"), c.sid, c.script.replace("\n", " / ")[:600], first_difference(prop.extra_canon(it, "impl"), prop.extra_canon(xt, "model"))))
    return exit_code


def extraction_crosscheck(script_texts, want, seed, pid):
    """None when no script of the run has an in-Coq evaluator; else the evidence record plus `differences`
    [(sid, script, description)] and `errors` [text]"""
    import coqeval
    chosen, candidates = coqeval.sample(script_texts, want, seed)
    if not chosen:
        return None
    t0 = time.time()
    engines = {}
    for txt in chosen:
        e = txt.split()[2]
        engines[e] = engines.get(e, 0) + 1
    work = os.path.join(WORK, pid, "p%d" % os.getpid(), "xc")
    try:
        res = None
        for attempt in (0, 1):
            # the extracted driver and the compiled serialisers must be those of the current model files
            build_model()
            ok, out, _ = coq_build(sorted(set(coqeval.ENGINES[e][2] for e in engines)))
            if not ok:
                raise BuildError("coq build of the serialisers failed:\n" + out[-1500:])
            res = coqeval.crosscheck(chosen, work)
            if not res["errors"]:
                break           # a .vo replaced while coqc was loading it: build again, try once more
    finally:
        shutil.rmtree(os.path.join(WORK, pid, "p%d" % os.getpid()), ignore_errors=True)
    return {"scripts_evaluated_in_coq": res["evaluated"], "scripts_agreeing": res["agreeing"], "sampled": len(chosen),
            "candidates": candidates, "engines": engines, "seconds": round(time.time() - t0, 1),
            "what": "Eval vm_compute of the model on a term rendered from the script text (tools/coqeval.py) = numeric "
                    "serialisation (coq/Codes) printed by the extracted OCaml engine (driver --codes)",
            "differences": res["differences"], "errors": res["errors"]}


def first_difference(a, b):
    """the first line at which two canonical traces differ, with a little context"""
    a, b = a or [], b or []
    for k in range(max(len(a), len(b))):
        x = a[k] if k < len(a) else "<none>"
        y = b[k] if k < len(b) else "<none>"
        if x != y:
            return "after: %s\n  impl:   %s\n  model:  %s" % (" / ".join(a[max(0, k - 3):k]), x, y)
    return "no difference"


def load_replay_case(path):
    j = json.load(open(path))
    if "script" in j:
        text = j["script"]
        return Case(text.split()[1], text, j.get("meta", {}))
    for w in j.get("theorems_or_correspondence_no_longer_checking", []):
        if "script" in w:
            return Case(w["script"].split()[1], w["script"], {})
    raise SystemExit("replay file has no script")
