#!/bin/bash
# usage: tools/seed_regress.sh [name...]   re-applies every kept seeded change to /repo (one at a time), runs the quick
# check of its property (or the checks listed in seeded/<name>/checks), expects a VIOLATION line WITHOUT
# no-failing-input-found, un-applies it.  Finishes with the checks on the clean tree so that evidence is current.
cd /verif
names="$@"; [ -z "$names" ] && names=$(ls seeded | grep -v README | grep -v harmless)
declare -A touched
fail=0
for n in $names; do
  d=seeded/$n; [ -f $d/patch.diff ] || continue
  prop=$(python3 -c "import json;print(json.load(open('$d/meta.json'))['property'])")
  checks=$prop; [ -f $d/checks ] && checks=$(cat $d/checks)
  if ! git -C /repo apply --check /verif/$d/patch.diff 2>/dev/null; then echo "$n: patch no longer applies (SKIPPED)"; continue; fi
  git -C /repo apply /verif/$d/patch.diff
  caught=no
  for c in $checks; do
    touched[$c]=1
    out=$(./check $c quick 2>&1 | grep -a "^VIOLATION" | grep -v no-failing-input-found | head -1)
    [ -n "$out" ] && caught="$c"
  done
  git -C /repo apply -R /verif/$d/patch.diff
  if [ "$caught" = no ]; then echo "$n: NOT CAUGHT by $checks"; fail=1; else echo "$n: caught by $caught"; fi
done
[ -n "$(git -C /repo status --short)" ] && echo "WARNING: /repo is not clean"
for c in "${!touched[@]}"; do ./check $c quick >/dev/null 2>&1; done
exit $fail
