"""C10 - Measurement values survive the trip from outstation database to master handler."""
import struct
from propcheck import *

# ---- variation tables of the ORACLE (written from the DNP3 object library, not from the code) -----
# (group, var) -> (value kind, has flags, time kind)
#   value kind: 'bit' packed single bit, 'dbit' packed double bit, 'flags' value carried in the flag octet,
#               'u32' 'u16' counters, 'i32' 'i16' 'f32' 'f64' analogs
#   time kind : None, 'abs' 48-bit absolute, 'rel' 16-bit relative to a common time of occurrence
V = {
    (1, 1): ('bit', False, None), (1, 2): ('flags', True, None),
    (2, 1): ('flags', True, None), (2, 2): ('flags', True, 'abs'), (2, 3): ('flags', True, 'rel'),
    (3, 1): ('dbit', False, None), (3, 2): ('flags', True, None),
    (4, 1): ('flags', True, None), (4, 2): ('flags', True, 'abs'), (4, 3): ('flags', True, 'rel'),
    (10, 1): ('bit', False, None), (10, 2): ('flags', True, None),
    (11, 1): ('flags', True, None), (11, 2): ('flags', True, 'abs'),
    (20, 1): ('u32', True, None), (20, 2): ('u16', True, None), (20, 5): ('u32', False, None), (20, 6): ('u16', False, None),
    (22, 1): ('u32', True, None), (22, 2): ('u16', True, None), (22, 5): ('u32', True, 'abs'), (22, 6): ('u16', True, 'abs'),
    (21, 1): ('u32', True, None), (21, 2): ('u16', True, None), (21, 5): ('u32', True, 'abs'), (21, 6): ('u16', True, 'abs'),
    (21, 9): ('u32', False, None), (21, 10): ('u16', False, None),
    (23, 1): ('u32', True, None), (23, 2): ('u16', True, None), (23, 5): ('u32', True, 'abs'), (23, 6): ('u16', True, 'abs'),
    (30, 1): ('i32', True, None), (30, 2): ('i16', True, None), (30, 3): ('i32', False, None), (30, 4): ('i16', False, None),
    (30, 5): ('f32', True, None), (30, 6): ('f64', True, None),
    (32, 1): ('i32', True, None), (32, 2): ('i16', True, None), (32, 3): ('i32', True, 'abs'), (32, 4): ('i16', True, 'abs'),
    (32, 5): ('f32', True, None), (32, 6): ('f64', True, None), (32, 7): ('f32', True, 'abs'), (32, 8): ('f64', True, 'abs'),
    (40, 1): ('i32', True, None), (40, 2): ('i16', True, None), (40, 3): ('f32', True, None), (40, 4): ('f64', True, None),
    (42, 1): ('i32', True, None), (42, 2): ('i16', True, None), (42, 3): ('i32', True, 'abs'), (42, 4): ('i16', True, 'abs'),
    (42, 5): ('f32', True, None), (42, 6): ('f64', True, None), (42, 7): ('f32', True, 'abs'), (42, 8): ('f64', True, 'abs'),
}
STATIC = {'bi': [(1, 1), (1, 2)], 'dbi': [(3, 1), (3, 2)], 'bos': [(10, 1), (10, 2)],
          'ctr': [(20, 1), (20, 2), (20, 5), (20, 6)], 'fctr': [(21, 1), (21, 2), (21, 5), (21, 6), (21, 9), (21, 10)],
          'ai': [(30, 1), (30, 2), (30, 3), (30, 4), (30, 5), (30, 6)], 'aos': [(40, 1), (40, 2), (40, 3), (40, 4)]}
EVENT = {'bi': [(2, 1), (2, 2), (2, 3)], 'dbi': [(4, 1), (4, 2), (4, 3)], 'bos': [(11, 1), (11, 2)],
         'ctr': [(22, 1), (22, 2), (22, 5), (22, 6)], 'fctr': [(23, 1), (23, 2), (23, 5), (23, 6)],
         'ai': [(32, k) for k in range(1, 9)], 'aos': [(42, k) for k in range(1, 9)]}
PACKED_TO_FLAGGED = {(1, 1): (1, 2), (3, 1): (3, 2), (10, 1): (10, 2)}
VALUE_BITS = {'bi': 0x80, 'bos': 0x80, 'dbi': 0xC0}
TYPES = ['bi', 'dbi', 'bos', 'ctr', 'fctr', 'ai', 'aos']
ONLINE, OVER_RANGE = 0x01, 0x20
TMAX = (1 << 48) - 1


def f64_bits(x):
    return struct.unpack('<Q', struct.pack('<d', x))[0]


def bits_f64(b):
    return struct.unpack('<d', struct.pack('<Q', b))[0]


def f32_from_bits(b):
    return struct.unpack('<f', struct.pack('<I', b))[0]


F32_MAX = f32_from_bits(0x7F7FFFFF)
INT_RANGE = {'i16': (-32768, 32767), 'i32': (-2147483648, 2147483647)}


def is_nan_bits(b):
    return (b >> 52) & 0x7FF == 0x7FF and b & ((1 << 52) - 1) != 0


def gvs(gv):
    return "g%dv%d" % gv


# ---- boundary pools ---------------------------------------------------------------------------------
def analog_pool():
    xs = [0.0, -0.0, 1.0, -1.0, 0.5, -0.5, 0.99999, -0.99999, 1.5, 2.5, -2.5, 1e300, -1e300, 1e-300, 12345.678,
          32766.0, 32766.5, 32767.0, 32767.5, 32767.999, 32768.0, 32769.0, -32767.0, -32768.0, -32768.5, -32768.999, -32769.0,
          2147483646.0, 2147483647.0, 2147483647.5, 2147483648.0, 2147483649.0,
          -2147483647.0, -2147483648.0, -2147483648.5, -2147483649.0, 4294967296.0, 9.007199254740993e15,
          F32_MAX, -F32_MAX, float('inf'), float('-inf')]
    bits = [f64_bits(x) for x in xs]
    fmax = f64_bits(F32_MAX)
    bits += [fmax + 1, fmax - 1, fmax + (1 << 28), fmax + (1 << 28) - 1, fmax + (1 << 29), (fmax + 1) | (1 << 63), (fmax - 1) | (1 << 63)]
    # smallest f32 subnormal 2^-149, the tie below it 2^-150 and neighbours, smallest f32 normal 2^-126
    for e in (-149, -150, -151, -126, -127, -148):
        b = f64_bits(2.0 ** e)
        bits += [b, b + 1, b - 1, b | (1 << 63)]
    # round-to-nearest-even ties on the 29 dropped bits
    for base in (0x3FF0000000000000, 0x3FF0000020000000, 0x40DFFFC000000000, 0x380FFFFFE0000000):
        bits += [base + 0x10000000, base + 0x10000001, base + 0x0FFFFFFF, base + 0x30000000, base + 0x1FFFFFFF]
    # f64 subnormals, extremes, NaNs (quiet, signalling, negative, full payload)
    bits += [1, 0x000FFFFFFFFFFFFF, 0x0010000000000000, 0x7FEFFFFFFFFFFFFF, 0xFFEFFFFFFFFFFFFF,
             0x7FF8000000000000, 0x7FF0000000000001, 0xFFF8000000000001, 0x7FFFFFFFFFFFFFFF, 0x7FF4000000000000,
             0xFFF0000000000001, 0x7FF8000020000000, 0x7FF0000010000000]
    return bits


COUNTER_POOL = [0, 1, 2, 255, 256, 32767, 32768, 65535, 65536, 65537, 131071, 0x7FFFFFFF, 0x80000000, 0xFFFF0000, 0xFFFFFFFE, 0xFFFFFFFF]
FLAG_POOL = [0x01, 0x01, 0x01, 0x00, 0x02, 0x03, 0x21, 0x20, 0x41, 0x81, 0xC1, 0x80, 0x40, 0x7F, 0xFF, 0x11, 0x05]
INDEX_STARTS = [0, 1, 250, 254, 255, 256, 1000, 32767, 65520, 65530]


class C10(Prop):
    id = "C10"
    translators = ["gen_conversions"]
    proof_targets = ["App/ConvertProofs.vo", "App/FloatBitsProofs.vo", "App/ConvertStaticProofs.vo", "App/ConvertBytesProofs.vo", "App/FloatBitsFlocq.vo"]
    property_file = "Properties/C10.v"
    theorems = []
    modelled = ("modelled by hand over generated recipes: app/gen/conversion.rs, app/extensions.rs, AnalogConversions, "
                "range/event writers (headers, packing, promotion, CTO rule), master extract (App/Convert.v, App/FloatBits.v); "
                "regenerated from source: every conversion recipe, field layouts, guard lists of to_i16/to_i32/to_f32, "
                "static/event variation tables, promotion rules, CTO gap limit, handler dispatch tables; "
                "not modelled: response buffer limits (trips are sized to fit), FrozenAnalogInput through the database "
                "(the outstation database has no such point type; its recipes are covered by the theorems only)")
    rule = ("one op = one trip database -> range/event writer -> parser -> extract_measurements -> ReadHandler through the "
            "production code; all seven numeric point types + octet strings, every static and event variation, configured "
            "and requested, boundary values (integer limits +-1, f32 limits +-1 ulp, ties, subnormals, +-inf, NaNs), flag "
            "octets, 48-bit times, CTO sequences (gaps 65535/65536, decreasing, mixed synchronisation), sparse and dense "
            "index sets; a script is non-trivial when the master's handler received a measurement")

    # ---- generation -------------------------------------------------------------------------------
    def flags(self, rng, tier, k):
        if tier == "thorough" and rng.chance(1, 2):
            return (self.flag_counter + k) % 256
        if rng.chance(1, 6):
            return rng.below(256)
        return rng.choice(FLAG_POOL)

    def value(self, rng, ty):
        if ty in ('bi', 'bos'):
            return str(rng.below(2))
        if ty == 'dbi':
            return str(rng.below(4))
        if ty in ('ctr', 'fctr'):
            return str(rng.choice(COUNTER_POOL) if rng.chance(3, 4) else rng.below(1 << 32))
        if ty == 'oct':
            return rng.bytes(rng.range(1, 6)).hex()
        r = rng.below(10)
        if r < 6:
            b = rng.choice(self.apool)
        elif r < 7:
            b = rng.next()
        elif r < 8:   # a random f32 widened: exactly representable
            b = f64_bits(f32_from_bits(rng.below(1 << 32) & 0xFF7FFFFF if rng.chance(1, 2) else rng.below(0x7F800000)))
        elif r < 9:   # an integer near a limit with a fraction
            lim = rng.choice([32767, -32768, 2147483647, -2147483648, 0, 65535])
            b = f64_bits(lim + rng.choice([-1.5, -1.0, -0.75, -0.5, -0.25, 0.0, 0.25, 0.5, 0.75, 1.0, 1.5]))
        else:
            b = f64_bits((rng.below(1 << 40) - (1 << 39)) / 256.0)
        return "%016x" % b

    def time(self, rng):
        r = rng.below(10)
        if r < 2:
            return "n"
        q = "s" if rng.chance(2, 3) else "u"
        if r < 5:
            return q + str(rng.choice([0, 1, 2, 65535, 65536, TMAX, TMAX - 1, TMAX - 65535, TMAX - 65536, 1 << 47]))
        return q + str(rng.below(1 << 48))

    def indices(self, rng, n):
        kind = rng.below(4)
        if kind == 0:     # dense run at a boundary
            start = rng.choice(INDEX_STARTS)
            start = min(start, 65536 - n)
            return list(range(start, start + n))
        if kind == 1:     # runs with gaps
            out, i = [], rng.choice(INDEX_STARTS)
            for _ in range(n):
                if i > 65535:
                    break
                out.append(i)
                i += rng.choice([1, 1, 1, 2, 3, 7, 250])
            return out
        if kind == 2:     # the end of the index space
            return list(range(65536 - n, 65536))
        s = set()
        while len(s) < n:
            s.add(rng.choice([0, 255, 256, 65535, rng.below(65536), rng.below(300)]))
        return sorted(s)

    def static_trip(self, rng, tier, ty):
        n = rng.range(1, 12)
        idx = self.indices(rng, n)
        rng.shuffle(idx)
        entries = []
        uniform = rng.chance(1, 2)
        sv = rng.choice(STATIC[ty]) if ty != 'oct' else None
        for k, i in enumerate(idx):
            v = (sv if uniform else rng.choice(STATIC[ty])) if ty != 'oct' else None
            entries.append([i, gvs(v) if v else "-", self.value(rng, ty), self.flags(rng, tier, k) if ty != 'oct' else 0, self.time(rng) if ty != 'oct' else "n"])
        self.flag_counter += len(idx)
        r = rng.below(10)
        g = STATIC[ty][0][0] if ty != 'oct' else 110
        if r < 4:
            sel = "c0"
        elif r < 5 or ty == 'oct':
            sel = "g%dv0" % g
        else:
            sel = gvs(rng.choice(STATIC[ty]))
        if rng.chance(1, 5) and sel != "c0":
            lo = rng.choice(idx)
            hi = rng.choice([x for x in idx if x >= lo] + [min(65535, lo + 3)])
            sel += ":%d-%d" % (lo, max(lo, hi))
        return ["st", ty, sel, len(entries)] + [x for e in entries for x in e], {"kind": "st", "ty": ty, "sel": sel, "entries": entries}

    def event_trip(self, rng, tier, ty):
        n = rng.range(1, 10)
        idx = self.indices(rng, rng.range(1, 4))
        evar = {i: (rng.choice(EVENT[ty]) if ty != 'oct' else None) for i in idx}
        if ty in ('bi', 'dbi') and rng.chance(2, 3):
            cto = [v for v in EVENT[ty] if V[v][2] == 'rel'][0]
            evar = {i: cto for i in idx}
        elif rng.chance(1, 2) and ty != 'oct':
            one = rng.choice(EVENT[ty])
            evar = {i: one for i in idx}
        entries = []
        # a time line that exercises the CTO rule: steps of 0 / small / 65535 / 65536 / backwards / sync flips
        t = rng.choice([0, 1, 1000, TMAX - 70000, TMAX - 65535, rng.below(1 << 48)])
        q = "s" if rng.chance(2, 3) else "u"
        for k in range(n):
            i = rng.choice(idx)
            step = rng.choice([0, 0, 1, 2, 100, 65534, 65535, 65535, 65536, 65537, -1, -1000, 70000])
            t = max(0, min(TMAX, t + step))
            if rng.chance(1, 6):
                q = "u" if q == "s" else "s"
            tm = "n" if rng.chance(1, 12) else q + str(t)
            if rng.chance(1, 10):
                tm = self.time(rng)
            if ty == 'oct':
                tm = "n"
            entries.append([i, gvs(evar[i]) if evar[i] else "-", self.value(rng, ty), self.flags(rng, tier, k) if ty != 'oct' else 0, tm])
        self.flag_counter += n
        r = rng.below(10)
        if r < 4 or ty == 'oct':
            sel = "c1" if rng.chance(1, 2) else "r1"
        elif r < 5:
            sel = "g%dv0" % EVENT[ty][0][0]
        else:
            sel = gvs(rng.choice(EVENT[ty]))
        return ["ev", ty, sel, len(entries)] + [x for e in entries for x in e], {"kind": "ev", "ty": ty, "sel": sel, "entries": entries}

    def cases(self, rng, tier):
        self.apool = analog_pool()
        self.flag_counter = 0
        nscripts = 160 if tier == "quick" else 4200
        per = 5
        out = []
        for s in range(nscripts):
            sid = "c10_%d" % s
            ops, trips = [], []
            # one script = five trips of one kind and one point type (keeps the histogram readable)
            static = rng.chance(1, 2)
            if static:
                ty = rng.choice(TYPES + ['ai', 'aos', 'ai'])
            else:
                ty = rng.choice(TYPES + ['bi', 'dbi', 'bi', 'dbi', 'ai'])
            if rng.chance(1, 25):
                ty = 'oct'
            for _ in range(per):
                op, meta = (self.static_trip if static else self.event_trip)(rng, tier, ty)
                ops.append(op)
                trips.append(meta)
            out.append(Case(sid, script_text(sid, "conv", {}, ops), {"kind": ("st-" if static else "ev-") + ty, "trips": trips}))
        return out

    # ---- oracle -------------------------------------------------------------------------------------
    def split_trips(self, impl):
        """trace lines -> list of trips: (raw, [(group, var, [m fields...])], other lines)"""
        trips, cur = [], None
        for l in impl:
            t = l.split()
            if not t:
                continue
            if t[0] == "raw":
                cur = {"raw": t[1], "ms": [], "other": []}
                trips.append(cur)
            elif cur is None:
                trips.append({"raw": None, "ms": [], "other": [l]})
            elif t[0] == "hdr":
                cur["hdr"] = (int(t[1]), int(t[2]), int(t[3]), t[4] == "1", t[5] == "1")
            elif t[0] == "m":
                cur["ms"].append((cur.get("hdr"), t[1], int(t[2]), t[3], int(t[4]), t[5]))
            elif t[0] != "end":
                cur["other"].append(l)
        return trips

    def expected_variation(self, trip, entry, first_var):
        ty, sel = trip["ty"], trip["sel"]
        if ty == 'oct':
            return None
        base = sel.split(":")[0]
        if base in ("c0", "c1", "r1") or base.endswith("v0"):
            cfg = entry[1] if trip["kind"] == "st" else first_var[entry[0]]
            g, v = cfg[1:].split("v")
            return (int(g), int(v))
        g, v = base[1:].split("v")
        return (int(g), int(v))

    def check_value(self, ty, gv, kind, has_flags, vin, fin, vout, fout, where, fails):
        """value and flags of one measurement against the property; vin/vout are the script tokens"""
        if ty in ('bi', 'bos', 'dbi'):
            if vin != vout:
                fails.append(("value-changed", "%s: %s value %s arrived as %s" % (where, ty, vin, vout)))
            vb = VALUE_BITS[ty]
            if kind in ('bit', 'dbit'):
                if (fin & ~vb & 0xFF) != ONLINE:
                    fails.append(("packed-not-online", "%s: packed %s used for flags 0x%02x" % (where, gvs(gv), fin)))
                if fout != ONLINE:
                    fails.append(("flags-changed", "%s: packed format arrived with flags 0x%02x" % (where, fout)))
            else:
                if (fin & ~vb & 0xFF) != (fout & ~vb & 0xFF):
                    fails.append(("flags-changed", "%s: flags 0x%02x arrived as 0x%02x" % (where, fin, fout)))
                shift = 7 if ty != 'dbi' else 6
                if (fout & vb) >> shift != int(vout):
                    fails.append(("state-bits", "%s: state bits of flags 0x%02x disagree with value %s" % (where, fout, vout)))
            return
        if ty in ('ctr', 'fctr'):
            x = int(vin)
            want = x if kind == 'u32' else x % 65536
            if int(vout) != want:
                fails.append(("counter-value", "%s: counter %d through %s arrived as %s (expected %d)" % (where, x, gvs(gv), vout, want)))
            if has_flags:
                if fout != fin:
                    fails.append(("flags-changed", "%s: flags 0x%02x arrived as 0x%02x" % (where, fin, fout)))
            else:
                if fout != ONLINE:
                    fails.append(("flags-changed", "%s: variation without flags arrived with 0x%02x" % (where, fout)))
                if fin != ONLINE:
                    fails.append(("flags-dropped", "%s: flags 0x%02x dropped by %s (no flag octet, no promotion)" % (where, fin, gvs(gv))))
            return
        # analogs
        bin_, bout = int(vin, 16), int(vout, 16)
        over = False
        if kind == 'f64':
            if bin_ != bout:
                fails.append(("value-changed", "%s: f64 %016x arrived as %016x" % (where, bin_, bout)))
        elif kind in ('i16', 'i32'):
            lo, hi = INT_RANGE[kind]
            x = bits_f64(bin_)
            if is_nan_bits(bin_):
                over = True
                if bits_f64(bout) not in (0.0, float(lo), float(hi)):
                    fails.append(("value-changed", "%s: NaN through %s arrived as %016x" % (where, gvs(gv), bout)))
            elif x < lo:
                over = True
                if bout != f64_bits(float(lo)):
                    fails.append(("not-saturated", "%s: %r through %s arrived as %r, expected %d" % (where, x, gvs(gv), bits_f64(bout), lo)))
            elif x > hi:
                over = True
                if bout != f64_bits(float(hi)):
                    fails.append(("not-saturated", "%s: %r through %s arrived as %r, expected %d" % (where, x, gvs(gv), bits_f64(bout), hi)))
            else:
                want = f64_bits(float(int(x)))      # truncation toward zero
                if bout != want:
                    fails.append(("value-changed", "%s: %r through %s arrived as %r, expected %r" % (where, x, gvs(gv), bits_f64(bout), float(int(x)))))
        else:  # f32
            x = bits_f64(bin_)
            if is_nan_bits(bin_):
                if not is_nan_bits(bout):
                    fails.append(("value-changed", "%s: NaN through %s arrived as %016x" % (where, gvs(gv), bout)))
            elif x > F32_MAX or x < -F32_MAX:
                # infinities included: the value is reported as the largest finite f32 and must be flagged
                over = True
                want = f64_bits(F32_MAX if x > 0 else -F32_MAX)
                if bout != want and not (bout == bin_ and abs(x) == float('inf')):
                    fails.append(("not-saturated", "%s: %r through %s arrived as %r" % (where, x, gvs(gv), bits_f64(bout))))
                if bout == bin_:
                    over = False
            else:
                want = f64_bits(struct.unpack('<f', struct.pack('<f', x))[0])   # nearest f32, ties to even
                if bout != want:
                    fails.append(("value-changed", "%s: %r through %s arrived as %016x, expected %016x" % (where, x, gvs(gv), bout, want)))
        if has_flags:
            want_f = fin | OVER_RANGE if over else fin
            if fout != want_f:
                clause = "over-range-flag" if (fout ^ want_f) == OVER_RANGE else "flags-changed"
                fails.append((clause, "%s: %016x flags 0x%02x through %s arrived with flags 0x%02x, expected 0x%02x" % (where, bin_, fin, gvs(gv), fout, want_f)))
        else:
            if fout != ONLINE:
                fails.append(("flags-changed", "%s: variation without flags arrived with 0x%02x" % (where, fout)))
            if over:
                fails.append(("over-range-unflagged", "%s: %016x saturated by %s which has no flag octet: OVER_RANGE cannot be reported" % (where, bin_, gvs(gv))))
            elif fin != ONLINE:
                fails.append(("flags-dropped", "%s: flags 0x%02x dropped by %s (no flag octet, no promotion)" % (where, fin, gvs(gv))))

    def check_time(self, tkind, tin, tout, where, fails):
        if tkind is None:
            if tout != "n":
                fails.append(("time-invented", "%s: variation without time arrived with %s" % (where, tout)))
        elif tkind == 'abs':
            # an absolute time has no synchronisation quality and no 'absent': the value must be exact
            want = 0 if tin == "n" else int(tin[1:])
            if tout != "s%d" % want:
                fails.append(("time-changed", "%s: time %s arrived as %s" % (where, tin, tout)))
        else:
            want = "u0" if tin == "n" else tin
            if tout != want:
                fails.append(("cto-time", "%s: time %s through a relative-time variation arrived as %s" % (where, tin, tout)))

    def oracle(self, case, impl):
        m = case.meta
        fails = []
        for l in impl:
            if l.startswith("panic") or l.startswith("harness-died") or l == "missing":
                fails.append(("no-panic", "conversion trip panicked or died: " + l[:200]))
        if "trips" not in m:
            return fails
        got = self.split_trips(impl)
        if len(got) != len(m["trips"]):
            if not fails:
                fails.append(("trip-count", "%d trips in the script, %d in the trace" % (len(m["trips"]), len(got))))
            return fails
        for tn, (trip, g) in enumerate(zip(m["trips"], got)):
            ty = trip["ty"]
            where0 = "trip %d (%s %s %s)" % (tn, trip["kind"], ty, trip["sel"])
            for l in g["other"]:
                fails.append(("unexpected", "%s: %s" % (where0, l[:100])))
            entries = trip["entries"]
            if trip["kind"] == "st":
                entries = sorted(entries, key=lambda e: e[0])
                if ":" in trip["sel"]:
                    lo, hi = [int(x) for x in trip["sel"].split(":")[1].split("-")]
                    entries = [e for e in entries if lo <= e[0] <= hi]
            first_var = {}
            for e in trip["entries"]:
                first_var.setdefault(e[0], e[1])
            if len(g["ms"]) != len(entries):
                fails.append(("lost-or-invented", "%s: %d measurements written, %d arrived" % (where0, len(entries), len(g["ms"]))))
                continue
            for k, (e, got_m) in enumerate(zip(entries, g["ms"])):
                hdr, mty, midx, mval, mflags, mtime = got_m
                where = "%s #%d idx %d" % (where0, k, e[0])
                if mty != ty:
                    fails.append(("wrong-type", "%s: arrived as %s" % (where, mty)))
                    continue
                if midx != e[0]:
                    fails.append(("index-shifted", "%s: arrived with index %d" % (where, midx)))
                if ty == 'oct':
                    if mval != e[2]:
                        fails.append(("value-changed", "%s: octets %s arrived as %s" % (where, e[2], mval)))
                    continue
                want_gv = self.expected_variation(trip, e, first_var)
                gv = (hdr[0], hdr[1]) if hdr else None
                if gv != want_gv:
                    # the only legal substitution: a packed format replaced by its flagged sibling
                    if not (want_gv in PACKED_TO_FLAGGED and gv == PACKED_TO_FLAGGED[want_gv]
                            and (e[3] & ~VALUE_BITS[ty] & 0xFF) != ONLINE):
                        fails.append(("wrong-variation", "%s: expected %s, reported through %s" % (where, gvs(want_gv), gvs(gv) if gv else "-")))
                        continue
                kind, has_flags, tkind = V[gv]
                if hdr[4] != has_flags or hdr[3] != (trip["kind"] == "ev"):
                    fails.append(("header-info", "%s: HeaderInfo is_event=%s has_flags=%s for %s" % (where, hdr[3], hdr[4], gvs(gv))))
                self.check_value(ty, gv, kind, has_flags, e[2], e[3], mval, mflags, where, fails)
                self.check_time(tkind, e[4], mtime, where, fails)
        return fails

    def nontrivial(self, case, impl):
        return any(l.startswith("m ") for l in impl)

    def finding_signature(self, case, clause, desc):
        if clause in ("over-range-unflagged", "flags-dropped"):
            return clause + "/no-flag-variation"
        return clause


PROP = C10()
