"""C04 — OPERATE actuates only after its own matching, fresh, directly preceding SELECT."""
from ost import *


CTL_SIZES = {(12, 1): 11, (41, 1): 5, (41, 2): 3, (41, 3): 5, (41, 4): 9}


def control_statuses(objs):
    """status octets of the control objects echoed in a response (None when it cannot be parsed)"""
    out, i = [], 0
    while i < len(objs):
        if i + 3 > len(objs): return None
        g, v, q = objs[i], objs[i + 1], objs[i + 2]
        i += 3
        size = CTL_SIZES.get((g, v))
        w = 1 if q == 0x17 else 2 if q == 0x28 else None
        if size is None or w is None or i + w > len(objs): return None
        n = int.from_bytes(objs[i:i + w], "little")
        i += w
        for _ in range(n):
            if i + w + size > len(objs): return None
            i += w + size
            out.append(objs[i - 1] & 0x7F if g == 12 else objs[i - 1])
    return out


class C04(OutstationProp):
    id = "C04"
    proof_targets = ["Outstation/SessionC04Proofs.vo", "Outstation/FullCorollaries.vo"]
    property_file = "Properties/C04.v"
    rule = ("histories of SELECT / OPERATE / DIRECT_OPERATE / READ / CONFIRM / malformed / broadcast / foreign-master "
            "fragments with chosen sequence numbers, control objects g12v1 and g41v1-4 with 1- and 2-byte prefixes, clock "
            "advances around the select timeout, disconnects; non-trivial = a fragment was transmitted; distinct = "
            "distinct (config, trace)")

    def cases(self, rng, tier):
        n = 600 if tier == "quick" else 5000
        return self.cases_session(rng, n, focus="controls", unsol=0 if rng.chance(1, 2) else None)

    def oracle(self, case, impl):
        fails = self.common_fail(impl)
        cfg = case.meta.get("cfg", {})
        select_ms = int(cfg.get("select_ms", 5000))
        steps = split_steps(impl)
        # fragments received, in order: (time, from, bcast, bytes, step lines, connected epoch)
        epoch = 0
        rxs = []
        for op, t, lines in steps:
            if op[0] in ("disconnect", "bounce"):
                epoch += 1
            if op[0] == "rx":
                rxs.append((t, int(op[1]), op[2], bytes.fromhex(op[3]) if op[3] != "-" else b"", lines, epoch))
        for k, (t, frm, bc, b, lines, ep) in enumerate(rxs):
            sbo = [c for c in cbs(lines, "operate") if c[3] == "sbo"]
            if not sbo:
                continue
            # an SBO operate callback fired in this step: find the justifying SELECT
            ok = len(b) >= 2 and b[1] == 4 and bc == "none"
            why = "fragment is not a unicast OPERATE"
            if ok:
                j = k - 1
                # skip byte-identical retransmissions of the SELECT
                while j > 0 and rxs[j][3] == rxs[j - 1][3] and rxs[j][3][1:2] == b"\x03":
                    j -= 1
                first = j
                last = k - 1
                if last < 0:
                    ok, why = False, "no preceding fragment"
                else:
                    sel = rxs[last][3]
                    ok = (len(sel) >= 2 and sel[1] == 3 and sel[2:] == b[2:] and ((sel[0] + 1) & 15) == (b[0] & 15)
                          and rxs[last][2] == "none" and rxs[last][5] == ep
                          and all(rxs[i][3] == sel for i in range(first, last + 1)))
                    why = "preceding fragment is not the matching SELECT (objects, sequence, source or session differ)"
                    if ok and t - rxs[first][0] > select_ms:
                        # the select time is that of the first of the identical SELECTs
                        ok, why = False, "select timeout had expired (%d ms > %d ms)" % (t - rxs[first][0], select_ms)
                    if ok:
                        # its reply must have been all SUCCESS
                        reply = txs(rxs[first][4])
                        if not reply:
                            ok, why = False, "the SELECT was not answered"
                        else:
                            st = control_statuses(reply[-1][2][4:])
                            if st is None or any(x != 0 for x in st) or (reply[-1][2][3] & 0x07):
                                ok, why = False, ("the SELECT had not succeeded for every object (statuses %s, IIN2 %#x)"
                                                  % (st, reply[-1][2][3]))
            if not ok:
                fails.append(("operate-without-select", "control handler operated (select-before-operate) though " + why))
        return fails

    def finding_signature(self, case, clause, desc):
        return clause


PROP = C04()
