"""C04 — OPERATE actuates only after its own matching, fresh, directly preceding SELECT."""
from ost import *


class C04(OutstationProp):
    id = "C04"
    proof_targets = ["Outstation/SessionC04Proofs.vo"]
    property_file = "Properties/C04.v"
    rule = ("histories of SELECT / OPERATE / DIRECT_OPERATE / READ / CONFIRM / malformed / broadcast / foreign-master "
            "fragments with chosen sequence numbers, control objects g12v1 and g41v1-4 with 1- and 2-byte prefixes, clock "
            "advances around the select timeout, disconnects; non-trivial = a fragment was transmitted; distinct = "
            "distinct (config, trace)")

    def cases(self, rng, tier):
        n = 600 if tier == "quick" else 5000
        return self.cases_session(rng, n, focus="controls", unsol=0 if rng.chance(1, 2) else None)

    def oracle(self, case, impl):
        fails = self.common_fail(impl)
        cfg = case.meta.get("cfg", {})
        select_ms = int(cfg.get("select_ms", 5000))
        steps = split_steps(impl)
        # fragments received, in order: (time, from, bcast, bytes, step lines, connected epoch)
        epoch = 0
        rxs = []
        for op, t, lines in steps:
            if op[0] == "disconnect":
                epoch += 1
            if op[0] == "rx":
                rxs.append((t, int(op[1]), op[2], bytes.fromhex(op[3]) if op[3] != "-" else b"", lines, epoch))
        for k, (t, frm, bc, b, lines, ep) in enumerate(rxs):
            sbo = [c for c in cbs(lines, "operate") if c[3] == "sbo"]
            if not sbo:
                continue
            # an SBO operate callback fired in this step: find the justifying SELECT
            ok = len(b) >= 2 and b[1] == 4 and bc == "none"
            why = "fragment is not a unicast OPERATE"
            if ok:
                j = k - 1
                # skip byte-identical retransmissions of the SELECT
                while j > 0 and rxs[j][3] == rxs[j - 1][3] and rxs[j][3][1:2] == b"\x03":
                    j -= 1
                first = j
                last = k - 1
                if last < 0:
                    ok, why = False, "no preceding fragment"
                else:
                    sel = rxs[last][3]
                    ok = (len(sel) >= 2 and sel[1] == 3 and sel[2:] == b[2:] and ((sel[0] + 1) & 15) == (b[0] & 15)
                          and rxs[last][2] == "none" and rxs[last][5] == ep
                          and all(rxs[i][3] == sel for i in range(first, last + 1)))
                    why = "preceding fragment is not the matching SELECT (objects, sequence, source or session differ)"
                    if ok and t - rxs[first][0] > select_ms:
                        # the select time is that of the first of the identical SELECTs
                        ok, why = False, "select timeout had expired (%d ms > %d ms)" % (t - rxs[first][0], select_ms)
                    if ok:
                        # its reply must have been all SUCCESS
                        reply = txs(rxs[first][4])
                        if not reply:
                            ok, why = False, "the SELECT was not answered"
            if not ok:
                fails.append(("operate-without-select", "control handler operated (select-before-operate) though " + why))
        return fails

    def finding_signature(self, case, clause, desc):
        return clause


PROP = C04()
