"""C01 - Bytes from the peer can never crash or wedge a master or an outstation (PARTIAL).

Theorem half: Properties/C01.v (panic-site ledger complete over the GENERATED site list; fuel /
progress / guard lemmas of the link parser, read buffer, assembler, grammar iterators, event
counters).  Runtime half, decided here: HOSTILE scripts through the production code of four
existing engines, each followed IN THE SAME SCRIPT by a liveness probe:

  link / treader   real link reader / link layer / transport reader over the mock physical layer, both
                   roles, both error modes; streams are cut into physical reads by the model
                   (--concretize, as C06/C08 do).  Probe: a well-formed frame sequence (sent twice, see
                   cases_link: a hostile header may legitimately swallow the header block of the frame that
                   follows it directly) that must still be delivered (discard mode) or, in close mode, either a clean `err ...` as the last
                   observation or the delivered frames.  `reset-probe`: Reader::reset() in an arbitrary
                   parser / buffer state (what the next session starts from) followed by whole frames.
  outstation       the real outstation task, decode levels 0..3, solicited buffers 249..2048, receive buffers
                   249..4096, event buffers 1..5; hostile fragments in idle, in the solicited confirm wait and
                   in the unsolicited confirm wait (with event-buffer overflow while waiting).  Probe: a
                   well-formed READ from the configured master that must be answered with its sequence number.
  app              the real parser and its Display paths at every decode level on the same hostile fragments.
  master           the real master task: hostile responses while a read / command task is outstanding, then a
                   fresh read whose good response must complete it.
  accept           REAL TCP (implementation only, no Coq model; binary /verif/pairtest built and run with the helpers
                   of c02.py, public dnp3 API only): the CONNECTION-ACCEPTING code.  A master in TCP SERVER mode (link
                   identification with LinkIdConfig::max_tasks 1 / 2 / 16 and a short timeout, or plain accept) or an
                   outstation TCP server; hostile peers connect and send nothing / fewer than 10 octets / garbage / a valid
                   header and part of a frame, close at once (FIN or RST) or stay silent up to and past the link-id
                   timeout - below, at and ABOVE the number of identification slots - and interleaved well-formed peers
                   (`good`) must be SERVED: the master answers the identifying RESET_LINK_STATES with an ACK and sends the
                   association's first request; the outstation answers READ class 0 with the sequence number.  Clause
                   `accept-wedged`: every `good` op is `served`.

Essential oracle: no `panic` / `harness-died` / `missing` observation, the probe is answered.  A task
that spins under the paused clock never lets the harness settle: the shard then runs into the
driver's wall-clock limit and every script of it is reported `harness-died` (the watchdog).
All cases also go through the normal model comparison (a `model-out-of-fuel` line on the model
side is a mismatch); scripts containing an op the model does not implement are marked impl_only.

The harness is a debug build: arithmetic overflow checks are ON, which is the stricter setting (a
release build wraps silently where this one panics); no separate release-profile run is made."""
import hashlib, os, shutil, struct, subprocess, threading
import propcheck
from propcheck import *
import c02          # build / run helpers of the pairtest binary (engine accept); installs its own run_cases dispatcher first
import dnp
import dnp_objects as D
import ost
import mcommon as M

ME = 1024        # link address of the endpoint under test (treader / layer)
PEER = 1         # its configured peer


def fbytes(rng, n):
    if n <= 48:
        return rng.bytes(n)
    return hashlib.shake_128(rng.next().to_bytes(8, "little")).digest(n)


def noise_no_start(rng, n):
    """line noise that cannot contain a frame start"""
    return bytes(b if b != 0x05 else 0x06 for b in fbytes(rng, n))


def concretize(prop_id, abstract):
    """cut `stream` ops into reads that fit the reader's writable space (the model's buffer geometry)"""
    build_model()
    work = os.path.join(WORK, prop_id)
    os.makedirs(work, exist_ok=True)
    ap = os.path.join(work, "abstract.%d.txt" % os.getpid())    # concurrent checks must not collide
    open(ap, "w").write("\n".join(abstract) + "\n")
    p = subprocess.run(["bash", "-c", "ulimit -s unlimited; exec %s --concretize %s" % (os.path.join(OCAML, "driver"), ap)],
                       stdout=subprocess.PIPE, stderr=subprocess.PIPE, text=True)
    os.remove(ap)
    if p.returncode != 0:
        raise BuildError("concretize failed: " + p.stderr[-1000:])
    out, cur = {}, []
    for line in p.stdout.splitlines():
        cur.append(line)
        if line == "E":
            out[cur[0].split()[1]] = cur
            cur = []
    return out


# ------------------------------------------------------------------------------------------------
# hostile application fragments (shared by the outstation, app and master generators)

GV_POOL = ([(1, 1), (1, 2), (1, 0), (2, 1), (2, 2), (2, 3), (3, 1), (3, 2), (4, 1), (10, 1), (10, 2), (11, 1), (12, 1),
            (12, 2), (13, 1), (20, 0), (20, 1), (21, 1), (22, 1), (30, 1), (30, 5), (30, 6), (32, 1), (32, 7), (34, 1),
            (34, 2), (34, 3), (40, 1), (41, 1), (41, 2), (41, 3), (41, 4), (42, 8), (43, 1), (50, 1), (50, 2), (50, 3),
            (50, 4), (51, 1), (52, 1), (52, 2), (60, 1), (60, 2), (60, 3), (60, 4), (80, 1), (102, 1)]
           + [(70, v) for v in range(1, 9)] + [(110, v) for v in (0, 1, 2, 255)] + [(111, v) for v in (0, 1, 3, 255)]
           + [(0, v) for v in (1, 196, 211, 240, 252, 254, 255)] + [(112, 1), (113, 1), (120, 1), (255, 255), (5, 1)])
QUALS = D.QUALIFIERS + [0x02, 0x05, 0x09, 0x18, 0x29, 0x5A, 0xFF]
RANGES16 = [(0, 0), (5, 5), (0, 255), (65535, 65535), (65534, 65535), (65000, 65535), (0, 65535), (10, 5), (1, 0), (256, 511)]
RANGES8 = [(0, 0), (7, 7), (0, 255), (255, 255), (254, 255), (10, 5), (4, 7)]
COUNTS16 = [0, 1, 2, 255, 256, 65535, 65534]
COUNTS8 = [0, 1, 2, 254, 255]
FUNCS = list(range(0, 34)) + [129, 130, 131, 70, 112, 255]


def header_bytes(g, v, q, a, b):
    """object header for qualifier q; (a, b) = start/stop, or a = count (b = free-format length)"""
    h = bytes([g & 0xFF, v & 0xFF, q & 0xFF])
    if q == D.Q_RANGE8: return h + bytes([a & 0xFF, b & 0xFF])
    if q == D.Q_RANGE16: return h + struct.pack("<HH", a & 0xFFFF, b & 0xFFFF)
    if q in (D.Q_COUNT8, D.Q_PREFIX8): return h + bytes([a & 0xFF])
    if q in (D.Q_COUNT16, D.Q_PREFIX16): return h + struct.pack("<H", a & 0xFFFF)
    if q == D.Q_FREE: return h + bytes([a & 0xFF]) + struct.pack("<H", b & 0xFFFF)
    return h


def exact_size(fc, g, v, q, n):
    """octets that n objects of (g, v) occupy after a header with qualifier q, None when unknown"""
    k = D.kind(fc, q, g, v)
    if k is None or k in ("attr", "free"): return None
    psize = 1 if q == D.Q_PREFIX8 else 2 if q == D.Q_PREFIX16 else 0
    if k == "none": return 0
    if k == "bits": return (n + 7) // 8
    if k == "dbits": return (n + 3) // 4
    return (k[1] + psize) * n


def attr_object(rng):
    ty = rng.choice([1, 2, 3, 4, 5, 6, 254, 255, 0, 7, 9, 128])
    ln = rng.choice([0, 1, 2, 3, 4, 5, 6, 8, 9, 255, rng.below(256)])
    body = fbytes(rng, ln if rng.chance(3, 4) else rng.below(ln + 1))
    if rng.chance(1, 4):
        body = bytes(rng.choice([0x41, 0x7F, 0x80, 0xC0, 0xC1, 0xE0, 0xED, 0xF4, 0xF5, 0xFF]) for _ in range(len(body)))
    return bytes([ty, ln]) + body


# objects a function code really takes (so that hostile sections get past the first validation pass and
# reach the handlers and iterators): function -> [(group, variation, qualifiers)]
_RANGED = [D.Q_RANGE8, D.Q_RANGE16]
_COUNTED = [D.Q_COUNT8, D.Q_COUNT16]
_PREFIXED = [D.Q_PREFIX8, D.Q_PREFIX16]
_CTL = [(12, 1, _PREFIXED), (41, 1, _PREFIXED), (41, 2, _PREFIXED), (41, 3, _PREFIXED), (41, 4, _PREFIXED)]
_FRZ = [(20, 0, _RANGED + [D.Q_ALL]), (50, 2, _COUNTED), (21, 0, [D.Q_ALL])]
AFFINITY = {
    1: [(1, 0, _RANGED + [D.Q_ALL]), (1, 2, _RANGED), (2, 0, _COUNTED + [D.Q_ALL]), (30, 0, _RANGED), (30, 5, _RANGED), (3, 0, _RANGED),
        (110, 0, _RANGED + [D.Q_ALL]), (111, 0, _COUNTED + [D.Q_ALL]), (60, 1, [D.Q_ALL]), (60, 2, _COUNTED + [D.Q_ALL]), (60, 3, _COUNTED),
        (0, 254, _RANGED + [D.Q_ALL]), (0, 211, _RANGED), (20, 0, _RANGED), (40, 0, _RANGED), (10, 0, _RANGED), (32, 0, _COUNTED), (34, 0, [D.Q_ALL])],
    2: [(80, 1, _RANGED), (50, 1, _COUNTED), (50, 3, _COUNTED), (34, 1, _PREFIXED), (34, 2, _PREFIXED), (34, 3, _PREFIXED),
        (0, 211, _RANGED), (0, 240, _RANGED + _PREFIXED), (110, 1, _RANGED), (1, 1, _RANGED), (10, 1, _RANGED), (50, 4, _COUNTED)],
    3: _CTL, 4: _CTL, 5: _CTL, 6: _CTL,
    7: _FRZ, 8: _FRZ, 9: _FRZ, 10: _FRZ, 11: _FRZ, 12: _FRZ,
    20: [(60, 2, [D.Q_ALL]), (60, 3, [D.Q_ALL]), (60, 4, [D.Q_ALL]), (60, 1, [D.Q_ALL])],
    21: [(60, 2, [D.Q_ALL]), (60, 3, [D.Q_ALL]), (60, 4, [D.Q_ALL])],
    22: [(60, 1, [D.Q_ALL]), (60, 2, [D.Q_ALL]), (1, 0, _RANGED + [D.Q_ALL]), (30, 0, _RANGED + [D.Q_ALL]), (20, 0, [D.Q_ALL])],
    25: [(70, 3, [D.Q_FREE])], 26: [(70, 4, [D.Q_FREE])], 27: [(70, 3, [D.Q_FREE])], 28: [(70, 7, [D.Q_FREE])],
    29: [(70, 2, [D.Q_FREE])], 30: [(70, 4, [D.Q_FREE])],
    129: [(1, 2, _RANGED), (1, 1, _RANGED), (3, 1, _RANGED), (2, 2, _PREFIXED), (30, 1, _RANGED), (32, 7, _PREFIXED), (110, 1, _RANGED),
          (110, 255, _RANGED), (111, 2, _PREFIXED), (12, 1, _PREFIXED), (41, 3, _PREFIXED), (52, 2, _COUNTED), (50, 1, _COUNTED),
          (0, 211, _RANGED), (0, 255, _RANGED), (70, 4, [D.Q_FREE]), (70, 5, [D.Q_FREE]), (70, 6, [D.Q_FREE]), (80, 1, _RANGED), (10, 2, _RANGED)],
}
AFFINITY[130] = AFFINITY[129]
REQ_FUNCS = [1, 1, 2, 2, 2, 3, 4, 5, 5, 6, 7, 8, 9, 10, 11, 12, 20, 21, 22, 22, 25, 26, 27, 28, 29, 30]


def utf8_stripes(rng, maxlen=255):
    """a long string in which almost every octet offset falls INSIDE a multi-byte character: a short ASCII
    prefix, then one character of 2, 3 or 4 octets repeated (whatever offset a formatter cuts at, it is not
    a character boundary for two of three such strings; seeded change R5_g: log output sliced at octet 48)"""
    ch = rng.choice(["\u00fc", "\u00df", "\u20ac", "\u65e5", "\U0001f600", "\U00010348"]).encode("utf-8")
    pre = bytes(rng.range(0x41, 0x5A) for _ in range(rng.below(4)))
    n = rng.choice([12, 20, 30, 60, (maxlen - len(pre)) // len(ch)])
    return (pre + ch * n)[:maxlen - (maxlen - len(pre)) % len(ch)] if len(pre) + len(ch) * n > maxlen else pre + ch * n


def valid_attr(rng):
    t = rng.choice([1, 1, 2, 3, 4, 5, 6, 7, 254, 255])
    if t == 1:
        body = rng.choice([b"", b"HELLO", "gr\u00fc\u00df".encode(), bytes(rng.range(0x20, 0x7E) for _ in range(rng.choice([1, 40, 255]))),
                           utf8_stripes(rng), utf8_stripes(rng), utf8_stripes(rng)])
    elif t in (2, 3): body = rng.bytes(rng.choice([1, 2, 4]))
    elif t == 4: body = rng.bytes(rng.choice([4, 8]))
    elif t in (5, 6): body = rng.bytes(rng.choice([0, 1, 7, 255]))
    elif t == 7: body = rng.bytes(6)
    elif t == 254: body = rng.bytes(2 * rng.choice([0, 1, 5, 127]))
    else:
        body = rng.bytes(2 * rng.choice([128, 130, 255]))
        return bytes([t, len(body) - 256]) + body
    return bytes([t, len(body)]) + body


def valid_free(rng, v):
    name = rng.choice([b"", b"a", b"file.txt", "\u00e9t\u00e9".encode(), bytes(rng.range(0x20, 0x7E) for _ in range(rng.range(1, 30))),
                       utf8_stripes(rng, 90), utf8_stripes(rng, 200)])
    if v == 2:
        p = rng.choice([b"", b"pw"])
        return D.le(12, 2) + D.le(len(name), 2) + D.le(12 + len(name), 2) + D.le(len(p), 2) + rng.bytes(4) + name + p
    if v == 3: return D.le(26, 2) + D.le(len(name), 2) + rng.bytes(22) + name
    if v == 4: return rng.bytes(13) + name
    if v == 5: return rng.bytes(8) + fbytes(rng, rng.choice([0, 1, 100, 1500]))
    if v == 6: return rng.bytes(9) + name
    if v == 7: return D.le(20, 2) + D.le(len(name), 2) + rng.bytes(16) + name
    return name


def wellformed_header(rng, fc, room):
    """a header the library accepts for this function code, with indices / counts at the edges and as many
    objects as fit into `room`; None when nothing suitable fits"""
    g, v, quals = rng.choice(AFFINITY[fc])
    q = rng.choice(quals)
    if g in (110, 111) and v == 0 and fc != 1:
        v = rng.choice([1, 2, 255])
    if q == D.Q_ALL:
        return header_bytes(g, v, q, 0, 0)
    if q == D.Q_FREE:
        body = valid_free(rng, v)
        return header_bytes(g, v, q, 1, len(body)) + body if len(body) + 6 <= room else None
    wide = q in (D.Q_RANGE16, D.Q_COUNT16, D.Q_PREFIX16)
    top = 65535 if wide else 255
    if g == 0 and D.kind(fc, q, g, v) == "attr":
        body = valid_attr(rng)
        idx = rng.below(256)
        h = header_bytes(g, v, q, idx, idx) if q in _RANGED else header_bytes(g, v, q, 1, 0) + D.le(idx, 2 if wide else 1)
        return h + body if len(h) + len(body) <= room else None
    one = exact_size(fc, g, v, q, 1)
    if one is None:
        return None
    eight = exact_size(fc, g, v, q, 8)
    per = max(one, 1) if eight == 8 * one else 0             # bits: handled below
    if one == 0 and eight == 0:
        n = rng.choice([1, 2, top, top + 1 if q in _RANGED else top, rng.range(1, top)])
    elif eight != 8 * one:                                     # packed bits / double bits
        n = min(rng.choice([1, 7, 8, 9, 4 * (room - 8), top + 1 if q in _RANGED else top]), max(1, 4 * (room - 8)))
    else:
        fit = max(0, (room - 8) // per)
        if fit == 0: return None
        n = min(fit, rng.choice([1, 2, fit, fit, top + 1 if q in _RANGED else top]))
    n = max(1, min(n, top + 1 if q in _RANGED else top))
    if q in _RANGED:
        start = rng.choice([0, top + 1 - n, top + 1 - n, rng.range(0, top + 1 - n)])
        h = header_bytes(g, v, q, start, start + n - 1)
    else:
        if rng.chance(1, 10): n = 0
        h = header_bytes(g, v, q, n, 0)
    size = exact_size(fc, g, v, q, n)
    if len(h) + size > room:
        return None
    body = fbytes(rng, size)
    if size and rng.chance(1, 5):
        body = bytes([rng.choice([0x00, 0xFF, 0x7F, 0x80, 0x01])]) * size
    return h + body


def one_header(rng, fc, room):
    """one object header with edge-case range / count and a body that is exact, short, long or random"""
    g, v = rng.choice(GV_POOL) if rng.chance(9, 10) else (rng.below(256), rng.below(256))
    q = rng.choice(D.QUALIFIERS) if rng.chance(5, 6) else rng.choice(QUALS)
    if q == D.Q_ALL:
        return header_bytes(g, v, q, 0, 0)
    if q == D.Q_FREE:
        ln = rng.choice([0, 1, 2, 26, 100, 300, 2048, 65535, rng.below(64)])
        body = fbytes(rng, min(room, ln if rng.chance(1, 2) else rng.below(ln + 1)))
        return header_bytes(g, v, q, rng.choice([1, 1, 0, 2, 255]), ln) + body
    if q in (D.Q_RANGE8, D.Q_RANGE16):
        a, b = rng.choice(RANGES8 if q == D.Q_RANGE8 else RANGES16)
        n = b - a + 1 if b >= a else 0
    else:
        a = rng.choice(COUNTS8 if q in (D.Q_COUNT8, D.Q_PREFIX8) else COUNTS16)
        b, n = 0, a
    h = header_bytes(g, v, q, a, b)
    if g == 0 and n >= 1 and rng.chance(2, 3):
        return h + (bytes([rng.below(256)]) if q in (D.Q_PREFIX8,) else b"") + attr_object(rng)
    size = exact_size(fc, g, v, q, n)
    how = rng.below(6)
    if size is not None and size <= room and how <= 2:
        return h + fbytes(rng, size)                            # well-formed, edge indices
    if size is not None and size > 0 and how == 3:
        return h + fbytes(rng, min(room, rng.below(size)))      # truncated body
    if how == 4:
        return h                                               # header only
    return h + fbytes(rng, min(room, rng.below(40)))


def repeat_section(rng, maxlen):
    """deeply repetitive sections: one small header repeated until the fragment is full"""
    unit = rng.choice([bytes([1, 2, 0, 5, 5, 0x81]), bytes([1, 2, 0, 5, 5]), bytes([0x3C, 2, 6]), bytes([0x3C, 1, 6]),
                       bytes([12, 1, 0x17, 0]), bytes([0x50, 1, 0, 7, 7, 0]), bytes([1, 1, 0, 0, 0, 1]), bytes([30, 0, 6]),
                       bytes([110, 1, 0, 9, 9, 0x41]), bytes([0x32, 1, 7, 0]), bytes([41, 2, 0x17, 1, 3, 1, 0, 0]),
                       bytes([2, 0, 7, 255]), bytes([60, 2, 8, 0xFF, 0xFF]), bytes([1, 0, 1, 0, 0, 0xFF, 0xFF]),
                       bytes([34, 1, 0x17, 1, 0, 1, 0]), bytes([0, 254, 0, 0, 0]), bytes([0, 0xF0, 6]),
                       bytes([12, 1, 0x28, 0, 0]), bytes([110, 0, 0, 1, 3]), bytes([70, 5, 0x5B, 1, 0, 0]),
                       bytes([41, 2, 0x17, 3, 1, 1, 0, 0, 2, 1, 0, 0, 3, 1, 0, 0]), bytes([34, 1, 0x17, 2, 0, 1, 0, 1, 1, 0]),
                       bytes([1, 2, 0, 0, 1, 1, 1]), bytes([20, 0, 0, 1, 2]), bytes([0x3C, 2, 7, 1])])
    k = maxlen // len(unit) if rng.chance(3, 4) else rng.range(1, max(1, maxlen // len(unit)))
    tail = fbytes(rng, rng.below(3)) if rng.chance(1, 4) else b""
    return (unit * k + tail)[:maxlen]


# (function, header) pairs the outstation accepts, repeated to fill fragments of hundreds of kilobytes
_G41 = bytes([41, 2, 0x17, 3, 1, 1, 0, 0, 2, 1, 0, 0, 3, 1, 0, 0])
_G12 = bytes([12, 1, 0x17, 1, 5]) + struct.pack("<BBIIB", 3, 1, 10, 10, 0)
HUGE_PAIRS = ([(fc, u) for fc in (3, 4, 5, 6) for u in (_G41, _G12, bytes([12, 1, 0x17, 0]), bytes([41, 1, 0x28, 0, 0]))]
              + [(1, u) for u in (bytes([0x3C, 2, 6]), bytes([0x3C, 1, 6]), bytes([1, 2, 0, 5, 5]), bytes([30, 0, 6]), bytes([110, 0, 0, 1, 3]),
                                  bytes([0x3C, 2, 7, 1]), bytes([1, 0, 1, 0, 0, 0xFF, 0xFF]), bytes([2, 0, 8, 0xFF, 0xFF]), bytes([0, 254, 0, 0, 0]))]
              + [(2, u) for u in (bytes([0x50, 1, 0, 7, 7, 0]), bytes([34, 1, 0x17, 1, 0, 1, 0]), bytes([34, 2, 0x28, 1, 0, 1, 0, 1, 0, 0, 0]),
                                  bytes([0x32, 1, 7, 1, 1, 2, 3, 4, 5, 6]), bytes([0x50, 1, 0, 4, 4, 0]))]
              + [(fc, u) for fc in (7, 8, 9, 10) for u in (bytes([20, 0, 6]), bytes([20, 0, 0, 1, 2]), bytes([20, 0, 1, 0, 0, 0xFF, 0xFF]))]
              + [(fc, u) for fc in (20, 21) for u in (bytes([0x3C, 2, 6]), bytes([0x3C, 3, 6, 0x3C, 4, 6]))]
              + [(22, bytes([0x3C, 2, 6, 1, 0, 6])), (22, bytes([0x3C, 3, 6, 30, 0, 0, 0, 9])), (22, bytes([0x3C, 1, 6, 20, 0, 1, 0, 0, 0xFF, 0xFF]))])


def hostile_objects(rng, fc, maxlen):
    maxlen = max(0, maxlen)
    mode = rng.below(12)
    if mode == 0:
        return fbytes(rng, rng.choice([0, 1, 2, 3, 5, 11, maxlen, rng.below(maxlen + 1)]))[:maxlen]
    if mode <= 2:
        return repeat_section(rng, maxlen if rng.chance(2, 3) else min(maxlen, 200))
    if mode == 3:
        # one header announcing far more than the fragment holds
        g, v = rng.choice([(1, 2), (30, 1), (2, 2), (110, 255), (111, 255), (12, 1), (41, 4), (34, 3), (1, 1), (3, 1), (80, 1), (50, 1), (0, 211)])
        q = rng.choice([D.Q_RANGE16, D.Q_COUNT16, D.Q_PREFIX16, D.Q_RANGE8, D.Q_PREFIX8])
        h = header_bytes(g, v, q, 0 if q in (D.Q_RANGE16, D.Q_RANGE8) else 65535, 65535)
        return (h + fbytes(rng, rng.choice([0, 1, 100, maxlen])))[:maxlen]
    out = b""
    friendly = fc in AFFINITY and mode >= 7
    for _ in range(rng.range(1, 5)):
        room = maxlen - len(out) - 11
        if room <= 0: break
        h = wellformed_header(rng, fc, room if rng.chance(2, 3) else min(room, 60)) if (friendly and rng.chance(5, 6)) else None
        out += h if h is not None else one_header(rng, fc, room)
    out = out[:maxlen]
    if mode == 4 and len(out) > 1:
        out = out[:rng.range(1, len(out) - 1)]            # cut anywhere
    elif mode == 5 and out:
        m = bytearray(out)
        for _ in range(rng.range(1, 3)):
            m[rng.below(len(m))] ^= 1 << rng.below(8)      # flipped bits
        out = bytes(m)
    elif mode == 6:
        out = (out + fbytes(rng, rng.range(1, 4)))[:maxlen]  # trailing garbage
    return out


def near_valid_objects(rng, fc, maxlen):
    """well-formed headers for this function with the range / count field of exactly one of them replaced by an
    edge pair (inverted, empty, maximal): everything else in the fragment parses, so the odd field is what reaches
    the layer above the parser (seeded change C01_a: READ with start > stop)"""
    hs = []
    for _ in range(rng.range(1, 3)):
        room = maxlen - sum(len(h) for h in hs) - 11
        if room <= 0: break
        h = wellformed_header(rng, fc, min(room, 80))
        if h is not None: hs.append(h)
    if not hs:
        return one_header(rng, fc, maxlen)[:maxlen]
    i = rng.below(len(hs))
    h = bytearray(hs[i])
    q = h[2]
    if q == D.Q_RANGE8 and len(h) >= 5:
        h[3:5] = bytes(rng.choice(RANGES8 + [(10, 5), (1, 0), (255, 0)]))
    elif q == D.Q_RANGE16 and len(h) >= 7:
        a, b = rng.choice(RANGES16 + [(10, 5), (1, 0), (65535, 0)])
        h[3:7] = D.le(a, 2) + D.le(b, 2)
    elif q in (D.Q_COUNT8, D.Q_PREFIX8) and len(h) >= 4:
        h[3] = rng.choice(COUNTS8)
    elif q in (D.Q_COUNT16, D.Q_PREFIX16) and len(h) >= 5:
        h[3:5] = D.le(rng.choice(COUNTS16), 2)
    hs[i] = bytes(h)
    return b"".join(hs)[:maxlen]


def hostile_request(rng, seq, maxlen):
    r = rng.below(20)
    fc = rng.choice(REQ_FUNCS) if r < 11 else rng.choice(FUNCS) if r < 19 else rng.below(256)
    c = ost.ctl(seq, con=rng.chance(1, 8), uns=rng.chance(1, 12), fir=not rng.chance(1, 12), fin=not rng.chance(1, 12))
    k = rng.below(20)
    if k == 0: return bytes([c])
    if k <= 4 and fc in AFFINITY:
        return bytes([c, fc]) + near_valid_objects(rng, fc, maxlen - 2)
    return bytes([c, fc]) + hostile_objects(rng, fc, maxlen - 2)


def hostile_response(rng, seq, maxlen, func=None):
    func = func if func is not None else rng.choice([0x81, 0x81, 0x81, 0x82, 0x83, 0x01, 0x00, rng.below(256)])
    fir, fin = not rng.chance(1, 8), not rng.chance(1, 8)
    uns = (func == 0x82) != rng.chance(1, 8)
    c = M.ctrl(fir, fin, rng.chance(1, 2), uns, seq)
    k = rng.below(16)
    if k == 0: return bytes([c])
    if k == 1: return bytes([c, func, rng.below(256)])
    return bytes([c, func, rng.choice([0, 0, 0x80, 0x10, 0xFF]), rng.choice([0, 0, 1, 2, 4, 0x3F])]) + hostile_objects(rng, 129, maxlen - 4)


# ------------------------------------------------------------------------------------------------
# engine `accept`: the scripts run on /verif/pairtest (another binary than dnp3's test build).  The build / shard /
# run helpers are those of c02.py (imported, not copied; importing c02 also installs its run_cases dispatcher, which
# passes every other property through); C01's own dispatcher sends the accept scripts there and everything else
# down the normal path.

def accept_engine(case):
    return case.script.split("\n", 1)[0].split()[2:3] == ["accept"]


def _c01_run_cases(prop, cases, tag):
    if getattr(prop, "id", None) != "C01":
        return _prev_run_cases(prop, cases, tag)
    acc = [c for c in cases if accept_engine(c)]
    rest = [c for c in cases if not accept_engine(c)]
    impl, model, extra = {}, {}, None
    builder, built = None, {}
    if acc and rest:
        # the release build of pairtest (half a minute after a change of /repo) overlaps the other families' run;
        # the accept scripts themselves run afterwards, on a quiet machine (they are the only ones on real time)
        def build():
            try:
                c02.build_pairtest()
            except BaseException as e:
                built["error"] = e
        builder = threading.Thread(target=build)
        builder.start()
    try:
        if rest:
            res = _prev_run_cases(prop, rest, tag)
            impl, model = dict(res[0]), dict(res[1])
            extra = res[2] if len(res) > 2 else None
    finally:
        if builder:
            builder.join()
    if "error" in built:
        raise built["error"]
    if acc:
        for c in acc:
            c.meta["impl_only"] = True           # also for a replayed script whose meta was lost
            c.meta.setdefault("engine", "accept")
        work = os.path.join(WORK, prop.id, "accept_p%d" % os.getpid())
        try:
            got = c02.run_pair_shards([c.script for c in acc], work, tag)
            built_from = c02._built_from
            note = None
            if c02.repo_fingerprint() != built_from:
                # the source tree was edited while the scripts ran (see c02.repo_fingerprint): build again, run once more
                note = "%s -> %s (accept scripts repeated)" % (built_from, c02.repo_fingerprint())
                c02._pair_bin = None
                got = c02.run_pair_shards([c.script for c in acc], work, tag + "_again")
                built_from = c02._built_from
        finally:
            shutil.rmtree(work, ignore_errors=True)
        impl.update(got)
        for c in acc:
            model[c.sid] = ["no model: engine accept is implementation only"]
        prop.accept_coverage = prop.accept_totals(acc, got)
        prop.accept_coverage["pairtest_built_from"] = built_from
        if note:
            prop.accept_coverage["tree_changed_during_run"] = note
    return impl, model, extra


_prev_run_cases = propcheck.run_cases
propcheck.run_cases = _c01_run_cases


class C01(ost.OutstationProp):
    id = "C01"
    translators = ["gen_link", "gen_variations", "gen_qualifiers", "gen_functions", "gen_panic_sites"]
    proof_targets = ["System/PanicLedger.vo"]
    property_file = "Properties/C01.v"
    theorems = []
    modelled = ("PARTIAL: theorems cover the panic-site ledger (generated from the 21 anchored files, reviewed in "
                "tools/gen/panic_ledger.json; three sites OPEN = known finding) and the fuel / guard lemmas of the "
                "modelled layers; absence of panics and stalls in the real code and liveness afterwards are decided by "
                "the hostile correspondence runs only (debug build, overflow checks on).  Not modelled: allocation "
                "failure, stack depth, the tokio runtime, sockets/TLS/serial, panics outside the 21 files; the TCP servers' "
                "accept loops (dnp3/src/tcp/master/server.rs, tcp/outstation/server.rs) have NO model: they are sampled on "
                "loopback TCP by the family `accept` (direct oracle only)")
    rule = ("hostile scripts for the engines link, treader (both roles, close and discard, streams cut into reads by the "
            "model), outstation (decode 0..3, tx 249..2048, rx 249..4096, idle / solicited / unsolicited confirm wait, "
            "event overflow while waiting), app (parse + Display at every level) and master (task outstanding); every "
            "script ends with a liveness probe (frames still delivered / clean err; READ answered with its sequence "
            "number; fresh read task completes).  Family accept (real loopback TCP, /verif/pairtest, implementation only): "
            "master TCP server with link identification (max_tasks 1, 2, 16; identification failures below, at, above and "
            "at twice the slots; timeout 150..300 ms) or plain accept, and outstation TCP server; hostile peers (nothing, "
            "1..9 octets, garbage, header + part of a frame, silent before / past the timeout, FIN or RST) interleaved with "
            "well-formed peers that must be served (ACK + first request / READ class 0 answered with its sequence number).  "
            "Non-trivial = the implementation produced an observation beyond `end` (accept: a good peer served after a "
            "hostile one); distinct = distinct (config, trace)")

    # ---- dispatch per engine (as c07.py does) ------------------------------------------------------------
    def model_script(self, case, impl):
        eng = case.meta.get("engine")
        if accept_engine(case):
            return case.script.split("\n", 1)[0] + "\nE"
        if case.meta.get("impl_only"):
            return case.script.split("\n", 1)[0] + "\nE"
        if eng == "outstation":
            return ost.OutstationProp.model_script(self, case, impl)
        if eng == "master":
            return self.master_model_script(case, impl)
        return case.script

    def canon(self, lines, side):
        head = [l.split() for l in lines[:4]]
        if any(len(t) >= 2 and t[1] == "chan" for t in head):
            return lines                                       # master traces are compared verbatim
        if lines and (lines[0].split()[:1] or ["x"])[0].isdigit():
            return ost.OutstationProp.canon(self, lines, side)
        return lines

    def nontrivial(self, case, impl):
        if accept_engine(case):
            # a well-formed peer served after a hostile one
            bad = next((i for i, l in enumerate(impl) if l.startswith("bad ") and " sent " in l), None)
            return bad is not None and any(l.startswith("good served") for l in impl[bad:])
        return len([l for l in impl if l != "end" and not l.endswith(" end")]) > 0

    def finding_signature(self, case, clause, desc):
        return "%s/%s/%s" % (clause, case.meta.get("engine"), case.meta.get("kind"))

    # ---- (i) link and transport readers -------------------------------------------------------------------
    def good_frames(self, rng, role_peer_dir):
        frames = []
        for _ in range(rng.range(1, 3)):
            n = rng.choice([0, 1, 16, 17, 249, 250, rng.below(251)])
            frames.append((rng.below(256), rng.choice([1, ME, 0xFFFF, rng.below(65536)]), rng.choice([1, ME, rng.below(65536)]), fbytes(rng, n)))
        return frames

    def mutated_frame(self, rng, ctrl, dest, src, payload):
        """a valid frame with one field changed (CRCs recomputed or not)"""
        f = bytearray(dnp.link_frame(ctrl, dest, src, payload))
        what = rng.choice(["start1", "start2", "len", "len-crc", "ctrl", "dest", "src", "hcrc", "body", "bcrc", "cut", "dup-header", "none"])
        if what == "start1": f[0] = rng.below(256)
        elif what == "start2": f[1] = rng.below(256)
        elif what == "len": f[2] = rng.below(256)
        elif what == "len-crc":
            # a length that does not match the body, header CRC made right again
            f[2] = rng.choice([0, 1, 4, 5, 6, 21, 22, 254, 255, rng.below(256)])
            f[:10] = dnp.with_crc(bytes(f[:8]))
        elif what == "ctrl": f[3] = rng.below(256); f[:10] = dnp.with_crc(bytes(f[:8])) if rng.chance(1, 2) else f[:10]
        elif what == "dest": f[4] ^= 1 << rng.below(8); f[:10] = dnp.with_crc(bytes(f[:8])) if rng.chance(1, 2) else f[:10]
        elif what == "src": f[7] ^= 1 << rng.below(8); f[:10] = dnp.with_crc(bytes(f[:8])) if rng.chance(1, 2) else f[:10]
        elif what == "hcrc": f[8 + rng.below(2)] ^= 1 << rng.below(8)
        elif what == "body" and len(f) > 10: f[rng.range(10, len(f) - 1)] ^= 1 << rng.below(8)
        elif what == "bcrc" and len(f) > 10: f[len(f) - 1 - rng.below(2)] ^= 0xFF
        elif what == "cut": f = f[:rng.range(1, len(f))]
        elif what == "dup-header": f = f[:10] + f
        return bytes(f)

    def hostile_stream(self, rng, kind, peer_ctrls, dest, frag=2048):
        """bytes a hostile peer sends; peer_ctrls = control octets a frame from the right direction may carry"""
        def rframe(n=None, ctrl=None):
            n = rng.choice([0, 1, 15, 16, 17, 32, 100, 249, 250]) if n is None else n
            return (ctrl if ctrl is not None else (rng.choice(peer_ctrls) if rng.chance(2, 3) else rng.below(256)),
                    rng.choice([dest, dest, 0xFFFF, 0xFFFD, 0xFFFC, rng.below(65536)]), rng.choice([PEER, PEER, 7, 0xFFFF, rng.below(65536)]), fbytes(rng, n))
        if kind == "rand":
            n = rng.choice([1, 2, 9, 10, 100, 292, 293, 600, 1500])
            b = bytearray(fbytes(rng, n))
            for _ in range(rng.below(6)):                       # sprinkle frame starts
                p = rng.below(len(b)); b[p:p + 2] = b"\x05\x64"
            return bytes(b[:n])
        if kind == "mutfield":
            return b"".join(self.mutated_frame(rng, *rframe()) for _ in range(rng.range(1, 6)))
        if kind == "maxlen":
            parts = []
            for _ in range(rng.range(1, 5)):
                f = bytearray(dnp.link_frame(*rframe(250)))
                if rng.chance(1, 2):
                    f[2] = 255 if rng.chance(1, 2) else rng.choice([254, 253, 5])   # announces more / less than is there
                    f[:10] = dnp.with_crc(bytes(f[:8]))
                parts.append(bytes(f))
            return b"".join(parts)
        if kind == "lenfield":
            # every length octet 0..255 behind a VALID header CRC, body truncated / random / absent
            parts = []
            for _ in range(rng.range(1, 8)):
                L = rng.below(256)
                c, d, s, _p = rframe(0)
                hdr = dnp.with_crc(bytes([0x05, 0x64, L, c, d & 0xFF, d >> 8, s & 0xFF, s >> 8]))
                body_len = 0 if L < 5 else (L - 5) + 2 * (((L - 5) + 15) // 16)
                parts.append(hdr + fbytes(rng, rng.choice([0, 1, 2, body_len // 2, max(0, body_len - 1), body_len, rng.below(body_len + 1)])))
            return b"".join(parts)
        if kind == "tiny":
            # thousands of minimal frames (header only), valid and from every direction
            n = rng.choice([500, 1500, 3000])
            pool = [dnp.link_frame(*rframe(0)) for _ in range(8)] + [dnp.link_frame(*rframe(1)) for _ in range(2)]
            return b"".join(pool[rng.below(len(pool))] for _ in range(n))
        if kind == "wrap":
            return b"".join(dnp.link_frame(*rframe()) if rng.chance(3, 4) else self.mutated_frame(rng, *rframe()) for _ in range(rng.range(4, 12)))
        if kind == "segments":
            # intact frames from the right peer whose TRANSPORT content is hostile: series that outgrow the receive
            # buffer and go on (seeded change C01_b), random FIR/FIN/sequence, duplicates, header-only segments
            data_ctrl = peer_ctrls[0]
            seq = rng.below(64)
            how = rng.choice(["overrun", "overrun", "overrun-fin", "random", "dup", "nofir", "empty"])
            def seg(t, n): return dnp.link_frame(data_ctrl, dest, PEER, bytes([t & 0xFF]) + fbytes(rng, n))
            parts = []
            if how.startswith("overrun"):
                size = rng.choice([249, 249, 200, 100])
                nseg = frag // size + rng.range(2, 5)
                for k in range(nseg):
                    parts.append(seg((0x40 if k == 0 else 0) | ((seq + k) & 63), size))
                if how == "overrun-fin":
                    parts.append(seg(0x80 | ((seq + nseg) & 63), rng.choice([0, 1, 249])))
            elif how == "random":
                for _ in range(rng.range(5, 40)):
                    parts.append(seg(rng.below(256), rng.choice([0, 1, 100, 249])))
            elif how == "dup":
                for k in range(rng.range(3, 12)):
                    f = seg((0x40 if k == 0 else 0) | ((seq + k) & 63), rng.choice([1, 100, 249]))
                    parts += [f] * rng.range(1, 3)
            elif how == "nofir":
                for k in range(rng.range(2, 12)):
                    parts.append(seg((seq + k) & 63, rng.choice([1, 249])))
            else:
                for k in range(rng.range(2, 30)):
                    parts.append(seg(((0x40 if k == 0 else 0) | ((seq + k) & 63)) if rng.chance(3, 4) else rng.below(256), 0))
            return b"".join(parts)
        # mixed
        parts = []
        for _ in range(rng.range(2, 8)):
            k = rng.choice(["rand", "mutfield", "lenfield", "maxlen"])
            parts.append(self.hostile_stream(rng, k, peer_ctrls, dest)[:rng.choice([40, 300, 2000])])
        return b"".join(parts)

    def cases_link(self, rng, n):
        abstract, metas = [], {}
        for i in range(n):
            sid = "c01_l_%d" % i
            engine = rng.choice(["link", "treader", "treader"])
            mode = rng.choice(["close", "discard", "discard"])
            role = rng.choice(["outstation", "master"])
            frag = rng.choice([249, 249, 250, 498, 2048])
            kind = rng.choice(["rand", "rand", "mutfield", "mutfield", "maxlen", "lenfield", "lenfield", "tiny", "wrap", "mixed", "mixed"])
            probe = "reset" if (mode == "discard" and rng.chance(1, 5) and kind != "tiny") else "stream"
            # control octets a frame from the opposite station may carry (DIR bit of the peer)
            d = 0x80 if role == "outstation" else 0x00
            peer_ctrls = [d | 0x44, d | 0x44, d | 0x40, d | 0x49, d | 0x53, d | 0x73, d | 0x52, d | 0x00, d | 0x0B, d | 0x01, d | 0x0F]
            if kind == "wrap":
                frag = 249
            if engine == "treader" and rng.chance(1, 4):
                kind = "segments"
            hostile = self.hostile_stream(rng, kind, peer_ctrls, ME, frag)
            cfg = {"mode": mode, "read": "stream", "frag": frag, "decode": rng.below(4)}
            if engine == "link":
                frames = self.good_frames(rng, d)
                good = [dnp.link_frame(*f) for f in frames]
                expect = ["frame %d %d %d %s" % (f[0], f[1], f[2], hexs(f[3])) for f in frames]
            else:
                cfg.update({"role": role, "addr": ME, "self": rng.below(2) if role == "outstation" else 0})   # a master has no self-address feature
                L = min(frag, rng.choice([1, 2, 248, 249, 250, 498, 700, rng.range(1, frag)]))
                fragment = fbytes(rng, L)
                segs = dnp.segments(fragment, rng.below(64))
                good = [dnp.link_frame(d | 0x44, ME, PEER, bytes([t]) + c) for t, c in segs]
                expect = [hexs(fragment)]
            # whatever candidate the hostile bytes left pending is resolved by 300 octets that contain no frame start
            flush = noise_no_start(rng, 300)
            if kind == "wrap":
                sizes = [rng.choice([1, 2, 7, 100, 290, 291, 292, 293]) for _ in range(80)]
            elif kind == "tiny":
                sizes = [rng.choice([1, 3, 10, 11, 250, 293, 5000]) for _ in range(60)]
            else:
                sizes = [rng.range(1, 400) if rng.chance(3, 4) else 1 for _ in range(rng.range(0, 25))]
            if probe == "reset":
                stream = hostile
            else:
                # the well-formed sequence is sent twice: a valid hostile header that announces 8 more octets
                # (LEN = 13, 29, ...) directly in front of a well-formed frame takes that frame's header block
                # (8 octets + their own CRC) as its last body block - the frame IS valid, the format is ambiguous
                # there - so the first copy may lose its first frame; the second copy finds a resynchronised parser
                stream = hostile + b"".join(good) + b"".join(good) + flush
            metas[sid] = {"engine": engine, "kind": kind, "mode": mode, "probe": probe, "expect": expect,
                          "good_feeds": [hexs(g) for g in good], "impl_only": probe == "reset", "hostile_len": len(hostile)}
            abstract.append(script_text(sid, engine, cfg, [tuple(["stream", hexs(stream)] + sizes)]))
        conc = concretize(self.id, abstract) if abstract else {}
        out = []
        for sid, lines in conc.items():
            m = metas[sid]
            if m["probe"] == "reset":
                lines = lines[:-1] + ["reset"] + ["feed " + g for g in m["good_feeds"]] + ["E"]
            del m["good_feeds"]
            out.append(Case(sid, "\n".join(lines), m))
        return out

    def oracle_link(self, case, impl):
        m = case.meta
        fails = []
        for l in impl:
            if l.startswith("panic") or l.startswith("harness-died") or l == "missing":
                fails.append(("no-panic", "%s engine panicked or stalled on a hostile stream (%s): %s" % (m["engine"], m["kind"], l[:200])))
        if fails:
            return fails
        if not impl or impl[-1] != "end":
            fails.append(("no-clean-end", "the script did not run to its end: " + " / ".join(impl[-2:])[:160]))
            return fails
        errs = [i for i, l in enumerate(impl) if l.startswith("err ")]
        if "overflow" in impl:
            # the reads were cut to fit a buffer of one maximum frame (292 octets) per 249 octets of fragment plus one
            fails.append(("reader-room", "%s engine: the reader offered less room than the reference buffer geometry: a well-formed "
                          "maximum-size frame cannot be read (%s/%s)" % (m["engine"], m["mode"], m["kind"])))
            return fails
        if m["engine"] == "link":
            got = [l for l in impl if l.startswith("frame ")]
        else:
            got = [l.split()[4] for l in impl if l.startswith("frag ") and len(l.split()) >= 5]
        if m["probe"] == "reset":
            if "reset" not in impl:
                if not errs:
                    fails.append(("probe-not-run", "reset was not executed"))
                return fails
            after = impl[impl.index("reset") + 1:]
            got = [l for l in after if l.startswith("frame ")] if m["engine"] == "link" else \
                  [l.split()[4] for l in after if l.startswith("frag ") and len(l.split()) >= 5]
            if errs:
                fails.append(("err-in-discard-mode", "an error ended a discard-mode session: " + impl[errs[0]]))
            elif got != m["expect"]:
                fails.append(("liveness-after-reset", "after reset() in an arbitrary state the well-formed frames were not delivered exactly (%d of %d)" % (len(got), len(m["expect"]))))
            return fails
        if m["mode"] == "close":
            if errs:
                if len(errs) != 1 or errs[0] != len(impl) - 2:
                    fails.append(("close-not-clean", "close mode: the error is not the single last observation: " + " / ".join(impl[-4:])[:200]))
                return fails
        elif errs:
            fails.append(("err-in-discard-mode", "an error ended a discard-mode session: " + impl[errs[0]]))
            return fails
        # liveness: the well-formed sequence behind the hostile bytes is delivered, in order
        j = 0
        for g in got:
            if j < len(m["expect"]) and g == m["expect"][j]:
                j += 1
        if j != len(m["expect"]):
            fails.append(("liveness-frames", "%s/%s: %d of %d well-formed %s behind the hostile bytes were delivered"
                          % (m["mode"], m["kind"], j, len(m["expect"]), "frames" if m["engine"] == "link" else "fragments")))
        return fails

    # ---- (ii) outstation ----------------------------------------------------------------------------------
    def cases_outstation(self, rng, n, huge=0):
        out = []
        F = ost.FN
        for i in range(n):
            sid = "c01_o_%d" % i
            state = rng.choice(["idle", "idle", "solwait", "solwait", "unsolwait", "unsolwait", "unsol-overflow"])
            cfg = self.base_cfg(rng, unsol=1 if state.startswith("unsol") else rng.below(2))
            cfg["decode"] = i % 4
            cfg["soltx"] = rng.choice([249, 249, 250, 292, 300, 512, 1024, 2047, 2048, rng.range(249, 2048)])
            cfg["unsoltx"] = rng.choice([249, 300, 2048])
            cfg["rx"] = rng.choice([249, 292, 2048, 2048, 2048, 4096])
            cfg["evbuf"] = rng.choice([1, 1, 2, 3, 5])
            cfg["confirm_ms"] = 1000
            cfg["retries"] = rng.choice(["none", "0", "1"])
            cfg["retry_delay_ms"] = rng.choice([500, 1000])
            if rng.chance(1, 3): cfg["wtime"] = rng.below(3)
            if rng.chance(1, 3): cfg["freeze"] = rng.below(3)
            if huge and i < huge:
                # BufferSize has no upper bound: fragments of several hundred kilobytes made of one small header
                # repeated (more than 65535 objects / headers of one kind: u16 and u8 counters, finding F18)
                state = "huge-" + state
                cfg["rx"] = rng.choice([270000, 400000])
                cfg["soltx"] = rng.choice([249, 2048, 400000])
                cfg["decode"] = rng.choice([0, 0, 3])
            rx = cfg["rx"]
            ops = []
            npts = rng.range(1, 3)
            for k in range(npts):
                ops.append(("add", rng.choice(["binary", "analog", "counter", "octet", "double", "frozen", "bos", "aos"]), k, rng.range(1, 3)))
            ops.append(("add", "binary", 100, 1))
            ops.append(("add", "binary", 101, 2))
            seq = rng.below(16)
            tstamp = [1000]

            def rxop(b, frm=ost.MASTER, bc="none"):
                ops.append(("rx", frm, bc, hexs(b[:rx])))

            def upd():
                tstamp[0] += 1
                ops.append(("update", "binary", rng.choice([100, 101]), str(tstamp[0] & 1), 1, tstamp[0]))

            if state.startswith("unsol"):
                if state == "unsol-overflow" or rng.chance(1, 2):
                    # null unsolicited confirmed, classes enabled, event reported unsolicited and not yet confirmed
                    rxop(ost.frag(0, F["confirm"], uns=True))
                    rxop(ost.frag(seq, F["enable"], ost.read_classes((1, 2, 3)))); seq = (seq + 1) & 15
                    upd()
                    if state == "unsol-overflow":
                        for _ in range(rng.range(1, 4)): upd()        # overflow discards what is awaiting the confirm
                # else: still waiting for the confirm of the initial null unsolicited response
            elif state == "solwait":
                for _ in range(rng.range(1, 3)): upd()
                rxop(ost.frag(seq, F["read"], ost.read_classes(rng.choice([(1, 2, 3), (1, 2, 3, 0), (1,)]))))
                seq = (seq + 1) & 15
                if rng.chance(1, 3): upd()
            nh = rng.range(1, 6)
            for _ in range(nh):
                who = rng.below(12)
                frm = ost.FOREIGN if who == 0 else ost.MASTER
                bc = rng.choice(["opt", "mand", "notreq"]) if who == 1 else "none"
                if state.startswith("huge") and rng.chance(2, 3):
                    if rng.chance(2, 3):
                        fc, unit = rng.choice(HUGE_PAIRS)
                        body = (unit * ((rx - 2) // len(unit)))
                    else:
                        fc = rng.choice([1, 2, 3, 4, 5, 6, 6, 7, 8, 20, 22])
                        body = repeat_section(rng, rx - 2)
                    rxop(bytes([ost.ctl(seq), fc]) + body)
                else:
                    rxop(hostile_request(rng, seq if rng.chance(3, 4) else rng.below(16), min(rx, 4096)), frm, bc)
                r = rng.below(10)
                if r == 0: upd()
                elif r == 1: rxop(ost.frag(seq, F["confirm"]))
                elif r == 2: rxop(ost.frag(rng.below(16), F["confirm"], uns=True))
                elif r == 3: ops.append(("sleep", rng.choice([1, 999, 1000, 1001])))
                elif r == 4 and rng.chance(1, 3): ops.append(("disconnect",))
                seq = (seq + 1) & 15
            # liveness probe: a well-formed READ from the configured master
            pseq = rng.below(16)
            probe_at = len(ops)
            rxop(ost.frag(pseq, F["read"], ost.read_classes(rng.choice([(1, 2, 3, 0), (0,), (1, 2, 3)]))))
            ops.append(("sleep", 2200))
            meta = {"engine": "outstation", "kind": state, "cfg": cfg, "probe_op": probe_at, "probe_seq": pseq}
            if state.startswith("huge"):
                # the extracted session model needs minutes for a digest of 10^5 headers (list append per header);
                # these scripts are judged on the implementation only: no panic, probe answered
                meta["impl_only"] = True
            out.append(Case(sid, script_text(sid, "outstation", cfg, ops), meta))
        return out

    def cases_outstation_edges(self, rng):
        """deterministic: every READ-able static group with ONE range header whose start / stop pair is an edge
        (inverted, empty, top of the index space) in an otherwise well-formed READ, in idle and during a solicited
        confirm wait; then the liveness probe (seeded change C01_a was caught by chance only until this family)"""
        out = []
        F = ost.FN
        k = 0
        for g in (1, 3, 10, 20, 21, 30, 40, 110):
            for wide in (False, True):
                for (a, b) in ((10, 5), (1, 0), (255, 0) if not wide else (65535, 0), (0, 255) if not wide else (65535, 65535)):
                    sid = "c01_e_%d" % k; k += 1
                    cfg = self.base_cfg(rng, unsol=0)
                    cfg.update({"decode": k % 4, "soltx": 2048, "rx": 2048, "evbuf": 3, "confirm_ms": 1000})
                    ops = [("add", "binary", 0, 1), ("add", "analog", 1, 2), ("add", "counter", 2, 3), ("add", "octet", 3, 0)]
                    seq = rng.below(16)
                    hdr = header_bytes(g, 0, D.Q_RANGE16 if wide else D.Q_RANGE8, a, b)
                    if k % 2:
                        ops.append(("update", "binary", 0, "1", 1, 50))
                        ops.append(("rx", ost.MASTER, "none", hexs(ost.frag(seq, F["read"], ost.read_classes((1, 2, 3))))))   # now awaiting a confirm
                        seq = (seq + 1) & 15
                    body = hdr if k % 3 else hdr + header_bytes(30, 0, D.Q_ALL, 0, 0)
                    ops.append(("rx", ost.MASTER, "none", hexs(bytes([ost.ctl(seq), F["read"]]) + body)))
                    pseq = (seq + 1) & 15
                    probe_at = len(ops)
                    ops.append(("rx", ost.MASTER, "none", hexs(ost.frag(pseq, F["read"], ost.read_classes((0,))))))
                    ops.append(("sleep", 2200))
                    out.append(Case(sid, script_text(sid, "outstation", cfg, ops),
                                    {"engine": "outstation", "kind": "read-edge", "cfg": cfg, "probe_op": probe_at, "probe_seq": pseq}))
        return out

    def oracle_outstation(self, case, impl):
        m = case.meta
        fails = []
        for l in impl:
            if l.startswith("panic") or l.startswith("harness-died") or l == "missing":
                fails.append(("no-panic", "outstation task panicked or stalled (%s): %s" % (m.get("kind"), l[:160])))
        if "probe_seq" not in m:
            return fails
        steps = ost.split_steps(impl)
        # steps[0] is the start-up pseudo step; op k of the script is steps[k + 1]
        after = steps[m["probe_op"] + 1:]
        answered = False
        for op, t, lines in after:
            for (_, dest, b) in ost.txs(lines):
                if len(b) >= 2 and b[1] == 129 and (b[0] & 15) == m["probe_seq"]:
                    answered = True
        if not answered and not fails:
            fails.append(("liveness-read", "a well-formed READ (seq %d) after the hostile fragments (%s) was not answered"
                          % (m["probe_seq"], m.get("kind"))))
        return fails

    # ---- (iii) app: parse + Display -----------------------------------------------------------------------
    def cases_app(self, rng, n):
        out = []
        for i in range(n):
            sid = "c01_a_%d" % i
            ops = []
            for _ in range(rng.range(2, 6)):
                if rng.chance(1, 2):
                    b = hostile_request(rng, rng.below(16), rng.choice([20, 100, 249, 2048]))
                    mode = "req"
                else:
                    b = hostile_response(rng, rng.below(16), rng.choice([20, 100, 249, 2048]))
                    mode = "resp"
                ops.append(("parse", mode, hexs(b)))
                for lvl in range(4):
                    ops.append(("display", lvl, hexs(b)))
            out.append(Case(sid, script_text(sid, "app", {"zls": rng.below(2)}, ops), {"engine": "app", "kind": "parse-display"}))
        # well-formed fragments whose TEXT is what is hostile: device attributes (g0) with long strings of multi-byte
        # characters, rendered at every decode level (the formatter of the log output is code the peer's bytes reach)
        for i in range(max(8, n // 5)):
            sid = "c01_at_%d" % i
            ops = []
            for _ in range(rng.range(2, 4)):
                body = bytes([1, 0]) + b""      # placeholder, replaced below
                txt = utf8_stripes(rng)
                var = rng.choice([196, 211, 240, 245, 246, 247, 252, 255 - 1])
                idx = rng.below(256)
                obj = bytes([0, var, 0x00, idx, idx, 1, len(txt)]) + txt
                if rng.chance(1, 2):
                    b = bytes([ost.ctl(rng.below(16)), 2]) + obj; mode = "req"
                else:
                    b = bytes([M.ctrl(True, True, False, False, rng.below(16)), 0x81, 0, 0]) + obj; mode = "resp"
                ops.append(("parse", mode, hexs(b)))
                for lvl in range(4):
                    ops.append(("display", lvl, hexs(b)))
            out.append(Case(sid, script_text(sid, "app", {"zls": 0}, ops), {"engine": "app", "kind": "attr-text"}))
        return out

    # ---- (iv) master ---------------------------------------------------------------------------------------
    def cases_master(self, rng, n):
        out = []
        for i in range(n):
            sid = "c01_m_%d" % i
            cfg = {"timeout": 1000, "decode": i % 4}
            if rng.chance(1, 4):
                cfg.update({"disable_unsol": 7, "integrity": rng.choice([15, 1]), "retry_min": 100, "retry_max": 400})
            s = M.Script(sid, cfg)
            kind = rng.choice(["read", "read", "command", "command", "idle"])
            if kind == "read":
                s.user("read", rng.choice(["class:1", "class:15", "hdr:1e0106", "hdr:0102000307", "hdr:6e00000005"]))
            elif kind == "command":
                hs = M.rand_command(rng, 2, 2)
                s.user(rng.choice(["do", "sbo"]), *M.header_tokens(hs), meta={"headers": hs})
            nh = rng.range(1, 7)
            for _ in range(nh):
                seq = rng.below(16) if rng.chance(1, 2) else rng.below(3)
                s.rx(hostile_response(rng, seq, rng.choice([30, 249, 2048])), "none", [],
                     src=M.ADDR if rng.chance(9, 10) else rng.choice(M.FOREIGN))
                if rng.chance(1, 8): s.sleep(rng.choice([1, 999, 1001]))
            hostile_ops = len(s.ops)
            s.sleep(1100)                      # whatever is outstanding ends (completion, failure or timeout)
            if "disable_unsol" in cfg:
                s.sleep(1500)
            tok = s.user("read", "hdr:1e0106")
            for q in range(16):                # exactly one of these carries the request's sequence number
                s.rx(M.response(M.ctrl(1, 1, 0, 0, q), 0, 0, b""), "ok", [])
            s.sleep(5)
            out.append(s.case(kind, {"engine": "master", "probe_tok": tok, "hostile_ops": hostile_ops}))
        return out

    def master_model_script(self, case, impl):
        """the model takes the parser's verdict on each received fragment as an input: use the REAL
        verdict (`pv`) recorded by the harness; a hostile fragment that parses and carries objects would
        need the delivered items as well - such a script is compared on the implementation only"""
        pv = {}
        cur = None
        for l in impl:
            w = l.split()
            if len(w) >= 3 and w[1] == "op":
                cur = int(w[2])
            elif len(w) >= 3 and w[1] == "pv" and cur is not None:
                pv[cur] = w[2]
        lines = case.script.split("\n")
        out = [lines[0]]
        for k, l in enumerate(lines[1:-1]):
            w = l.split()
            if w[0] == "rx" and k < case.meta.get("hostile_ops", 0):
                v = pv.get(k)
                frag = bytes.fromhex(w[2]) if w[2] != "-" else b""
                if v is None or (v == "ok" and len(frag) > 4):
                    case.meta["impl_only"] = True
                    return lines[0] + "\nE"
                w = w[:3] + [v]
            out.append(" ".join(w))
        return "\n".join(out + ["E"])

    def oracle_master(self, case, impl):
        fails = M.machinery_failures(impl)
        tok = case.meta.get("probe_tok")
        if tok and not fails:
            res = [l.split() for l in impl if " res %s " % tok in l + " "]
            if not any(len(w) >= 4 and w[3] == "ok" for w in res):
                fails.append(("liveness-task", "a fresh read task after the hostile responses did not complete: %s"
                              % (" ".join(res[0]) if res else "no result")))
        return fails

    # ---- (v) acceptance liveness of the real TCP servers (engine accept, /verif/pairtest) -----------------------
    ACC_MASTER, ACC_OUT = 1, 1024
    # bad-peer kinds after which the master's link identification FAILS (fewer than 10 octets ever arrive)
    ACC_ID_FAILING = ("none", "short", "hdr9", "silent", "short-silent")

    def accept_good_op(self, role, seq, limit):
        """(op, what the oracle needs) of a well-formed peer"""
        if role == "outstation":
            req = dnp.link_frame(0xC4, self.ACC_OUT, self.ACC_MASTER,
                                 bytes([dnp.tp_header(True, True, seq), 0xC0 | (seq & 15), 0x01, 0x3C, 0x01, 0x06]))
            return ("good", hexs(req), 1, limit)
        # an outstation that opens the connection: RESET_LINK_STATES (PRM, function 0) identifies it; the master's link
        # layer acknowledges it and the association sends its first request (start-up integrity poll)
        return ("good", hexs(dnp.link_frame(0x40, self.ACC_MASTER, self.ACC_OUT)), 2, limit)

    def accept_bad_op(self, rng, role, kind, idto):
        me, peer = (self.ACC_MASTER, self.ACC_OUT) if role == "master" else (self.ACC_OUT, self.ACC_MASTER)
        ctrl = 0x44 if role == "master" else 0xC4             # unconfirmed user data towards the endpoint under test
        hdr = dnp.link_frame(ctrl, me, peer, fbytes(rng, rng.choice([1, 16, 17, 60, 250])))
        close = rng.choice(["fin", "fin", "rst"])
        # silent peers: gone before the identification timeout (the server sees EOF), just past it, long past it
        hold = rng.choice([max(20, idto // 2), idto + 150, idto + 150, 3 * idto])
        if kind == "none":
            return ("bad", kind, "-", 0, close)
        if kind == "short":
            k = rng.range(1, 9)
            b = hdr[:k] if rng.chance(1, 2) else rng.bytes(k)
            return ("bad", kind, hexs(b), 0, close)
        if kind == "hdr9":
            return ("bad", kind, hexs(hdr[:9]), 0, close)
        if kind == "silent":
            return ("bad", kind, "-", hold, close)
        if kind == "short-silent":
            return ("bad", kind, hexs(hdr[:rng.range(1, 9)]), hold, close)
        if kind == "garbage":
            n = rng.choice([10, 11, 30, 292, 1000])
            return ("bad", kind, hexs(fbytes(rng, n)), rng.choice([0, 0, 30]), close)
        if kind == "header":
            return ("bad", kind, hexs(hdr[:10]), rng.choice([0, 0, hold]), close)
        if kind == "midframe":
            return ("bad", kind, hexs(hdr[:rng.range(11, max(11, len(hdr) - 1))]), rng.choice([0, 0, 30]), close)
        if kind == "req-noread":
            # a well-formed request whose sender is gone before the answer can be written
            return ("bad", kind, self.accept_good_op(role, rng.below(16), 0)[1], 0, "rst")
        raise ValueError(kind)

    def accept_script(self, rng, sid, role, linkid, mt, id_failures, relation):
        idto = rng.choice([150, 200, 300])
        cfg = {"role": role, "linkid": linkid, "maxtasks": mt, "idto": idto, "discard": rng.below(2), "workers": rng.choice([2, 4])}
        counted = role == "master" and linkid == 1
        failing = list(self.ACC_ID_FAILING)
        others = ["garbage", "header", "midframe"] + (["req-noread"] if role == "outstation" else [])
        # a good peer waits for the silent peers in front of it to time out one slot after the other (max_tasks = 1:
        # one after the other); at most 3 silent peers are outstanding at any time
        limit = 5000
        ops, seq = [], rng.below(16)
        goods = bads = 0
        outstanding = 0

        def good():
            nonlocal seq, goods, outstanding
            ops.append(self.accept_good_op(role, seq, limit))
            seq = (seq + 1) & 15
            goods += 1
            outstanding = 0

        if rng.chance(1, 2):
            good()
        left = id_failures
        interleave = rng.choice([0, 0, 1]) if id_failures > 4 else rng.choice([0, 1])
        while left > 0:
            batch = min(left, rng.choice([1, 2, 3, 5, 16, left]))
            for _ in range(batch):
                kind = rng.choice(failing)
                if kind in ("silent", "short-silent") and outstanding >= 3:
                    kind = rng.choice(["none", "short", "hdr9"])
                if kind in ("silent", "short-silent"):
                    outstanding += 1
                ops.append(self.accept_bad_op(rng, role, kind, idto))
                bads += 1
                left -= 1
                if rng.chance(1, 3):
                    ops.append(self.accept_bad_op(rng, role, rng.choice(others), idto))
                    bads += 1
            if left > 0 and interleave and goods < 2:
                good()
            elif rng.chance(1, 3):
                ops.append(("wait", rng.choice([1, 20, idto + 50])))
        if rng.chance(1, 2):
            ops.append(("wait", rng.choice([0, 50, idto + 50])))
        good()
        good()
        kind = "%s-%s" % (role, ("linkid" if linkid else "plain") if role == "master" else "server")
        meta = {"engine": "accept", "kind": kind, "impl_only": True, "role": role, "max_tasks": mt if counted else None,
                "id_failures": id_failures if counted else None, "relation": relation if counted else None,
                "good_peers": goods, "bad_peers": bads,
                "why_impl_only": "no Coq model of the TCP accept loops: the oracle clause accept-wedged is checked directly on the trace"}
        return Case(sid, script_text(sid, "accept", cfg, ops), meta)

    def cases_accept(self, rng, tier):
        out = []
        plan = []
        # master server with link identification: failures below, at, above the slots and past twice the slots
        for mt in (1, 2, 16):
            for k, rel in ((mt - 1, "below"), (mt, "at"), (mt + 1, "above"), (2 * mt + 1, "above-twice")):
                if k > 0:
                    plan.append(("master", 1, mt, k, rel))
        plan += [("master", 0, 16, 3, "-"), ("master", 0, 16, 20, "-"),
                 ("outstation", 0, 16, 2, "-"), ("outstation", 0, 16, 9, "-"), ("outstation", 0, 16, 33, "-")]
        if tier != "quick":
            for _ in range(1500):
                role = rng.choice(["master", "master", "master", "outstation"])
                linkid = 1 if role == "master" and rng.chance(3, 4) else 0
                mt = rng.choice([1, 2, 3, 4, 16, 16])
                k = rng.choice([max(1, mt - 1), mt, mt + 1, 2 * mt, 2 * mt + 1, 3 * mt + 2, rng.range(1, 40)])
                plan.append((role, linkid, mt, k, "below" if k < mt else "at" if k == mt else "above"))
        for i, (role, linkid, mt, k, rel) in enumerate(plan):
            out.append(self.accept_script(rng, "c01_t_%d" % i, role, linkid, mt, k, rel))
        return out

    @staticmethod
    def accept_one_frame(hexframe):
        """(ctrl, dest, src, payload) when the octets are exactly one intact link frame (independent decoder of dnp.py)"""
        try:
            b = bytes.fromhex(hexframe)
        except ValueError:
            return None
        fs = dnp.frames_present(b)
        if len(fs) >= 1 and dnp.link_frame(*fs[0]) == b:
            return fs[0]
        return None

    def oracle_accept(self, case, impl):
        m = case.meta
        fails = []
        st = {"good": 0, "served": 0, "bad": 0}
        for l in impl:
            if l.startswith("panic"):
                fails.append(("no-panic", "a thread panicked while peers connected to the TCP server (%s): %s" % (m.get("kind"), l[:300])))
            elif l.startswith(("harness-died", "missing", "unknown-engine", "setup-error", "script-hard-timeout", "bad-op")):
                fails.append(("accept-harness", "pairtest (engine accept) did not run the script: " + l[:300]))
        ops = [l.split() for l in case.script.strip().split("\n")[1:-1]]
        outcome, cur = {}, None
        for l in impl:
            w = l.split()
            if w[:1] == ["op"] and len(w) == 2 and w[1].isdigit():
                cur = int(w[1])
            elif w[:1] in (["good"], ["bad"]) and cur is not None:
                outcome[cur] = w
        role = "outstation" if " role=outstation" in case.script.split("\n", 1)[0] else "master"
        done_bad = 0
        for n, op in enumerate(ops):
            if op[0] == "bad":
                st["bad"] += 1
                if outcome.get(n, [])[2:3] == ["sent"]:
                    done_bad += 1
                continue
            if op[0] != "good":
                continue
            st["good"] += 1
            got = outcome.get(n)
            before = "after %d hostile peers (%d of them never sent a complete link header%s)" % (
                sum(1 for o in ops[:n] if o[0] == "bad"), sum(1 for o in ops[:n] if o[0] == "bad" and o[1] in self.ACC_ID_FAILING),
                "; max_tasks = %s" % m.get("max_tasks") if m.get("max_tasks") else "")
            if fails and got is None:
                continue
            if got is None or got[1] != "served":
                fails.append(("accept-wedged", "%s: a well-formed peer (op %d) was NOT served %s: %s"
                              % (m.get("kind"), n, before, " ".join(got)[:200] if got else "no outcome line")))
                continue
            frames = [self.accept_one_frame(h) for h in got[2].split(",")] if len(got) >= 3 else []
            ok = False
            if any(f is None for f in frames):
                pass
            elif role == "master":
                acks = [f for f in frames if f[0] == 0x80 and f[1] == self.ACC_OUT and f[2] == self.ACC_MASTER and f[3] == b""]
                reqs = [f for f in frames if f[0] == 0xC4 and f[1] == self.ACC_OUT and f[2] == self.ACC_MASTER and len(f[3]) >= 3
                        and f[3][0] & 0xC0 == 0xC0 and f[3][1] & 0xF0 == 0xC0 and f[3][2] == 0x01]
                ok = len(frames) == 2 and len(acks) == 1 and len(reqs) == 1
            else:
                want = dnp.frames_present(bytes.fromhex(op[1]))
                seq = want[0][3][1] & 15 if want else -1          # application control octet of the request
                ok = (len(frames) == 1 and frames[0][0] == 0x44 and frames[0][1] == self.ACC_MASTER and frames[0][2] == self.ACC_OUT
                      and len(frames[0][3]) >= 5 and frames[0][3][0] & 0xC0 == 0xC0 and frames[0][3][1] & 0xDF == 0xC0 | seq
                      and frames[0][3][2] == 0x81)
            if ok:
                st["served"] += 1
            else:
                fails.append(("accept-reply", "%s: the well-formed peer (op %d) %s received something else than %s: %s"
                              % (m.get("kind"), n, before,
                                 "an ACK and the first READ of the association" if role == "master" else "the response to its READ (same sequence number)",
                                 got[2][:200] if len(got) >= 3 else "-")))
        st["bad_done"] = done_bad
        m["_accept_stats"] = st
        return fails[:6]

    def accept_totals(self, cases, impl):
        tot = {"scripts": 0, "good_peers": 0, "good_peers_served": 0, "hostile_peers": 0, "by_kind": {},
               "master_linkid_by_relation_to_max_tasks": {}}
        for c in cases:
            self.oracle_accept(c, impl.get(c.sid, ["missing"]))
            st = c.meta.pop("_accept_stats", {"good": 0, "served": 0, "bad": 0})
            tot["scripts"] += 1
            tot["good_peers"] += st["good"]
            tot["good_peers_served"] += st["served"]
            tot["hostile_peers"] += st["bad"]
            tot["by_kind"][c.meta.get("kind", "?")] = tot["by_kind"].get(c.meta.get("kind", "?"), 0) + 1
            if c.meta.get("relation"):
                key = "max_tasks=%s/%s" % (c.meta.get("max_tasks"), c.meta["relation"])
                tot["master_linkid_by_relation_to_max_tasks"][key] = tot["master_linkid_by_relation_to_max_tasks"].get(key, 0) + 1
        return tot

    def coverage_extra(self):
        a = dict(getattr(self, "accept_coverage", None) or {"scripts": 0, "note": "no accept script in this run"})
        a["what"] = ("family accept: real loopback TCP against the connection-accepting code (master TCP server with / without link "
                     "identification, outstation TCP server) through /verif/pairtest; implementation only (no model), oracle clauses "
                     "accept-wedged (every well-formed peer is served), accept-reply (with the right frames), no-panic")
        return {"accept_family": a}

    # ---- all together ---------------------------------------------------------------------------------------
    def cases(self, rng, tier):
        quick = tier == "quick"
        out = []
        out += self.cases_link(rng, 220 if quick else 7000)
        out += self.cases_outstation(rng, 320 if quick else 8000, huge=4 if quick else 120)
        out += self.cases_outstation_edges(rng)
        out += self.cases_app(rng, 100 if quick else 3000)
        out += self.cases_master(rng, 120 if quick else 3000)
        out += self.cases_accept(rng, tier)         # last: the random stream of the other families is unchanged
        return out

    def oracle(self, case, impl):
        eng = case.meta.get("engine")
        if eng in ("link", "treader", "layer"):
            return self.oracle_link(case, impl)
        if eng == "outstation":
            return self.oracle_outstation(case, impl)
        if eng == "master":
            return self.oracle_master(case, impl)
        if eng == "accept" or accept_engine(case):
            fails = self.oracle_accept(case, impl)
            case.meta.pop("_accept_stats", None)
            return fails
        fails = []
        for l in impl:
            if l.startswith("panic") or l.startswith("harness-died") or l == "missing":
                fails.append(("no-panic", "the codec panicked or the harness died: " + l[:200]))
        return fails


PROP = C01()
