"""C13 — Internal indication bits tell the truth.
Database-layer part: the counters behind the class bits and the overflow flag (engine `db`)."""
from propcheck import *
import dbcommon as D


class C13(Prop):
    id = "C13"
    # gen_session_tables: IIN masks and the conditions of get_response_iin (theorems C13_tables_*, Outstation/TablesAgree.v)
    translators = ["gen_variations", "gen_qualifiers", "gen_functions", "gen_session_tables"]
    proof_targets = ["Outstation/EventBufferProofs.vo", "Outstation/SessionC13Proofs.vo", "Outstation/FullProofs.vo",
                     "Outstation/TablesAgree.vo"]
    property_file = "Properties/C13.v"
    theorems = []
    own_clauses = ("C13", "ALL")
    modelled = ("modelled by hand: EventBuffer total/written counters, unwritten_classes, is_overflown, is_any_full "
                "(coq/Outstation/EventBuffer.v), as the code is after fix 485ed42")
    rule = ("db-engine op lists in which overflows strike written and unwritten events of the same or another class "
            "(capacities 1..3, unsolicited-style reset/select/write/confirm-or-not cycles and random histories), `iin` "
            "queried after every step; the oracle compares the class bits and the overflow flag with its ledger; "
            "non-trivial = some class bit was 1 while an event was awaiting confirmation, or an overflow happened")

    def cases(self, rng, tier):
        n = 400 if tier == "quick" else 6000
        return self.cases_db(rng, n)

    def cases_db(self, rng, n):
        out = []
        for i in range(n):
            sid = "c13_%d" % i
            kind = rng.choice(["unsol", "unsol", "events"])
            w = D.gen_unsol_script(rng, sid) if kind == "unsol" else D.gen_events_script(rng, sid, "iin")
            out.append(Case(sid, D.world_script(sid, w), {"kind": "db-" + kind}))
        return out

    def oracle(self, case, impl):
        if not case.script.split("\n", 1)[0].split()[2] == "db":
            return []
        lg = D.replay(case.script, impl)
        case.meta["stats"] = lg.stats
        return [(clause, text) for (p, clause, text) in lg.fails if p in self.own_clauses]

    def nontrivial(self, case, impl):
        st = case.meta.get("stats")
        if st is None:
            st = D.replay(case.script, impl).stats
        return st["overflows"] > 0 or st["written"] > 0

    def finding_signature(self, case, clause, desc):
        return "%s/%s" % (clause, case.meta.get("kind"))


import sessmix
PROP = sessmix.attach(C13(), sessmix.c13_cases, sessmix.c13_oracle, 160, 3000)
