"""C08 — The transport layer delivers exactly the fragments that were segmented."""
import os, subprocess
from propcheck import *
import dnp

LENS = [1, 2, 248, 249, 250, 497, 498, 499, 746, 747, 748, 995, 996, 997, 1245, 1494, 1743, 1992, 2047, 2048]
CAPS = [249, 250, 498, 1000, 2048]
ME = 1024       # the receiving outstation
MASTER = 1


def concretize(prop_id, abstract):
    build_model()
    work = os.path.join(WORK, prop_id)
    os.makedirs(work, exist_ok=True)
    ap = os.path.join(work, "abstract.txt")
    open(ap, "w").write("\n".join(abstract) + "\n")
    p = subprocess.run(["bash", "-c", "ulimit -s unlimited; exec %s --concretize %s" % (os.path.join(OCAML, "driver"), ap)],
                       stdout=subprocess.PIPE, stderr=subprocess.PIPE, text=True)
    if p.returncode != 0:
        raise BuildError("concretize failed: " + p.stderr[-1000:])
    out, cur = {}, []
    for line in p.stdout.splitlines():
        cur.append(line)
        if line == "E":
            out[cur[0].split()[1]] = "\n".join(cur)
            cur = []
    return out


class C08(Prop):
    id = "C08"
    translators = ["gen_link"]
    proof_targets = ["Transport/TransportProofs.vo"]
    property_file = "Properties/C08.v"
    modelled = ("modelled by hand: transport/real/{assembler,reader,writer,header,sequence}.rs, link/layer.rs "
                "(Transport/*.v, Link/Layer.v); regenerated: FIN/FIR masks, sequence modulus, link constants")
    rule = ("fragments of every interesting length written through the real transport writer and compared with an "
            "independent segmenter; segment streams (valid, and mutated by drop/duplicate/reorder/re-address/"
            "interleave/oversize) fed through the real link+transport reader in arbitrary read sizes; non-trivial = "
            "a fragment was delivered or the assembler discarded state; distinct = distinct (config, trace)")

    def seg_frames(self, segs, src, dest=ME, ctrl=0xC4):
        return [dnp.link_frame(ctrl, dest, src, bytes([t]) + c) for t, c in segs]

    def cases(self, rng, tier):
        n = 300 if tier == "quick" else 4000
        cases = []
        abstract = []
        metas = {}
        lens = list(LENS)
        if tier == "thorough":
            lens = list(range(1, 2049))
        for i in range(n):
            sid = "c08_%d" % i
            kind = rng.choice(["write", "write", "read", "read", "mutate", "mutate", "mutate", "two-senders"])
            if kind == "write":
                # Writer::write against the independent segmenter, for a run of fragments (sequence continues)
                k = rng.range(1, 4)
                pre = rng.choice([0, 0, 61, 62, 63])   # bring the sequence near the wrap first
                frags = [rng.bytes(1) for _ in range(pre)] + [rng.bytes(rng.choice(lens) if rng.chance(2, 3) else rng.range(1, 2048)) for _ in range(k)]
                dest = rng.choice([1, 2, 1024, 65519])
                ops = [("write", dest, hexs(f)) for f in frags]
                expect = []
                seq = 0
                for f in frags:
                    segs = dnp.segments(f, seq)
                    seq = (seq + len(segs)) & 0x3F
                    expect += ["tx " + hexs(fr) for fr in self.seg_frames(segs, src=7, dest=dest, ctrl=0xC4)]
                meta = {"kind": kind, "expect_tx": expect}
                cases.append(Case(sid, script_text(sid, "twriter", {"role": "master", "addr": 7}, ops), meta))
                continue
            cap = rng.choice(CAPS)
            mode = rng.choice(["close", "discard"])
            src = rng.choice([MASTER, 2, 60000])
            seq0 = rng.choice([0, 1, 62, 63, rng.below(64)])
            L = rng.choice([l for l in lens if l <= cap] or [cap]) if rng.chance(3, 4) else rng.range(1, cap)
            frag = rng.bytes(L)
            segs = [(t, c, src) for t, c in dnp.segments(frag, seq0)]
            good2 = rng.bytes(rng.range(1, min(cap, 600)))
            segs2 = [(t, c, src) for t, c in dnp.segments(good2, (seq0 + len(segs) + rng.below(3)) & 0x3F)]
            stream = list(segs)
            expect_first = True
            mutation = None
            if kind == "mutate":
                mutation = rng.choice(["drop", "dup", "swap", "readdress", "nofir", "oversize", "seqskip", "overflow-repeat", "overflow-repeat"])
                if mutation == "overflow-repeat":
                    # segments that fill the buffer, one that overflows it, then a short segment REPEATING that
                    # sequence number with FIN: nothing may be delivered from them
                    nfull = cap // 249
                    first = [(dnp.tp_header(False, k == 0, (seq0 + k) & 63), rng.bytes(249), src) for k in range(nfull)]
                    room = cap - 249 * nfull
                    over = (dnp.tp_header(False, nfull == 0, (seq0 + nfull) & 63), rng.bytes(min(249, room + rng.range(1, 50))), src)
                    if len(over[1]) <= room:
                        over = (over[0], rng.bytes(min(249, room + 1)), src)
                    fit = rng.range(1, room) if room >= 1 else 0
                    stream = first + [over]
                    if fit >= 1 and len(over[1]) > room and nfull >= 1:
                        stream.append((dnp.tp_header(True, False, (seq0 + nfull) & 63), rng.bytes(fit), src))
                    expect_first = False
                if mutation == "oversize":
                    big = rng.bytes(cap + rng.range(1, 249))
                    stream = [(t, c, src) for t, c in dnp.segments(big, seq0)]
                    expect_first = False
                elif len(stream) == 1 and mutation in ("drop", "swap", "seqskip", "readdress"):
                    mutation = "nofir"
                if mutation == "drop":
                    j = rng.below(len(stream)); del stream[j]; expect_first = False
                elif mutation == "dup":
                    j = rng.below(len(stream)); stream.insert(j, stream[j])
                    expect_first = (len(segs) == 1)   # a repeated FIR+FIN segment is simply delivered twice
                elif mutation == "swap":
                    j = rng.below(len(stream) - 1); stream[j], stream[j + 1] = stream[j + 1], stream[j]; expect_first = False
                elif mutation == "readdress":
                    j = rng.range(1, len(stream) - 1); t, c, _ = stream[j]; stream[j] = (t, c, src + 1); expect_first = False
                elif mutation == "nofir":
                    t, c, s_ = stream[0]; stream[0] = (t & ~0x40 & 0xFF, c, s_); expect_first = False
                elif mutation == "seqskip":
                    j = rng.range(1, len(stream) - 1); t, c, s_ = stream[j]
                    stream[j] = ((t & 0xC0) | ((t + 1) & 0x3F), c, s_); expect_first = False
            elif kind == "two-senders":
                other = [(t, c, src + 5) for t, c in dnp.segments(rng.bytes(rng.range(250, min(cap, 600)) if cap > 250 else 10), rng.below(64))]
                # interleave: the other sender's segments cut into ours
                j = rng.range(0, len(stream))
                stream = stream[:j] + other[:1] + stream[j:]
                expect_first = (j == len(stream) - 1 - 0) and False
                expect_first = False if j < len(segs) and j > 0 else True
                if j == 0 and len(other) > 1:
                    expect_first = True   # our FIR discards the other's partial fragment
                mutation = "interleave@%d" % j
            stream += segs2
            data = b"".join(dnp.link_frame(0xC4, ME, s_, bytes([t]) + c) for t, c, s_ in stream)
            sizes = [rng.range(1, 400) for _ in range(rng.range(0, 10))]
            metas[sid] = {"kind": kind, "mutation": mutation, "cap": cap, "src": src,
                          "segments": [[t, hexs(c), s_] for t, c, s_ in stream],
                          "first": hexs(frag) if (expect_first and L <= cap) else None, "second": hexs(good2)}
            abstract.append(script_text(sid, "treader", {"mode": mode, "read": "stream", "frag": cap, "role": "outstation",
                                                           "addr": ME, "decode": rng.below(4)},
                                        [tuple(["stream", hexs(data)] + sizes)]))
        conc = concretize(self.id, abstract) if abstract else {}
        for sid, text in conc.items():
            cases.append(Case(sid, text, metas[sid]))
        cases += self.cases_udp(rng, 40 if tier == "quick" else 1500)
        return cases

    def cases_udp(self, rng, n):
        """datagram transports (UDP, unconnected socket): every datagram has a sender address (hook H7 lets the mock
        physical layer report it).  A fragment is assembled only from segments of ONE link source AND one sender
        address; a series that fits these is delivered also when several of its frames share a datagram, and the
        fragment is attributed to that sender.  Implementation only: the sender address is not part of the Coq model."""
        out = []
        for i in range(n):
            sid = "c08_u_%d" % i
            src = rng.choice([MASTER, 2, 60000])
            pa, pb = 20000 + rng.below(100), 30000 + rng.below(100)
            seq = rng.below(64)
            cap = rng.choice([249, 2048])
            kind = rng.choice(["one-per-dgram", "two-segs-one-dgram", "two-frags-one-dgram", "splice-ports", "splice-ports", "other-port-between"])
            feeds, expect = [], []
            def fr(t, c, s_=src): return dnp.link_frame(0xC4, ME, s_, bytes([t]) + c)
            a = rng.bytes(rng.choice([10, 100, 140]))
            b = rng.bytes(rng.choice([1, 10, 120]))
            if cap == 249:
                a, b = a[:100], b[:100]      # two frames must fit one datagram of at most 293 octets
            two = [(0x40 | seq, a), (0x80 | ((seq + 1) & 63), b)]
            if kind == "one-per-dgram":
                feeds = [(fr(*two[0]), pa), (fr(*two[1]), pa)]; expect = [(src, a + b, pa)]
            elif kind == "two-segs-one-dgram":
                feeds = [(fr(*two[0]) + fr(*two[1]), pa)]; expect = [(src, a + b, pa)]
            elif kind == "two-frags-one-dgram":
                feeds = [(fr(0xC0 | seq, a) + fr(0xC0 | ((seq + 1) & 63), b), pa)]; expect = [(src, a, pa), (src, b, pa)]
            elif kind == "splice-ports":
                feeds = [(fr(*two[0]), pa), (fr(*two[1]), pb)]; expect = []
            else:
                c = rng.bytes(5)
                feeds = [(fr(*two[0]), pa), (fr(0xC0 | rng.below(64), c), pb), (fr(*two[1]), pa)]
                expect = [(src, c, pb)]            # the other sender's complete fragment; ours was interrupted
            tail = rng.bytes(rng.range(1, 30))
            feeds.append((fr(0xC0 | rng.below(64), tail), pa)); expect.append((src, tail, pa))
            ops = [("feed", hexs(f), "@%d" % p) for f, p in feeds]
            out.append(Case(sid, script_text(sid, "treader", {"mode": "discard", "read": "datagram", "frag": cap, "role": "outstation",
                                                               "addr": ME, "phys": 1, "decode": rng.below(4)}, ops),
                            {"kind": "udp", "mutation": kind, "impl_only": True,
                             "expect_udp": [[s_, hexs(d), p] for s_, d, p in expect]}))
        return out

    def model_script(self, case, impl):
        if case.meta.get("impl_only"):
            return case.script.split("\n", 1)[0] + "\nE"
        return case.script

    def oracle(self, case, impl):
        m = case.meta
        fails = []
        for l in impl:
            if l.startswith("panic") or l.startswith("harness-died") or l == "missing":
                fails.append(("no-panic", "transport layer panicked or stalled: " + l[:200]))
        if m.get("kind") == "write":
            got = [l for l in impl if l.startswith("tx ")]
            if got != m["expect_tx"]:
                fails.append(("write-segments", "frames written differ from the independent segmenter (%d vs %d frames)" % (len(got), len(m["expect_tx"]))))
            return fails
        if m.get("kind") == "udp":
            got = []
            for l in impl:
                f = l.split()
                if f[0] == "frag" and len(f) >= 6:
                    got.append([int(f[2]), f[4], int(f[5][1:]) if f[5][1:].isdigit() else None])
            if got != m["expect_udp"]:
                fails.append(("udp-sender", "datagram transport (%s): delivered (source, octets, sender port) %s, expected %s"
                              % (m["mutation"], [(g[0], g[1][:12], g[2]) for g in got], [(e[0], e[1][:12], e[2]) for e in m["expect_udp"]])))
            return fails
        if "segments" not in m:
            return fails
        segs = [(t, bytes.fromhex(c) if c != "-" else b"", s_) for t, c, s_ in m["segments"]]
        frags = [l.split() for l in impl if l.startswith("frag ")]
        # every delivered fragment is a contiguous run: FIR first, consecutive sequence numbers, same source,
        # FIN last only, total <= cap
        def is_run(data, src):
            for i in range(len(segs)):
                if not (segs[i][0] & 0x40) or segs[i][2] != src:
                    continue
                acc = b""
                for j in range(i, len(segs)):
                    t, c, s_ = segs[j]
                    if s_ != src: break
                    if j > i and ((t & 0x40) or (t & 0x3F) != ((segs[j - 1][0] & 0x3F) + 1) & 0x3F): break
                    acc += c
                    if len(acc) > m["cap"]: break
                    if t & 0x80:
                        if acc == data: return True
                        break
            return False
        ids = []
        for f in frags:
            data = bytes.fromhex(f[4]) if f[4] != "-" else b""
            ids.append(int(f[1]))
            if not is_run(data, int(f[2])):
                fails.append(("delivered-not-a-run", "delivered a fragment that is not a contiguous FIR..FIN run of the segments fed: %d bytes from %s" % (len(data), f[2])))
        if ids != list(range(len(ids))):
            fails.append(("frame-id", "fragment ids are not 0,1,2,...: %s" % ids[:8]))
        datas = [f[4] for f in frags]
        if "overflow" not in impl and not any(l.startswith("err") for l in impl):
            if m["first"] is not None and m["first"] not in datas:
                fails.append(("fragment-lost", "the intact first fragment (%d hex chars) was not delivered" % len(m["first"])))
            if m["second"] not in datas:
                fails.append(("next-fragment-lost", "the well-formed fragment after a damaged stream was not delivered (mutation %s)" % m.get("mutation")))
        return fails

    def nontrivial(self, case, impl):
        return any(l.startswith("frag ") or l.startswith("tx ") for l in impl)

    def finding_signature(self, case, clause, desc):
        return "%s/%s/%s" % (clause, case.meta.get("kind"), case.meta.get("mutation"))


PROP = C08()
