"""C14 — Unsolicited reporting obeys the start-up, enable, retry and deferral rules."""
from ost import *


class C14(OutstationProp):
    id = "C14"
    proof_targets = ["Outstation/SessionC14Proofs.vo", "Outstation/FullCorollaries.vo"]
    property_file = "Properties/C14.v"
    rule = ("unsolicited-enabled sessions: updates, ENABLE/DISABLE_UNSOLICITED, right / wrong / missing unsolicited "
            "confirms, solicited requests of every kind during the wait, clock advances around the confirm timeout and "
            "the retry delay, retry limits none/0/1/2; non-trivial = a fragment was transmitted")

    def cases(self, rng, tier):
        n = 500 if tier == "quick" else 5000
        out = []
        for i in range(n):
            cfg = self.base_cfg(rng, unsol=1)
            cfg["confirm_ms"] = rng.choice([1000, 2000])
            cfg["retry_delay_ms"] = rng.choice([500, 3000])
            ops = [("add", "binary", 0, 1), ("add", "analog", 1, 2), ("add", "counter", 2, 3)]
            useq = 0
            seq = rng.below(16)
            confirmed_null = False
            tstamp = 100
            for _ in range(rng.range(4, 16)):
                r = rng.below(100)
                if r < 22:
                    # confirm the outstanding unsolicited response: the generator tracks the likely sequence
                    q = useq if rng.chance(3, 4) else rng.below(16)
                    ops.append(("rx", MASTER, "none", hexs(frag(q, FN["confirm"], uns=True))))
                elif r < 34:
                    ops.append(("rx", MASTER, "none", hexs(frag(seq, FN["enable"], read_classes(rng.choice([(1,), (1, 2, 3), (2,), (3,)]))))))
                    seq = (seq + 1) & 15
                elif r < 40:
                    ops.append(("rx", MASTER, "none", hexs(frag(seq, FN["disable"], read_classes(rng.choice([(1, 2, 3), (1,), (2, 3)]))))))
                    seq = (seq + 1) & 15
                elif r < 58:
                    typ, idx = rng.choice([("binary", 0), ("analog", 1), ("counter", 2)])
                    tstamp += rng.below(100)
                    ops.append(("update", typ, idx, str(rng.below(2)) if typ == "binary" else str(rng.below(1000)), 1, tstamp))
                elif r < 72:
                    ops.append(("sleep", rng.choice([1, 499, 500, 501, 999, 1000, 1001, 1999, 2000, 2001, 2999, 3000, 3001, 7000])))
                elif r < 82:
                    ops.append(("rx", MASTER, "none", hexs(frag(seq, FN["read"], read_classes(rng.choice([(1, 2, 3), (0,), (1, 2, 3, 0)]))))))
                    if rng.chance(1, 2):
                        ops.append(("rx", MASTER, "none", hexs(frag(seq, FN["confirm"]))))
                    seq = (seq + 1) & 15
                elif r < 90:
                    ops.append(("rx", MASTER, "none", hexs(frag(seq, rng.choice([FN["delay"], FN["record"], FN["write"]]), b"" if rng.chance(1, 2) else write_iin(7, 0)))))
                    seq = (seq + 1) & 15
                elif r < 94:
                    ops.append(("disconnect",))
                else:
                    ops.append(("rx", MASTER, "none", hexs(frag(seq, FN["confirm"]))))
                useq = (useq + (1 if r < 22 else 0)) & 15
            sid = "c14_u_%d" % i
            out.append(Case(sid, script_text(sid, "outstation", cfg, ops), {"kind": "unsolicited", "cfg": cfg}))
        return out

    def oracle(self, case, impl):
        fails = self.common_fail(impl)
        cfg = case.meta.get("cfg", {})
        retry_delay = int(cfg.get("retry_delay_ms", 5000))
        retries = cfg.get("retries", "none")
        steps = split_steps(impl)
        null_confirmed = False
        enabled = set()
        outstanding = None          # bytes of the unsolicited response awaiting confirm
        resends = 0
        last_failed_at = None
        last_null_seq = None
        pending_enable = None
        cancelled = None            # the unsolicited response a DISABLE_UNSOLICITED cancelled
        sent_at = None              # when the outstanding unsolicited response was (re)transmitted
        late_reported = False
        confirm_ms = int(cfg.get("confirm_ms", 5000))
        reads = {}                  # sequence number -> the READ request received last with it
        for op, t, lines in steps:
            if op[0] == "rx" and op[2] == "none" and (int(op[1]) == MASTER or int(cfg.get("anymaster", 0)) == 1):
                rb = bytes.fromhex(op[3]) if op[3] != "-" else b""
                if len(rb) >= 2 and rb[1] == 1 and any(" > digest " in l and "obj=ok" in l and "rv=ok" in l for l in lines):
                    reads[rb[0] & 15] = rb
            # a READ deferred during the confirm wait is answered for what IT asked, not for what a READ it
            # superseded asked (seeded changes C11_c / C14_c: DeferredRead::set without clear)
            for (_, _, x) in txs(lines):
                if len(x) >= 4 and x[1] == 129 and (x[0] & 0x80) and (x[0] & 15) in reads:
                    allowed = read_allowed_groups(reads[x[0] & 15])
                    got = response_groups(x)
                    if allowed is not None and got is not None and not got <= allowed:
                        fails.append(("read-answered-with-unselected-objects", "the response to READ %s carries objects of groups %s that this READ did not select"
                                      % (reads[x[0] & 15].hex(), sorted(got - allowed))))
            if op[0] == "rx":
                b = bytes.fromhex(op[3]) if op[3] != "-" else b""
                accepted = op[2] == "none" and int(op[1]) == MASTER or (op[2] != "none" and int(cfg.get("broadcast", 1)) == 1)
                # ENABLE / DISABLE processed (also by broadcast): class headers g60v2..4
                if len(b) >= 2 and b[1] in (20, 21) and (int(op[1]) == MASTER or int(cfg.get("anymaster", 0)) == 1) and any(" > digest " in l and "obj=ok" in l and "rv=ok" in l for l in lines):
                    k = 2
                    while k + 2 < len(b) + 1 and k + 3 <= len(b):
                        if b[k] == 0x3C and b[k + 2] == 0x06 and b[k + 1] in (2, 3, 4):
                            c = b[k + 1] - 1
                            (enabled.add if b[1] == 20 else enabled.discard)(c)
                        k += 3
            disable_step = False
            if op[0] == "rx":
                b0 = bytes.fromhex(op[3]) if op[3] != "-" else b""
                disable_step = len(b0) >= 2 and b0[1] == 21 and op[2] == "none" and (int(op[1]) == MASTER or int(cfg.get("anymaster", 0)) == 1)
            for l in lines:
                tk = l.split()
                if len(tk) >= 5 and tk[1] == "info" and tk[2] == "broadcast" and tk[3] == "21" and tk[4] == "processed" and outstanding is not None:
                    # DISABLE_UNSOLICITED processed by broadcast: cancels the pending series like the unicast one (F30)
                    if len(outstanding) > 4:
                        last_failed_at = int(tk[0])
                        cancelled = outstanding
                    outstanding = None
                if len(tk) >= 2 and tk[1].startswith("session-end"):
                    outstanding = None
                    null_confirmed = null_confirmed   # the start-up rule applies per outstation start, not per connection
                if len(tk) < 3:
                    continue
                tt = int(tk[0])
                # the confirm timeout of an unsolicited response runs from its (re)transmission and is not pushed back by
                # whatever else arrives during the wait (seeded change R8_z: the deadline was re-armed on every fragment)
                if outstanding is not None and sent_at is not None and tt > sent_at + confirm_ms + 2 and not late_reported:
                    fails.append(("unsol-timeout-late", "an unsolicited response transmitted at %d ms was still awaiting its confirm at %d ms, "
                                  "confirm timeout %d ms (no timeout, no retry)" % (sent_at, tt, confirm_ms)))
                    late_reported = True
                if tk[1] == "tx":
                    x = bytes.fromhex(tk[3])
                    if len(x) >= 4 and x[1] == 129 and disable_step and outstanding is not None:
                        # the answer to DISABLE_UNSOLICITED: the pending series is cancelled
                        if len(outstanding) > 4:
                            last_failed_at = tt
                            cancelled = outstanding
                        outstanding = None
                    if len(x) >= 4 and x[1] == 130 and cancelled is not None and x == cancelled:
                        fails.append(("resend-after-disable", "an unsolicited response cancelled by DISABLE_UNSOLICITED was re-sent unchanged afterwards"))
                        cancelled = None
                    if len(x) >= 4 and x[1] == 130:
                        data = len(x) > 4
                        if outstanding is not None and x != outstanding:
                            fails.append(("two-outstanding", "a new unsolicited response was sent while another awaits confirmation"))
                        if outstanding is not None and x == outstanding:
                            resends += 1
                            if data and retries != "none" and resends > int(retries):
                                fails.append(("too-many-retries", "unsolicited response re-sent %d times, limit %s" % (resends, retries)))
                            if not data:
                                fails.append(("null-retried-unchanged", "an empty unsolicited response was re-sent with the same sequence number"))
                        if outstanding is None:
                            resends = 0
                            if data and not null_confirmed:
                                fails.append(("data-before-null-confirmed", "event data sent unsolicited before an empty unsolicited response was confirmed"))
                            if data and not enabled:
                                fails.append(("data-while-disabled", "event data sent unsolicited although no class is enabled"))
                            if data and last_failed_at is not None and tt - last_failed_at < retry_delay:
                                fails.append(("retry-delay", "a new unsolicited series started %d ms after a failed one, retry delay %d ms" % (tt - last_failed_at, retry_delay)))
                            if not data:
                                s = x[0] & 15
                                if last_null_seq is not None and s == last_null_seq:
                                    fails.append(("null-sequence-reused", "empty unsolicited responses must carry fresh sequence numbers"))
                                last_null_seq = s
                        outstanding = x
                        sent_at = tt
                elif tk[1] == "info":
                    if tk[2] == "unsol_confirmed":
                        if outstanding is not None and len(outstanding) == 4:
                            null_confirmed = True
                        elif outstanding is not None:
                            last_failed_at = None
                        outstanding = None
                    elif tk[2] == "unsol_timeout" and tk[4] == "0":
                        if outstanding is not None and len(outstanding) > 4:
                            last_failed_at = tt
                        outstanding = None
                elif tk[1].startswith("session-end"):
                    outstanding = None
        return fails

    def finding_signature(self, case, clause, desc):
        return clause


PROP = C14()
