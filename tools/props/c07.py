"""C07 — Endpoints act only on traffic addressed to them; broadcasts are never answered.
Link-layer half (engine `layer`, real link::layer::Layer over the real reader); the session-level
half (engine `outstation`) is appended by cases_session()."""
from propcheck import *
import dnp
import ost

DESTS = {"own": None, "other": 77, "self": 0xFFFC, "bc_opt": 0xFFFF, "bc_mand": 0xFFFE, "bc_none": 0xFFFD,
         "reserved": 0xFFF5}
SRCS = {"peer": 9, "self_addr": 0xFFFC, "bcast": 0xFFFF, "reserved": 0xFFF1, "own": None}
RESET = 0x40
FUNCS = {0x40: "reset", 0x42: "test", 0x43: "confirmed", 0x44: "unconfirmed", 0x49: "lsreq",
         0x00: "ack", 0x01: "nack", 0x0B: "lsresp", 0x0F: "notsupp"}


class C07(ost.OutstationProp):
    id = "C07"
    translators = ["gen_link"]
    proof_targets = ["Link/LayerProofs.vo", "Outstation/SessionC12Proofs.vo"]
    property_file = "Properties/C07.v"
    modelled = ("modelled by hand: link/layer.rs process_header and replies (Link/Layer.v); "
                "regenerated: control masks, function codes, special addresses")
    rule = ("one frame under test (control byte x destination class x source class x role x self-address feature, "
            "exhaustive in the thorough tier) after a preamble that puts the secondary station in a chosen state; "
            "plus confirmed-data sequences with frame-count-bit toggling; non-trivial = the endpoint acted (reply or "
            "frame passed up); distinct = distinct (config, trace)")

    def model_script(self, case, impl):
        if case.meta.get("engine") == "outstation":
            return ost.OutstationProp.model_script(self, case, impl)
        return case.script

    def canon(self, lines, side):
        if lines and (lines[0].split()[:1] or ["x"])[0].isdigit():
            return ost.OutstationProp.canon(self, lines, side)
        return lines

    def cases_session_c07(self, rng, n):
        """session half: fragments of every kind from a foreign master and by broadcast, in idle and in both
        confirm waits (engine `outstation`, hook H6 stamps the source and broadcast mode per fragment)"""
        out = []
        F = ost.FN
        for i in range(n):
            cfg = self.base_cfg(rng)
            cfg["soltx"] = 249
            ops = []
            big = rng.chance(1, 2)
            for k in range(120 if big else 2):
                ops.append(("add", "analog", k, rng.choice([0, 1]) if not big else 0))
            ops.append(("update", "analog", 1, "5", 1, 100))
            seq = rng.below(16)
            victims = [ost.frag(seq, F["read"], ost.read_classes((1, 2, 3, 0))), ost.frag(seq, F["write"], ost.write_iin(7, 0)),
                       ost.frag(seq, F["direct"], self.rand_controls(rng)), ost.frag(seq, F["direct_nr"], self.rand_controls(rng)),
                       ost.frag(seq, F["select"], self.rand_controls(rng)), ost.frag(seq, F["delay"]), ost.frag(seq, F["record"]),
                       ost.frag(seq, F["enable"], ost.read_classes((1, 2, 3))), ost.frag(seq, F["disable"], ost.read_classes((1,))),
                       ost.frag(seq, F["cold"]), ost.frag(seq, F["freeze_nr"], bytes([0x14, 0, 6])),
                       bytes([ost.ctl(seq), 0x70]), bytes([ost.ctl(seq, fin=False), 1]), bytes([ost.ctl(seq)]), ost.frag(seq, F["read"], bytes([1])),
                       ost.frag(seq, F["confirm"]), ost.frag((seq + 1) & 15, F["confirm"]), ost.frag(rng.below(16), F["confirm"], uns=True),
                       ost.frag(seq, 129, bytes([0, 0]))]
            # optionally open a solicited series first so that the victim arrives in the confirm wait
            state = rng.choice(["idle", "solwait", "solwait", "any"])
            if state != "idle":
                ops.append(("rx", ost.MASTER, "none", hexs(ost.frag(seq, F["read"], ost.read_classes((1, 2, 3, 0))))))
            for _ in range(rng.range(1, 4)):
                v = rng.choice(victims)
                who = rng.choice(["foreign", "bcast", "bcast", "master", "foreign-bcast", "foreign-bcast"])
                frm = ost.FOREIGN if who.startswith("foreign") else ost.MASTER
                bc = rng.choice(["opt", "mand", "notreq"]) if who.endswith("bcast") else "none"
                ops.append(("rx", frm, bc, hexs(v)))
                if rng.chance(1, 3):
                    ops.append(("rx", ost.MASTER, "none", hexs(ost.frag(seq, F["confirm"]))))
                    seq = (seq + 1) & 15
                if rng.chance(1, 5):
                    ops.append(("sleep", rng.choice([1, 1000, 5000])))
            sid = "c07_s_%d" % i
            out.append(Case(sid, script_text(sid, "outstation", cfg, ops), {"kind": "session", "engine": "outstation", "cfg": cfg}))
        return out

    def oracle_session(self, case, impl):
        fails = self.common_fail(impl)
        cfg = case.meta.get("cfg", {})
        any_master = int(cfg.get("anymaster", 0)) == 1
        for op, t, lines in ost.split_steps(impl):
            if op[0] != "rx":
                continue
            frm, bc = int(op[1]), op[2]
            acted = [l for l in lines if len(l.split()) > 1 and l.split()[1] in ("tx", "cb", "info", "db")]
            if frm != ost.MASTER and not any_master:
                if acted:
                    fails.append(("acted-for-foreign-master", "the outstation acted on a fragment from master %d (configured %d): %s"
                                  % (frm, ost.MASTER, acted[0][:80])))
            if bc != "none":
                sol = [b for (_, _, b) in ost.txs(lines) if len(b) >= 2 and b[1] == 129]
                if sol:
                    fails.append(("reply-to-broadcast", "a solicited response was transmitted in reaction to a broadcast fragment %s: %s"
                                  % (op[3][:12], sol[0].hex()[:24])))
        return fails

    def frame(self, ctrl, dest, src, payload=b""):
        return dnp.link_frame(ctrl, dest, src, payload)

    def one(self, sid, role, selfaddr, own, ctrl, dname, sname, pre, payload):
        dest = own if DESTS[dname] is None else DESTS[dname]
        src = own if SRCS[sname] is None else SRCS[sname]
        peer_dir = 0x00 if role == "master" else 0x80      # direction bit of the opposite station type
        feeds = []
        # preamble from a valid peer: none / reset link states / reset + one confirmed data frame (fcb=1)
        if pre >= 1:
            feeds.append(self.frame(peer_dir | RESET, own, 9))
        if pre >= 2:
            feeds.append(self.frame(peer_dir | 0x43 | 0x10 | 0x20, own, 9, b"\xC0\x01"))
        feeds.append(self.frame(ctrl, dest, src, payload))
        meta = {"kind": "header", "role": role, "self": selfaddr, "own": own, "ctrl": ctrl, "dest": dname, "src": sname,
                "pre": pre, "payload": hexs(payload), "srcval": src}
        return Case(sid, script_text(sid, "layer", {"mode": "close", "read": "stream", "frag": 249, "role": role,
                                                      "self": selfaddr, "addr": own},
                                     [("feed", hexs(f)) for f in feeds]), meta)

    def cases(self, rng, tier):
        out = self.cases_session_c07(rng, 150 if tier == "quick" else 3000)
        i = 0
        if tier == "thorough":
            for role in ("master", "outstation"):
                for selfaddr in (0, 1):
                    for ctrl in range(256):
                        for dname in DESTS:
                            for sname in SRCS:
                                pre = (ctrl + len(dname) + len(sname)) % 3
                                out.append(self.one("c07_%d" % i, role, selfaddr, 1024, ctrl, dname, sname, pre, b"\xC0\x01" if ctrl & 1 else b""))
                                i += 1
        else:
            for _ in range(500):
                role = rng.choice(["master", "outstation"])
                ctrl = rng.choice([0x40, 0x42, 0x43, 0x44, 0x49, 0x0B, 0x00]) | rng.choice([0, 0x80]) | rng.choice([0, 0x10]) | rng.choice([0, 0x20]) if rng.chance(3, 4) else rng.below(256)
                out.append(self.one("c07_%d" % i, role, rng.below(2), rng.choice([1, 1024, 65519]), ctrl,
                                    rng.choice(list(DESTS) if rng.chance(1, 2) else ["own", "own", "self", "bc_opt", "bc_mand", "bc_none"]),
                                    rng.choice(list(SRCS) if rng.chance(1, 4) else ["peer"]),
                                    rng.below(3), rng.bytes(rng.below(20))))
                i += 1
        if tier != "thorough":
            # deterministic part of the quick tier: every function that makes the link layer REPLY (reset, link status
            # request, confirmed user data, test) x addressed to the own / the self address x self-address feature on/off
            # x both roles, from the right direction (seeded change R6_s was caught by chance only)
            for role in ("master", "outstation"):
                d = 0x80 if role == "outstation" else 0x00
                for selfaddr in (0, 1):
                    for base in (0x40, 0x49, 0x42, 0x43, 0x53, 0x73, 0x44):
                        for dname in ("own", "self"):
                            out.append(self.one("c07_%d" % i, role, selfaddr, 1024, d | base, dname, "peer", (i % 3), b"\xC0\x01" if base & 1 else b""))
                            i += 1
        # confirmed user data sequences: delivered at most once per frame-count-bit toggle after a reset
        for _ in range(60 if tier == "quick" else 600):
            role = rng.choice(["master", "outstation"])
            own = 1024
            peer_dir = 0x00 if role == "master" else 0x80
            feeds = []
            truth = []
            for _k in range(rng.range(2, 10)):
                a = rng.below(5)
                if a == 0:
                    feeds.append(self.frame(peer_dir | RESET, own, 9)); truth.append(("reset",))
                else:
                    fcb = rng.below(2)
                    dest = own if rng.chance(4, 5) or role == "master" else 0xFFFF
                    pl = rng.bytes(rng.range(1, 5))
                    feeds.append(self.frame(peer_dir | 0x43 | 0x10 | (0x20 if fcb else 0), dest, 9, pl))
                    truth.append(("conf", fcb, hexs(pl), dest != own))
            sid = "c07_%d" % i; i += 1
            out.append(Case(sid, script_text(sid, "layer", {"mode": "close", "read": "stream", "frag": 249, "role": role,
                                                              "self": 0, "addr": own},
                                             [("feed", hexs(f)) for f in feeds]),
                            {"kind": "fcb", "role": role, "truth": [list(t) for t in truth], "own": own}))
        # fragments must not be assembled from segments of different senders: a foreign station's FIR segment
        # followed by the configured peer's segments with the next transport sequence numbers (engine treader;
        # seeded change C07_c: the same-sender test of the assembler never true over TCP/serial)
        for _ in range(40 if tier == "quick" else 600):
            own, peer, foreign = 1024, 1, rng.choice([2, 7, 60000])
            seq = rng.below(64)
            a = rng.bytes(rng.choice([1, 10, 249]))
            b = rng.bytes(rng.choice([1, 10, 249, 100]))
            c = rng.bytes(rng.range(1, 30))
            order = rng.choice(["foreign-first", "foreign-first", "foreign-middle", "foreign-last"])
            segs = []
            if order == "foreign-first":
                segs = [(0x40 | seq, a, foreign), (0x80 | ((seq + 1) & 63), b, peer)]
            elif order == "foreign-middle":
                segs = [(0x40 | seq, a, peer), ((seq + 1) & 63, b, foreign), (0x80 | ((seq + 2) & 63), c, peer)]
            else:
                segs = [(0x40 | seq, a, peer), (0x80 | ((seq + 1) & 63), b, foreign)]
            whole = rng.bytes(rng.range(1, 40))
            segs.append((0xC0 | rng.below(64), whole, peer))            # a complete single-segment fragment afterwards
            feeds = [dnp.link_frame(0xC4, own, s_, bytes([t]) + d) for t, d, s_ in segs]
            sid = "c07_%d" % i; i += 1
            out.append(Case(sid, script_text(sid, "treader", {"mode": "discard", "read": "stream", "frag": 2048, "role": "outstation",
                                                                "self": 0, "addr": own, "decode": rng.below(4)},
                                             [("feed", hexs(f)) for f in feeds]),
                            {"kind": "splice", "order": order, "only": hexs(whole), "dest": order}))
        return out

    def oracle(self, case, impl):
        m = case.meta
        if m.get("engine") == "outstation":
            return self.oracle_session(case, impl)
        fails = []
        if m.get("kind") == "splice":
            for l in impl:
                if l.startswith("panic") or l.startswith("harness-died") or l == "missing":
                    fails.append(("no-panic", "transport reader failed: " + l[:200]))
            got = [l.split()[4] for l in impl if l.startswith("frag ") and len(l.split()) >= 5]
            if got != [m["only"]]:
                fails.append(("spliced-from-foreign-source", "segments of two senders (%s) were assembled into a fragment, or the following "
                              "complete fragment was lost: delivered %s" % (m["order"], [g[:24] for g in got])))
            return fails
        for l in impl:
            if l.startswith("panic") or l.startswith("harness-died") or l == "missing" or l.startswith("err "):
                fails.append(("no-panic", "link layer failed on well-formed frames: " + l[:200]))
        if m.get("kind") == "header":
            # skip the observations caused by the preamble (known: ack for reset; ack + info for the data frame)
            body = [l for l in impl if l != "end"]
            skip = {0: 0, 1: 1, 2: 3}[m["pre"]]
            mine = body[skip:]
            role, ctrl = m["role"], m["ctrl"]
            from_opposite = bool(ctrl & 0x80) != (role == "master")
            src_ok = m["src"] in ("peer", "own") and m["srcval"] < 0xFFF0
            d = m["dest"]
            bcast = d.startswith("bc_")
            addressed = (d == "own") or (d == "self" and m["self"] == 1) or (bcast and role == "outstation")
            func = ctrl & 0x4F
            if not (from_opposite and src_ok and addressed):
                if mine:
                    fails.append(("acted-on-foreign-frame", "endpoint acted on a frame not addressed to it (ctrl %#x dest %s src %s role %s): %s"
                                  % (ctrl, d, m["src"], role, mine[0][:80])))
                return fails
            if bcast:
                if any(l.startswith("tx ") for l in mine):
                    fails.append(("replied-to-broadcast", "a reply was transmitted for a broadcast frame (ctrl %#x)" % ctrl))
                if func not in (0x43, 0x44) and mine:
                    fails.append(("broadcast-non-user-data", "acted on a broadcast frame that is not user data (ctrl %#x)" % ctrl))
            if func == 0x49 and not (ctrl & 0x10) and not bcast:
                # link status request, FCV clear: answered with SEC_LINK_STATUS to the source and passed up
                expect_reply = "tx " + hexs(dnp.link_frame((0x80 if role == "master" else 0) | 0x0B, m["srcval"], m["own"]))
                if len(mine) != 2 or mine[0] != expect_reply or not mine[1].startswith("info %d none lsreq " % m["srcval"]):
                    fails.append(("link-status-not-answered", "link status request not answered as required: %s" % mine[:2]))
            return fails
        if m.get("kind") == "fcb":
            # reference: after a reset the expected FCB is 1 and toggles with every delivered frame
            state = None
            expect = []
            peer = 9
            ack = "tx " + hexs(dnp.link_frame((0x80 if m["role"] == "master" else 0) | 0x00, peer, m["own"]))
            for t in m["truth"]:
                if t[0] == "reset":
                    state = 1; expect.append(ack)
                else:
                    _, fcb, pl, bc = t
                    if state is None:
                        continue
                    if not bc:
                        expect.append(ack)
                    if fcb == state:
                        state ^= 1
                        expect.append("info %d %s data %s" % (peer, "opt" if bc else "none", pl))
            got = [l for l in impl if l != "end"]
            if got != expect:
                fails.append(("confirmed-data-fcb", "confirmed user data not delivered exactly once per FCB toggle: got %s expected %s" % (got[:6], expect[:6])))
        return fails

    def nontrivial(self, case, impl):
        if case.meta.get("engine") == "outstation":
            return any(" tx " in l for l in impl)
        skip = {0: 0, 1: 1, 2: 3}.get(case.meta.get("pre", 0), 0)
        return len([l for l in impl if l != "end"]) > skip

    def finding_signature(self, case, clause, desc):
        if case.meta.get("engine") == "outstation":
            return clause
        return "%s/%s/%s" % (clause, case.meta.get("kind"), case.meta.get("dest"))


PROP = C07()
