"""C12 — Outstation replies are well-formed, correlated, bounded, and report rejections."""
from ost import *

NO_REPLY = (0, 6, 8, 10, 12)
UNSUPPORTED = (15, 16, 17, 18, 19, 22, 25, 26, 27, 28, 29, 30)


class C12(OutstationProp):
    id = "C12"
    # gen_session_tables: dispatch, IIN2 of object errors, to_request (theorems C12_tables_*, Outstation/TablesAgree.v);
    # the other three regenerate the tables App/Grammar.v and App/AppHeader.v are built on
    translators = ["gen_variations", "gen_qualifiers", "gen_functions", "gen_session_tables"]
    proof_targets = ["Outstation/SessionC12Proofs.vo", "Outstation/TablesAgree.vo", "Outstation/FullCorollaries.vo"]
    property_file = "Properties/C12.v"
    rule = ("every function code 0..255 and header-flag combination with supported, unsupported, unknown and truncated "
            "object headers (one or several, only some acceptable), request sizes up to the receive buffer against "
            "transmit buffers from 249 bytes, in every session state; non-trivial = a fragment was transmitted")

    def cases(self, rng, tier):
        n = 600 if tier == "quick" else 5000
        out = self.cases_session(rng, n // 2, focus=None)
        for i in range(n // 2):
            cfg = self.base_cfg(rng)
            ops = [("add", "binary", 0, 1)]
            seq = rng.below(16)
            for _ in range(rng.range(2, 8)):
                fn = rng.below(256) if rng.chance(1, 2) else rng.choice(list(range(0, 31)) + [129, 130])
                c = ctl(seq, con=rng.chance(1, 8), uns=rng.chance(1, 10), fir=not rng.chance(1, 10), fin=not rng.chance(1, 10))
                body = rng.choice([b"", read_classes((1,)), write_iin(7, 0), write_iin(4, 0) + write_iin(7, 0), write_iin(7, 0) + write_iin(4, 1),
                                   self.rand_controls(rng), self.rand_controls(rng, many=True), bytes([0x14, 0x00, 0x06]),
                                   bytes([0x01, 0x02, 0x00, 0x05]), bytes([0xEE, 0x01, 0x06]), g50v1(rng.below(1 << 48)),
                                   bytes([0x32, 0x01, 0x07, 0x02]) + bytes(12), read_classes((1,)) + bytes([0x01])])
                ops.append(("rx", MASTER if not rng.chance(1, 12) else FOREIGN, "none" if not rng.chance(1, 12) else "opt", hexs(bytes([c, fn]) + body)))
                if rng.chance(1, 5):
                    ops.append(("update", "binary", 0, str(rng.below(2)), 1, 1000 + rng.below(1000)))
                if rng.chance(1, 6):
                    ops.append(("rx", MASTER, "none", hexs(frag(seq, FN["confirm"]))))
                seq = (seq + 1) & 15
            sid = "c12_f_%d" % i
            out.append(Case(sid, script_text(sid, "outstation", cfg, ops), {"kind": "functions", "cfg": cfg}))
        # control echoes that outgrow the transmit buffer at every alignment: several headers, the first one
        # filling the buffer up to a few bytes
        for i in range(40 if tier == "quick" else 1500):
            soltx = rng.choice([249, 249, 260, 300])
            cfg = {"unsol": 0, "soltx": soltx, "confirm_ms": 1000, "sel": 0, "op": 0, "decode": rng.below(4)}
            wide = rng.chance(1, 3)
            g, v, osz = rng.choice([(12, 1, 11), (41, 1, 5), (41, 2, 3), (41, 3, 5), (41, 4, 9)])
            isz = 2 if wide else 1
            hsz = 3 + isz
            room = soltx - 4
            kfull = max(1, (room - hsz) // (isz + osz))
            k1 = max(1, min(kfull + rng.range(-3, 2), 255 if not wide else 600))
            def hdr(n, gg, vv, oo):
                items = []
                for j in range(n):
                    obj = g12v1(code=3, count=1, on=j, off=j) if gg == 12 else g41(vv, j)
                    items.append((j, obj))
                return control_header(gg, vv, items, wide)
            g2, v2, osz2 = rng.choice([(12, 1, 11), (41, 1, 5), (41, 2, 3), (41, 3, 5), (41, 4, 9)])
            objs = hdr(k1, g, v, osz) + hdr(rng.range(1, 4), g2, v2, osz2) + (hdr(rng.range(1, 3), g, v, osz) if rng.chance(1, 3) else b"")
            seq = rng.below(16)
            fn = rng.choice([FN["direct"], FN["select"], FN["operate"], FN["direct"]])
            ops = [("rx", MASTER, "none", hexs(frag(seq, fn, objs)))]
            sid = "c12_e_%d" % i
            out.append(Case(sid, script_text(sid, "outstation", cfg, ops), {"kind": "echo-sweep", "cfg": cfg}))
        # control requests whose objects fail for DIFFERENT reasons: the handler refuses (NOT_SUPPORTED and other
        # statuses) and the per-request limit cuts the rest (TOO_MANY_OPS); the request's IIN2 reports the FIRST
        # failure (seeded change C12_c: the last failing header decided)
        for i in range(40 if tier == "quick" else 1500):
            st = rng.choice([4, 4, 4, 7, 6, 0])
            cfg = {"unsol": 0, "soltx": 2048, "confirm_ms": 1000, "sel": st, "op": st, "maxctl": rng.choice([1, 1, 2, 3]),
                   "decode": rng.below(4)}
            def hdr1(gg, vv, idxs, wide=False):
                return control_header(gg, vv, [(j, g12v1(code=3, count=1, on=j, off=j) if gg == 12 else g41(vv, j)) for j in idxs], wide)
            hs = b""
            for k in range(rng.range(2, 4)):
                gg, vv = rng.choice([(12, 1), (41, 1), (41, 2), (41, 3), (41, 4)])
                hs += hdr1(gg, vv, [10 * k + j for j in range(rng.range(1, 3))], rng.chance(1, 3))
            seq = rng.below(16)
            fn = rng.choice([FN["direct"], FN["select"], FN["direct"]])
            ops = [("rx", MASTER, "none", hexs(frag(seq, fn, hs)))]
            if fn == FN["select"]:
                ops.append(("rx", MASTER, "none", hexs(frag((seq + 1) & 15, FN["operate"], hs))))
            sid = "c12_m_%d" % i
            out.append(Case(sid, script_text(sid, "outstation", cfg, ops), {"kind": "mixed-status", "cfg": cfg}))
        # multi-fragment responses: every fragment must fit and parse, wherever the buffer runs out
        for i in range(20 if tier == "quick" else 400):
            cfg = {"unsol": 0, "soltx": rng.choice([249, 250, 251, 252, 253, 300]), "confirm_ms": 1000, "sel": 0, "op": 0, "decode": rng.below(4)}
            ops = []
            typ = rng.choice(["analog", "analog", "counter", "binary"])
            for k in range(rng.range(45, 140)):
                ops.append(("add", typ, k, 0))
            seq = rng.below(16)
            ops.append(("rx", MASTER, "none", hexs(frag(seq, FN["read"], read_classes((0,))))))
            for k in range(4):
                ops.append(("rx", MASTER, "none", hexs(frag((seq + k) & 15, FN["confirm"]))))
            sid = "c12_m_%d" % i
            out.append(Case(sid, script_text(sid, "outstation", cfg, ops), {"kind": "series", "cfg": cfg}))
        return out

    def oracle(self, case, impl):
        fails = self.common_fail(impl)
        cfg = case.meta.get("cfg", {})
        any_master = int(cfg.get("anymaster", 0)) == 1
        soltx = int(cfg.get("soltx", 2048))
        steps = split_steps(impl)
        last_unsol = None   # (seq, bytes)
        # session state at the START of every step: in the unsolicited confirm wait requests other than READ and
        # CONFIRM are processed at once (no `idle_request` line), so the rejection clauses apply there as well
        uw_at = []
        in_uw = False
        for op, t, lines in steps:
            uw_at.append(in_uw)
            for l in lines:
                tk = l.split()
                if len(tk) == 2 and tk[1].startswith("session-end"): in_uw = False
                if len(tk) >= 3 and tk[1] == "info":
                    if tk[2] == "enter_unsol_wait": in_uw = True
                    elif tk[2] == "unsol_confirmed": in_uw = False
                    elif tk[2] == "unsol_timeout" and len(tk) > 4 and tk[4] == "0": in_uw = False
                    elif tk[2] == "broadcast" and tk[3] == "21" and tk[4] == "processed": in_uw = False
            if op[0] == "rx" and op[2] == "none" and uw_at[-1]:
                bb = bytes.fromhex(op[3]) if op[3] != "-" else b""
                if len(bb) >= 2 and bb[1] == 21 and any(" tx " in l and l.split()[3][2:4] == "81" for l in lines if len(l.split()) > 3):
                    in_uw = any(" info enter_unsol_wait" in l for l in lines)     # cancelled (a new series may start at once)
        for k_step, (op, t, lines) in enumerate(steps):
            step = txs(lines)
            for l in lines:
                tk = l.split()
                if len(tk) >= 4 and tk[1] == ">" and tk[2] == "txparse" and tk[3] != "ok":
                    fails.append(("tx-does-not-parse", "a transmitted fragment is rejected by the library's own parser: " + tk[3]))
            for (_, dest, b) in step:
                if len(b) < 4:
                    fails.append(("tx-too-short", "fragment shorter than a response header")); continue
                if b[1] == 129:
                    if b[0] & 0x10:
                        fails.append(("solicited-with-uns", "solicited response with the UNS bit: " + b.hex()[:16]))
                    if len(b) > soltx:
                        fails.append(("tx-too-long", "solicited response of %d bytes exceeds the transmit size %d" % (len(b), soltx)))
                elif b[1] == 130:
                    if (b[0] & 0xF0) != 0xF0:
                        fails.append(("unsolicited-shape", "unsolicited response without UNS/FIR/FIN/CON: " + b.hex()[:16]))
                    s = b[0] & 15
                    if last_unsol is not None and b != last_unsol[1] and s != ((last_unsol[0] + 1) & 15):
                        fails.append(("unsolicited-numbering", "unsolicited sequence %d after %d" % (s, last_unsol[0])))
                    last_unsol = (s, b)
                else:
                    fails.append(("tx-function", "transmitted function code %d" % b[1]))
            if op[0] in ("disconnect", "bounce"):
                pass
            if op[0] != "rx":
                continue
            frm, bc = int(op[1]), op[2]
            b = bytes.fromhex(op[3]) if op[3] != "-" else b""
            sol = [x for (_, _, x) in step if len(x) >= 2 and x[1] == 129]
            dig = [l for l in lines if " > digest " in l]
            dtoks = dig[0].split()[3:] if dig else []
            ok_hdr = "hp=ok" in dtoks and "rv=ok" in dtoks
            if bc != "none" and step and any(x[1] == 129 for (_, _, x) in step):
                fails.append(("reply-to-broadcast", "a response was transmitted in reply to a broadcast"))
            if bc != "none" or not (any_master or frm == MASTER) or len(b) < 2:
                continue
            fn = b[1]
            idle = any(" info idle_request " in l for l in lines)
            if not idle and uw_at[k_step] and fn not in (0, 1):
                idle = True          # processed at once in the unsolicited confirm wait
            # a fragment rejected at header level (unknown function code, FIR/FIN/UNS not those of a request) is
            # answered with IIN2.0 and its own sequence number IN EVERY SESSION STATE (idle, either confirm wait)
            unk = [x for x in dtoks if x.startswith("hp=unkfn")]
            rvbad = "hp=ok" in dtoks and "rv=ok" not in dtoks and any(x.startswith("rv=") for x in dtoks)
            if unk or rvbad:
                q = int(unk[0].split(":")[1]) if unk else b[0] & 15
                if not sol:
                    fails.append(("header-error-silent", "fragment %s rejected at header level (%s) was answered with silence"
                                  % (b.hex()[:12], (unk or [x for x in dtoks if x.startswith("rv=")])[0])))
                elif not any((x[3] & 1) and (x[0] & 15) == q for x in sol):
                    fails.append(("header-error-not-reported", "fragment %s rejected at header level answered with %s"
                                  % (b.hex()[:12], sol[0].hex()[:12])))
            if ok_hdr and fn in NO_REPLY and "obj=ok" in dtoks and sol and idle and fn != 0:
                fails.append(("reply-to-no-ack-function", "function %d must never be answered, got %s" % (fn, sol[0].hex()[:16])))
            if ok_hdr and fn == 0 and sol and idle:
                fails.append(("reply-to-confirm", "a CONFIRM from idle was answered"))
            if sol and ok_hdr and fn != 0:
                # the first solicited response of the step carries the request's sequence number
                if idle and (sol[0][0] & 15) != (b[0] & 15):
                    fails.append(("sequence-mismatch", "response sequence %d for request sequence %d" % (sol[0][0] & 15, b[0] & 15)))
            # a control request one of whose objects is refused as NOT_SUPPORTED before any other failure reports it
            if idle and ok_hdr and fn in (3, 4, 5) and sol and "obj=ok" in dtoks:
                import c04 as C04mod
                st_list = C04mod.control_statuses(sol[0][4:])
                req_list = C04mod.control_statuses(b[2:])
                # an echo that was truncated because it outgrew the transmit buffer is not judged here (the code
                # reports no IIN2 bit then, DESIGN 7a; the master sees the short echo)
                if st_list and req_list is not None and len(st_list) == len(req_list):
                    firstbad = next((x for x in st_list if x != 0), 0)
                    if firstbad == 4 and not (sol[0][3] & 0x04):
                        fails.append(("control-rejection-not-reported", "control request (function %d): the first failing object is NOT_SUPPORTED (statuses %s) but IIN2 = %#x"
                                      % (fn, st_list, sol[0][3])))
            # rejections must be reported
            if idle and ok_hdr and fn not in NO_REPLY:
                rejected = fn in UNSUPPORTED or any(x.startswith("obj=err") for x in dtoks)
                if rejected:
                    if not sol:
                        fails.append(("rejection-silent", "request with function %d was rejected without any reply" % fn))
                    elif sol[0][3] & 0x07 == 0:
                        fails.append(("rejection-not-reported", "rejected request (function %d) answered with IIN2 = %#x" % (fn, sol[0][3])))
                if fn == 2 and "obj=ok" in dtoks:
                    hs = [x for x in dtoks if x.startswith("H")]
                    bad = [x for x in hs if x.startswith("Hother") or x.startswith("Hcls") or x.startswith("Hfrz") or x.startswith("Hctl")
                           or x.startswith("Hattr") or x.startswith("Hdb34") or (x.startswith("Hiin:") and any(p.split("=")[0] != "7" or p.endswith("=1") for p in x[5:].split(",") if p != "-"))]
                    if bad and sol and sol[0][3] & 0x07 == 0:
                        fails.append(("write-rejection-not-reported", "WRITE with a rejected object header (%s) answered with IIN2 = 0" % bad[0][:20]))
        fails += response_sequence_fails(impl, any_master)
        return fails

    def finding_signature(self, case, clause, desc):
        return clause


PROP = C12()
