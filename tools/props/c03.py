"""C03 — No event is lost, invented, or released before a confirmed response carried it.
Database-layer part: the event buffer as a data structure (engine `db`)."""
from propcheck import *
import dbcommon as D


class C03(Prop):
    id = "C03"
    translators = []
    proof_targets = ["Outstation/EventBufferProofs.vo", "Outstation/SessionC03Proofs.vo"]
    property_file = "Properties/C03.v"
    theorems = []
    own_clauses = ("C03", "ALL")
    modelled = ("modelled by hand: outstation/database/details/event/{buffer,list,writer,write_fn,traits}.rs, "
                "details/database.rs, database/read.rs (coq/Outstation/{DbTypes,EventBuffer,Database}.v); "
                "VecList abstracted to a list in insertion order; object encodings of g2 g4 g11 g22 g23 g32 g42 g111 "
                "(+ g51 CTO) byte-exact; analog dead-band only 0.0; NaN payloads and u64 wrap of the id counter not modelled")
    rule = ("db-engine op lists: per-type capacities 1..5, points of mixed classes and event variations, updates "
            "(force/detect/suppress), selections by class and by type with count limits, writes with budgets from 0 to "
            "'everything fits', clear_written, reset; the oracle keeps a ledger recorded/discarded/written/released and "
            "decodes every response; a script is non-trivial when at least one event was written or discarded; "
            "distinct = distinct (config, trace)")

    # more case kinds (session level) can be appended here
    def cases(self, rng, tier):
        n = 400 if tier == "quick" else 6000
        return self.cases_db(rng, n)

    def cases_db(self, rng, n):
        out = []
        for i in range(n):
            sid = "c03_%d" % i
            kind = rng.choice(["events", "events", "events", "unsol"])
            w = D.gen_events_script(rng, sid, "events") if kind == "events" else D.gen_unsol_script(rng, sid)
            out.append(Case(sid, D.world_script(sid, w), {"kind": "db-" + kind}))
        return out

    def oracle(self, case, impl):
        if not case.script.split("\n", 1)[0].split()[2] == "db":
            return []
        lg = D.replay(case.script, impl)
        case.meta["stats"] = lg.stats
        return [(clause, text) for (p, clause, text) in lg.fails if p in self.own_clauses]

    def nontrivial(self, case, impl):
        st = case.meta.get("stats")
        if st is None:
            st = D.replay(case.script, impl).stats
        return st["written"] > 0 or st["overflows"] > 0

    def finding_signature(self, case, clause, desc):
        return "%s/%s" % (clause, case.meta.get("kind"))


import sessmix
PROP = sessmix.attach(C03(), sessmix.c03_cases, sessmix.c03_oracle, 120, 3000)
