"""C02 — trace abstraction: every recorded run of the REAL stack (engine `pair`, /verif/pairtest) must be
EXPLAINED as a run of the abstract system coq/System/Pair.v, so that the theorems of Properties/C02.v say
something about it.

  real trace  --(this module: `abstract`)-->  label list ls, observation list os, final observation fin
              --(engine `pairabs`: the function `explain` EXTRACTED from coq/System/PairTrace.v)--> verdict

The mapping (what is trusted here):
  * a database transaction (`op`/`updinfo` lines; `cmdupd` for the ControlHandler's update) is, per update,
    the label  Update p v ev  with the observation "UpdateInfo created this event id / no event", followed by
    Overflow [d]  when UpdateInfo reported the overflow of a per-type limit (observation: d was discarded).
    p = 65536 * type + index; v = the serial number of the update (0 = the value the point was added
    with); `cap` = the sum of the per-type limits, so the capacity rule of Update never fires.
  * a response that reached the master's ReadHandler (`frag b` .. `h` .. `frag e`):
      - its event objects:  SendEvents n  (observation: it carried n events) at the instant the response
        was formed, DeliverEvents (observation: the objects the handler received) where `frag b` stands;
      - the static objects of a whole solicited series (the library copies the selected values when the
        READ is processed: range/static_db.rs select_range_with_variation):  TakeSnapshot ps  at the
        instant the READ was processed, DeliverSnapshot (observation: the objects of all fragments
        delivered so far) where the last fragment with static objects stands;
      - a solicited response whose first fragment carries NO event (every request of the harness asks for
        classes 1, 2, 3):  SendEvents 1  with the observation "it carried 0 events".
    An observed object is (point, the serial numbers of the updates of that point whose wire image — value,
    wire flags, time where the variation carries it — is what the handler got).
  * `cleared` lines after an `oi solconf`/`oi unsolconf`:  Confirm  (observation: the ids released).
  * a new connection of the master (`conn connected`, not the first):  LoseConnection.
  * after `quiesced`: per point the updates whose value Database::get returned (`db`) and the updates whose
    wire image is what the handler received last (`seen`).
Where the trace does not fix a label's place it is SEARCHED (deterministic, bounded):
  * the instant a response was formed lies between the end of the master's previous solicited series (or
    the connection) and the delivery: latest first, then every earlier place;
  * a transaction lies between its `op` marker and its `updinfo` line: latest first, then earlier places;
    a transaction whose marker precedes a delivery may also have happened before it (pulled forward);
  * a Confirm may have happened before the labels since the delivery it confirms (a late confirm processed
    by the outstation's old session after the master has connected again).
The search uses a mirror of `step` written in Python to reject placements quickly; the VERDICT is always
the extracted function's, run on the placement the search ends with (the best one if none is accepted):
a wrong mirror can only cause a false alarm."""
import os

TYPES = ["bi", "dbbi", "bos", "ctr", "fctr", "ai", "aos", "os"]
MAX_TRIES = 20000        # bound on the placements tried for one run


def pcode(ty, idx):
    return TYPES.index(ty) * 65536 + int(idx)


class Upd:
    __slots__ = ("key", "p", "value", "flags", "time", "code", "created", "discarded", "what")


class Tx:
    __slots__ = ("mpos", "dpos", "upds")


class Frag:
    __slots__ = ("rt", "fir", "fin", "con", "uns", "seq", "pos_b", "pos_e", "events", "statics", "epoch")


class St:
    """mirror of Pair.state without the history variables"""
    __slots__ = ("db", "queue", "next_id", "sflight", "eflight", "eacked", "view")

    def copy(self):
        s = St()
        s.db, s.queue, s.next_id, s.sflight = dict(self.db), self.queue, self.next_id, self.sflight
        s.eflight, s.eacked, s.view = self.eflight, self.eacked, dict(self.view)
        return s


def init_state():
    s = St()
    s.db, s.queue, s.next_id, s.sflight, s.eflight, s.eacked, s.view = {}, [], 0, None, [], False, {}
    return s


def mirror_step(s, cap, lab, ob):
    """applies the label to s (in place; lists are replaced, never mutated) and says whether the effect
    matches the observation — a transcription of Pair.step, PairTrace.effect_of and PairTrace.matches"""
    k = lab[0]
    if k == "upd":
        _, p, v, ev = lab
        q = s.queue + [(s.next_id, p, v)] if ev else s.queue
        n = max(0, len(q) - cap)
        ok = ob[0] == "upd" and ob[1] == (s.next_id if ev else None) and ob[2] == [e[0] for e in q[:n]]
        s.db[p] = v
        s.queue = q[n:]
        if ev:
            s.next_id += 1
        return ok
    if k == "ovf":
        gone = [e[0] for e in s.queue if e[0] in lab[1]]
        s.queue = [e for e in s.queue if e[0] not in lab[1]]
        return ob[0] == "ovf" and ob[1] == gone
    if k == "take":
        s.sflight = [(p, s.db.get(p, 0)) for p in lab[1]]
        return ob[0] == "silent"
    if k == "lose":
        s.sflight, s.eflight, s.eacked = None, [], False
        return ob[0] == "silent"
    if k == "send":
        s.eflight, s.eacked = s.queue[:lab[1]], False
        return ob[0] == "sent" and ob[1] == len(s.eflight)
    if k == "sel":
        s.eflight, s.eacked = [e for e in s.queue if e[0] in lab[1]], False
        return ob[0] == "sent" and ob[1] == len(s.eflight)
    if k == "dsnap":
        l = s.sflight or []
        s.sflight = None
        for p, v in l:
            s.view[p] = v
        return ob[0] == "h" and len(l) == len(ob[1]) and all(p == q and v in adm for (p, v), (q, adm) in zip(l, ob[1]))
    if k == "dev":
        l = [(e[1], e[2]) for e in s.eflight]
        s.eacked = True
        for p, v in l:
            s.view[p] = v
        return ob[0] == "h" and len(l) == len(ob[1]) and all(p == q and v in adm for (p, v), (q, adm) in zip(l, ob[1]))
    if k == "conf":
        if s.eacked:
            rel = [e[0] for e in s.queue if e in s.eflight]
            s.queue = [e for e in s.queue if e not in s.eflight]
            s.eflight, s.eacked = [], False
        else:
            rel = []
        return ob[0] == "rel" and ob[1] == rel
    raise ValueError(k)


def parse(script, trace, h):
    """h: the module tools/props/c02.py (projections of values to their wire image)"""
    lines = [l.split() for l in script.strip().split("\n")]
    head = lines[0]
    cfg = dict(kv.split("=", 1) for kv in head[3:] if "=" in kv)
    ops = [l for l in lines[1:] if l and l[0] != "E"]
    ev = [int(x) for x in cfg.get("ev", "").split(",") if x] or [3] * 8
    cap = sum(ev)
    notes = []

    # transactions of the script: op index -> transaction number
    tx_of_op, ntx, batch = {}, 0, None
    for n, op in enumerate(ops):
        if op[0] == "begin":
            batch = ntx
            ntx += 1
        elif op[0] == "commit":
            batch = None
        elif op[0] == "update":
            if batch is not None:
                tx_of_op[n] = batch
            else:
                tx_of_op[n] = ntx
                ntx += 1
    txs = {}             # number -> Tx (script transactions), commands get fresh numbers
    order = []           # transactions in the order of their first result line
    ledger = {}          # key -> [(code, value, flags, time)]
    pending = []         # (op index, marker position)
    cmd_marks = []
    frags, cur = [], None
    confirms, open_conf = [], None      # [pos, [ids]]
    connected = []                       # positions of `conn connected`
    fin_db, fin_seen, quiesced = {}, {}, False
    serial = 0
    created_of = {}      # serial number of an update -> id of the event it created

    def new_upd(key, value, flags, time, created, discarded, what):
        nonlocal serial
        serial += 1
        u = Upd()
        u.key, u.p, u.value, u.flags, u.time, u.code = key, pcode(*key), value, flags, time, serial
        u.created, u.discarded, u.what = created, discarded, what
        ledger.setdefault(key, []).append((u.code, value, flags, time))
        if created is not None:
            created_of[u.code] = created
        return u

    for pos, l in enumerate(trace):
        t = l.split()
        if not t:
            continue
        k = t[0]
        if k == "op":
            n = int(t[1])
            if n >= len(ops):
                continue
            op = ops[n]
            if op[0] == "add":
                # Database::get on a point never updated: default value, RESTART, Time::unsynchronized(0)
                ledger[(op[1], int(op[2]))] = [(0, h.DEFAULTS[op[1]], 2, "u0")]
            elif op[0] == "update":
                pending.append((n, pos))
            elif op[0] == "command":
                cmd_marks.append((int(op[1]), int(op[2]), pos))
        elif k in ("updinfo", "nopoint"):
            if not pending:
                notes.append("updinfo without update at %d" % pos)
                continue
            n, mpos = pending.pop(0)
            op = ops[n]
            key = (op[1], int(op[2]))
            txn = tx_of_op.get(n)
            tx = txs.get(txn)
            if tx is None:
                tx = Tx()
                tx.mpos, tx.dpos, tx.upds = mpos, pos, []
                txs[txn] = tx
                order.append(tx)
            tx.mpos = min(tx.mpos, mpos)
            if k == "nopoint" or key not in ledger:
                continue
            tx.upds.append(new_upd(key, op[3], int(op[4]), op[5], None if t[1] == "none" else int(t[1]),
                                   None if t[2] == "none" else int(t[2]), "op %d" % n))
        elif k == "cmdupd":
            idx = int(t[2])
            m = next((c for c in cmd_marks if c[0] == idx and h.f64_bits(float(c[1])) == t[3]), None)
            if m is None:
                notes.append("cmdupd without command at %d" % pos)
                continue
            cmd_marks.remove(m)
            if t[6] == "nopoint" or ("aos", idx) not in ledger:
                continue
            tx = Tx()
            tx.mpos, tx.dpos = m[2], pos
            tx.upds = [new_upd(("aos", idx), t[3], int(t[4]), t[5], None if t[6] == "none" else int(t[6]),
                               None if t[7] == "none" else int(t[7]), "command %d" % m[1])]
            order.append(tx)
        elif k == "frag":
            if t[1] == "b":
                cur = Frag()
                cur.rt, cur.seq, cur.pos_b, cur.pos_e = t[2], int(t[4]), pos, None
                cur.fir, cur.fin, cur.con, cur.uns = (c == "1" for c in t[3])
                cur.events, cur.statics, cur.epoch = [], [], len(connected)
                frags.append(cur)
            elif cur is not None:
                cur.pos_e = pos
                cur = None
        elif k == "h":
            if cur is None:
                notes.append("h line outside a fragment at %d" % pos)
                continue
            (cur.events if t[6] == "event" else cur.statics).append((t[1], int(t[2]), t[6], t[3], t[4], t[5], l))
        elif k == "oi":
            if t[1] in ("solconf", "unsolconf"):
                open_conf = [pos, []]
                confirms.append(open_conf)
            else:
                open_conf = None
        elif k == "cleared":
            if open_conf is None:
                open_conf = [pos, []]
                confirms.append(open_conf)
            if not open_conf[1]:
                open_conf[0] = pos
            open_conf[1].append(int(t[1]))
        elif k == "conn":
            if t[1] == "connected":
                connected.append(pos)
        elif k == "quiesced":
            quiesced = True
        elif k == "db":
            fin_db[(t[1], int(t[2]))] = t[3:]
        elif k == "seen":
            fin_seen[(t[1], int(t[2]))] = t[3:]

    def adm(ty, idx, kind, value, flags, time):
        """serial numbers of the updates of the point whose wire image is this handler object"""
        ents = ledger.get((ty, idx))
        if ents is None:
            return []
        pr = h.proj_h(ty, kind, value, flags, time)
        if pr is None:
            return []
        return [c for c, v, f, tm in ents if h.proj(ty, kind, v, f, tm) == pr]

    def objs(hl):
        return [(pcode(ty, idx), adm(ty, idx, kind, v, f, tm)) for ty, idx, kind, v, f, tm, _ in hl]

    def ev_ids(ol):
        """ids of the events these delivered objects can be"""
        return sorted({created_of[c] for _, a in ol for c in a if c in created_of})

    evscan = cfg.get("evscan", "0") != "0"

    # ---- items ------------------------------------------------------------------------------------
    items = []
    for tx in order:
        if tx.upds:
            items.append({"kind": "tx", "pos": tx.dpos, "mpos": tx.mpos, "tx": tx})
    last_sol_end = -1
    series = None         # the solicited series being received: dict(fir, epoch, statics, lo, done)

    def conn_before(pos):
        c = [x for x in connected if x < pos]
        return c[-1] if c else -1

    for f in frags:
        if f.pos_e is None:
            f.pos_e = f.pos_b
        cb = conn_before(f.pos_b)
        if f.uns:
            if f.events:
                o = objs(f.events)
                items.append({"kind": "dev", "pos": f.pos_b + 0.1, "lo": cb, "objs": o, "ids": ev_ids(o)})
            if f.statics:
                notes.append("static objects in an unsolicited response at %d" % f.pos_b)
            continue
        if f.fir or series is None or series["epoch"] != f.epoch or series["done"]:
            series = {"epoch": f.epoch, "lo": max(last_sol_end, cb), "hi": f.pos_b, "statics": [], "item": None, "done": False}
            # a request for ALL event classes answered without an event: the integrity polls (startup, and
            # the explicit reads of `quiesce`) and the periodic class 1/2/3 poll; with evscan=1 a `periodic`
            # read may be the automatic scan of the classes an IIN bit announced
            if not f.events and (f.rt in ("single", "startup") or (f.rt == "periodic" and not evscan)):
                items.append({"kind": "empty", "pos": f.pos_b + 0.05, "lo": series["lo"]})
        if f.events:
            o = objs(f.events)
            items.append({"kind": "dev", "pos": f.pos_b + 0.1, "lo": series["lo"], "objs": o, "ids": ev_ids(o)})
        if f.statics:
            series["statics"] += f.statics
            if series["item"] is None:
                series["item"] = {"kind": "dsnap", "lo": series["lo"], "hi": series["hi"]}
                items.append(series["item"])
            series["item"]["pos"] = f.pos_b + 0.2
            series["item"]["objs"] = objs(series["statics"])
        if f.fin:
            series["done"] = True
            last_sol_end = f.pos_e
    for pos, ids in confirms:
        if ids:
            items.append({"kind": "conf", "pos": pos, "ids": ids})
    for pos in connected[1:]:
        items.append({"kind": "lose", "pos": pos})
    items.sort(key=lambda it: it["pos"])        # stable: equal positions keep the order above

    fin = []
    if quiesced:
        for key in sorted(ledger, key=lambda k2: pcode(*k2)):
            ents = ledger[key]
            dbv, seen = fin_db.get(key), fin_seen.get(key)
            a_db, a_seen = [], []
            if dbv and dbv[0] != "missing":
                if key[0] == "os":
                    a_db = [c for c, v, f, tm in ents if v == dbv[0]]
                else:
                    a_db = [c for c, v, f, tm in ents if v == dbv[0] and f == int(dbv[1]) and tm == dbv[2]]
            if seen and seen[0] != "never":
                for kind in ("static", "event"):
                    pr = h.proj_h(key[0], kind, seen[0], seen[1] if seen[1] != "-" else 0, seen[2])
                    if pr is not None:
                        a_seen += [c for c, v, f, tm in ents if h.proj(key[0], kind, v, f, tm) == pr and c not in a_seen]
            fin.append((pcode(*key), a_db, a_seen))
    return cap, items, fin, notes


def pairs_of(it):
    """(alternatives for the labels whose place the search decides, labels that stand where the item stands)"""
    k = it["kind"]
    if k == "tx":
        out = []
        for u in it["tx"].upds:
            out.append((("upd", u.p, u.code, u.created is not None), ("upd", u.created, [])))
            if u.discarded is not None:
                out.append((("ovf", [u.discarded]), ("ovf", [u.discarded])))
        return [out], []
    if k == "conf":
        return [[(("conf",), ("rel", it["ids"]))]], []
    if k == "lose":
        return [[(("lose",), ("silent",))]], []
    if k == "empty":
        return [[(("send", 1), ("sent", 0))]], []
    if k == "dev":
        n = len(it["objs"])
        # the n oldest events; else (a request for some classes only) the events the objects can be
        return [[(("send", n), ("sent", n))], [(("sel", it["ids"]), ("sent", n))]], [(("dev",), ("h", it["objs"]))]
    if k == "dsnap":
        return [[(("take", [p for p, _ in it["objs"]]), ("silent",))]], [(("dsnap",), ("h", it["objs"]))]
    raise ValueError(k)


class Search:
    def __init__(self, cap):
        self.cap = cap
        self.seq = []                  # (label, obs, pos)
        self.states = [init_state()]   # states[i] = state before seq[i]
        self.tries = 0
        self.failed = None             # description of the first item no placement explains

    def first_after(self, pos):
        for i, x in enumerate(self.seq):
            if x[2] > pos:
                return i
        return len(self.seq)

    def try_at(self, j, floating, anchored, fpos, apos):
        """insert `floating` at index j and `anchored` at the end; None unless every observation from j
        on still matches"""
        self.tries += 1
        s = self.states[j].copy()
        seq = list(self.seq[:j])
        states = list(self.states[:j + 1])
        prev = seq[-1][2] if seq else -1
        new = [(lab, ob, max(fpos, prev)) for lab, ob in floating] + self.seq[j:] + [(lab, ob, apos) for lab, ob in anchored]
        for lab, ob, p in new:
            if not mirror_step(s, self.cap, lab, ob):
                return None
            seq.append((lab, ob, p))
            states.append(s.copy())
        return seq, states

    def candidates(self, it):
        n = len(self.seq)
        k = it["kind"]
        if k == "tx":
            lo = self.first_after(it["mpos"])
        elif k == "conf":
            lo = max([i + 1 for i, x in enumerate(self.seq) if x[0][0] == "dev"] or [0])
        elif k == "lose":
            lo = n
        else:
            lo = self.first_after(it["lo"])
        hi = n
        if k == "dsnap":
            hi = min(n, self.first_after(it["hi"]))
            lo = min(lo, hi)
        return range(hi, lo - 1, -1)

    def place(self, it, at_pos=None):
        alts, anchored = pairs_of(it)
        apos = it["pos"] if at_pos is None else at_pos
        n = len(self.seq)
        for j in self.candidates(it):
            if it["kind"] == "tx":
                fpos = apos if j == n else it["mpos"]
            elif it["kind"] in ("conf", "lose"):
                fpos = apos if j == n else -1
            else:
                fpos = it["lo"]
            for floating in alts:
                if self.tries >= MAX_TRIES:
                    return False
                r = self.try_at(j, floating, anchored, fpos, apos)
                if r:
                    self.seq, self.states = r
                    return True
        return False

    def force(self, it):
        """no placement explains the item: put it where it stands, unchecked (the extracted function will
        show the mismatch)"""
        alts, anchored = pairs_of(it)
        s = self.states[-1].copy()
        for lab, ob in alts[0] + anchored:
            mirror_step(s, self.cap, lab, ob)
            self.seq.append((lab, ob, it["pos"]))
            self.states.append(s.copy())


def describe(it):
    k = it["kind"]
    if k == "tx":
        return "transaction (%s) with updinfo at trace line %d" % (", ".join(u.what for u in it["tx"].upds), it["pos"])
    if k == "conf":
        return "confirm releasing %s at trace line %d" % (it["ids"], it["pos"])
    return "%s at trace line %d" % ({"dev": "event objects delivered", "dsnap": "static objects delivered (series ending here)",
                                     "empty": "solicited response without events", "lose": "new connection"}[k], int(it["pos"]))


def abstract(script, trace, helpers):
    """returns dict(cap, labels [(label, obs)], fin, placements, mirror_explained, first_unexplained, notes)"""
    cap, items, fin, notes = parse(script, trace, helpers)
    txq = [it for it in items if it["kind"] == "tx"]
    rest = [it for it in items if it["kind"] != "tx"]
    S = Search(cap)
    while txq or rest:
        if S.failed:
            it = txq.pop(0) if txq and (not rest or txq[0]["pos"] <= rest[0]["pos"]) else rest.pop(0)
            S.force(it)
            continue
        if txq and (not rest or txq[0]["pos"] <= rest[0]["pos"]):
            it = txq.pop(0)
            if not S.place(it):
                S.failed = describe(it)
                S.force(it)
            continue
        it = rest.pop(0)
        ok = S.place(it)
        if not ok:
            # transactions whose marker precedes this item may have happened before it
            saved = (S.seq, S.states)
            k = 0
            while not ok and k < len(txq) and txq[k]["mpos"] < it["pos"] and S.tries < MAX_TRIES:
                if not S.place(txq[k], at_pos=it["pos"]):
                    break
                k += 1
                ok = S.place(it)
            if ok:
                del txq[:k]
            else:
                S.seq, S.states = saved
        if not ok:
            S.failed = describe(it)
            S.force(it)
    # the final observation, by the mirror
    s = S.states[-1]
    fin_ok = all(s.db.get(p, 0) in a_db and s.view.get(p) in a_seen for p, a_db, a_seen in fin)
    return {"cap": cap, "labels": [(lab, ob) for lab, ob, _ in S.seq], "fin": fin, "placements": S.tries, "items": len(items),
            "mirror_explained": S.failed is None and fin_ok,
            "first_unexplained": S.failed or (None if fin_ok else "final database/view"), "notes": notes,
            "quiesced": bool(fin)}


# ------------------------------------------------------------------------------------------------
# the script of engine `pairabs` (ocaml/eng_pairabs.ml runs the extracted PairTrace.explain on it)

def _ids(l):
    return ",".join(str(x) for x in l) if l else "-"


def _objs(l):
    return ";".join("%d:%s" % (p, ",".join(str(c) for c in adm)) for p, adm in l) if l else "-"


def engine_script(sid, a):
    out = ["S %s pairabs cap=%d" % (sid, a["cap"])]
    for lab, ob in a["labels"]:
        k = lab[0]
        if k == "upd":
            out.append("upd %d %d %d %s" % (lab[1], lab[2], 1 if lab[3] else 0, "none" if ob[1] is None else ob[1]))
        elif k == "ovf":
            out.append("ovf %s %s" % (_ids(lab[1]), _ids(ob[1])))
        elif k == "take":
            out.append("take %s" % _ids(lab[1]))
        elif k == "lose":
            out.append("lose")
        elif k == "send":
            out.append("send %d %d" % (lab[1], ob[1]))
        elif k == "sel":
            out.append("sel %s %d" % (_ids(lab[1]), ob[1]))
        elif k == "dsnap":
            out.append("dsnap %s" % _objs(ob[1]))
        elif k == "dev":
            out.append("dev %s" % _objs(ob[1]))
        elif k == "conf":
            out.append("conf %s" % _ids(ob[1]))
    for p, a_db, a_seen in a["fin"]:
        out.append("fin %d %s %s" % (p, _ids(a_db), _ids(a_seen)))
    out.append("E")
    return "\n".join(out)


def expected_verdict(a):
    """what the engine prints for a run that is explained (and, when the run quiesced, has the shapes under
    which C02_converged_after_quiescence and C02_drained_queue_all_delivered conclude)"""
    n = len(a["labels"])
    if a["quiesced"]:
        return ["explained %d" % n, "settled 1", "drained 1"]
    return ["explained %d" % n]
