"""C06 — Only intact link frames are delivered, and every frame sent is recovered."""
import subprocess, os
from propcheck import *
import dnp

LEN_POOL = [0, 1, 2, 15, 16, 17, 31, 32, 33, 47, 48, 49, 100, 127, 128, 200, 233, 234, 248, 249, 250]
FRAGS = [249, 250, 498, 2048]


class C06(Prop):
    id = "C06"
    translators = ["gen_link"]
    proof_targets = ["Link/CrcProofs.vo", "Link/ParserProofs.vo", "Link/ReaderProofs.vo", "Link/ParserIncr.vo"]
    property_file = "Properties/C06.v"
    theorems = []  # filled from Properties/C06.v by check
    modelled = ("modelled by hand: link/parser.rs, link/reader.rs, link/format.rs, link/header.rs, "
                "link/function.rs (Link/*.v); regenerated from source: CRC table, CRC_OF_0564, link constants")
    rule = ("streams of link frames built by an independent encoder (CRC from the polynomial), cut into "
            "physical reads limited to the writable space; kinds: valid, byte-at-a-time, 1-3 bit errors, "
            "heavier damage, line noise (discard mode), datagrams; a script is non-trivial when the "
            "implementation delivered a frame or reported an error; distinct = distinct (config, trace)")

    def rand_frame(self, rng):
        n = rng.choice(LEN_POOL) if rng.chance(2, 3) else rng.range(0, 250)
        ctrl = rng.below(256)
        dest = rng.choice([1, 1024, 0xFFFF, 0xFFFC, 0xFFF0, rng.below(65536)])
        src = rng.choice([1, 1024, rng.below(65536)])
        payload = rng.bytes(n)
        return (ctrl, dest, src, payload)

    def noise(self, rng, n):
        # line noise that cannot contain a frame start
        return bytes(b if b != 0x05 else 0x06 for b in rng.bytes(n))

    def cases(self, rng, tier):
        n = 400 if tier == "quick" else 6000
        abstract = []
        metas = {}
        for i in range(n):
            sid = "c06_%d" % i
            kind = rng.choice(["valid", "valid", "bytewise", "biterr", "biterr", "heavy", "noise", "noise", "datagram", "wrap", "trunc", "midtrunc", "midtrunc"])
            mode = rng.choice(["close", "discard"])
            read = "stream"
            frag = rng.choice(FRAGS)
            frames = [self.rand_frame(rng) for _ in range(rng.range(1, 4))]
            enc = [dnp.link_frame(*f) for f in frames]
            expect = list(range(len(frames)))   # indices of frames that must be delivered, in order
            must_all = True
            pieces = []
            sizes = []
            damaged = None
            if kind == "valid":
                stream = b"".join(enc)
                sizes = [rng.range(1, 400) for _ in range(rng.range(0, 12))]
            elif kind == "bytewise":
                frames = frames[:2]; enc = enc[:2]; expect = list(range(len(frames)))
                if sum(len(e) for e in enc) > 150:
                    frames = [(frames[0][0], frames[0][1], frames[0][2], frames[0][3][:rng.below(40)])]
                    enc = [dnp.link_frame(*frames[0])]; expect = [0]
                stream = b"".join(enc)
                sizes = [1] * len(stream)
            elif kind == "wrap":
                # many frames through the smallest buffer so that begin/end wrap repeatedly
                frag = 249
                frames = [self.rand_frame(rng) for _ in range(rng.range(4, 10))]
                enc = [dnp.link_frame(*f) for f in frames]
                expect = list(range(len(frames)))
                stream = b"".join(enc)
                sizes = [rng.choice([1, 2, 7, 100, 290, 291, 292, 293]) for _ in range(60)]
            elif kind in ("biterr", "heavy"):
                k = rng.below(len(frames))
                nbits = rng.range(1, 3) if kind == "biterr" else rng.range(4, 24)
                pos = set()
                while len(pos) < nbits:
                    pos.add(rng.below(len(enc[k]) * 8))
                damaged = {"frame": k, "bits": sorted(pos), "weight": nbits}
                enc2 = list(enc)
                enc2[k] = dnp.flip_bits(enc[k], pos)
                if mode == "close":
                    expect = list(range(k)); must_all = True
                    stream = b"".join(enc2)
                else:
                    expect = [j for j in range(len(frames)) if j != k]
                    # flush: whatever the damaged length field says, enough bytes follow
                    stream = b"".join(enc2) + self.noise(rng, 300)
                sizes = [rng.range(1, 300) for _ in range(rng.range(0, 8))]
            elif kind == "noise":
                mode = "discard"
                parts = []
                for e in enc:
                    nk = rng.choice(["rand", "05", "0564", "partial", "none"])
                    if nk == "rand": parts.append(self.noise(rng, rng.range(1, 40)))
                    elif nk == "05": parts.append(self.noise(rng, rng.below(5)) + b"\x05")
                    elif nk == "0564": parts.append(self.noise(rng, rng.below(5)) + b"\x05\x64")
                    elif nk == "partial":
                        other = dnp.link_frame(*self.rand_frame(rng))
                        parts.append(other[:rng.range(1, min(len(other) - 1, 9))])
                    parts.append(e)
                # choose split points that isolate the noise tail in its own read now and then
                stream = b"".join(parts) + self.noise(rng, 300)
                sizes = []
                if rng.chance(1, 2):
                    for p in parts:
                        sizes.append(len(p))
                else:
                    sizes = [rng.range(1, 60) for _ in range(rng.range(0, 30))]
            elif kind == "midtrunc":
                # a frame cut short on the wire (header intact, body incomplete) immediately followed by
                # complete frames: in discard mode every complete frame must still be found
                frames = [self.rand_frame(rng) for _ in range(rng.range(2, 4))]
                k = rng.below(len(frames) - 1)
                if len(frames[k][3]) < 3:
                    frames[k] = (frames[k][0], frames[k][1], frames[k][2], rng.bytes(rng.range(3, 250)))
                enc = [dnp.link_frame(*f) for f in frames]
                cut = rng.range(10, len(enc[k]) - 1)
                enc2 = list(enc)
                enc2[k] = enc[k][:cut]
                damaged = {"frame": k, "cut": cut, "weight": 99}
                if mode == "close":
                    expect = list(range(k))
                    stream = b"".join(enc2)
                else:
                    expect = [j for j in range(len(frames)) if j != k]
                    stream = b"".join(enc2) + self.noise(rng, 300)
                sizes = [rng.range(1, 300) for _ in range(rng.range(0, 8))]
            elif kind == "trunc":
                # stream ends inside a frame: nothing but the complete frames may be delivered
                cut = rng.range(1, len(enc[-1]) - 1)
                stream = b"".join(enc[:-1]) + enc[-1][:cut]
                expect = list(range(len(frames) - 1))
                sizes = [rng.range(1, 300) for _ in range(rng.range(0, 6))]
            elif kind == "datagram":
                read = "datagram"
                # each datagram is one read; some frames are split across two datagrams and must
                # never be delivered, whole frames (also two per datagram) must be
                feeds = []
                expect = []
                j = 0
                while j < len(frames):
                    if rng.chance(1, 3) and len(enc[j]) > 1:
                        cut = rng.range(1, len(enc[j]) - 1)
                        feeds.append(enc[j][:cut]); feeds.append(enc[j][cut:])
                        if mode == "close":
                            # the second half is garbage for a fresh parser: the session ends
                            break
                    elif rng.chance(1, 4) and j + 1 < len(frames) and len(enc[j]) + len(enc[j + 1]) <= 293:
                        feeds.append(enc[j] + enc[j + 1]); expect += [j, j + 1]; j += 1
                    else:
                        feeds.append(enc[j]); expect.append(j)
                    j += 1
                sid_script = script_text(sid, "link", {"mode": mode, "read": read, "frag": frag},
                                         [("feed", hexs(f)) for f in feeds])
                metas[sid] = {"kind": kind, "mode": mode, "read": read, "frames": [[f[0], f[1], f[2], hexs(f[3])] for f in frames],
                              "expect": expect, "must_all": mode == "discard" or True, "damaged": None, "concrete": True}
                abstract.append(sid_script)
                continue
            metas[sid] = {"kind": kind, "mode": mode, "read": read, "damaged": damaged,
                          "frames": [[f[0], f[1], f[2], hexs(f[3])] for f in frames],
                          "expect": expect, "must_all": must_all}
            abstract.append(script_text(sid, "link", {"mode": mode, "read": read, "frag": frag},
                                        [tuple(["stream", hexs(stream)] + sizes)]))
        # cut the streams into reads that fit the reader's writable space (model's buffer geometry)
        build_model()
        work = os.path.join(WORK, self.id)
        os.makedirs(work, exist_ok=True)
        ap = os.path.join(work, "abstract.txt")
        open(ap, "w").write("\n".join(abstract) + "\n")
        p = subprocess.run(["bash", "-c", "ulimit -s unlimited; exec %s --concretize %s" % (os.path.join(OCAML, "driver"), ap)],
                           stdout=subprocess.PIPE, stderr=subprocess.PIPE, text=True)
        if p.returncode != 0:
            raise BuildError("concretize failed: " + p.stderr[-1000:])
        out = []
        cur = []
        for line in p.stdout.splitlines():
            cur.append(line)
            if line == "E":
                sid = cur[0].split()[1]
                out.append(Case(sid, "\n".join(cur), metas[sid]))
                cur = []
        return out

    def oracle(self, case, impl):
        m = case.meta
        if "frames" not in m:
            return []
        fails = []
        sent = ["frame %d %d %d %s" % tuple(f) for f in m["frames"]]
        got = [l for l in impl if l.startswith("frame ")]
        for l in impl:
            if l.startswith("panic") or l.startswith("harness-died") or l == "missing":
                fails.append(("no-panic", "link reader panicked or stalled: " + l[:200]))
        # safety: every delivered frame is one of the frames sent intact, in order
        allowed = [sent[i] for i in m["expect"]]
        j = 0
        for g in got:
            while j < len(allowed) and allowed[j] != g:
                j += 1
            if j == len(allowed):
                w = (m.get("damaged") or {}).get("weight", 0)
                if m["kind"] == "heavy" and w > 3:
                    continue  # the CRC is not claimed to detect errors of weight > 3
                # not one of the frames the generator sent intact - but is it present intact in the byte stream?
                # (a frame cut at a block boundary, followed by another frame's 8-octet header block with its CRC)
                stream = b"".join(bytes.fromhex(l.split()[1]) for l in case.script.split("\n") if l.startswith("feed ") and len(l.split()) > 1 and l.split()[1] != "-")
                present = ["frame %d %d %d %s" % (c, d_, s_, hexs(p)) for c, d_, s_, p in dnp.frames_present(stream)]
                if g in present:
                    continue
                fails.append(("delivered-not-sent", "delivered a frame that was not sent intact: " + g[:120]))
                break
            j += 1
        # datagram mode: a datagram that fits the receive buffer is taken whole - a reader that offers less room
        # than its buffer holds truncates it and the frame is lost (seeded change C06_c: consumed space not reclaimed)
        if m["kind"] == "datagram" and "overflow" in impl and not fails:
            fails.append(("datagram-truncated", "datagram mode: the reader offered less room than a datagram of at most 293 octets needs "
                          "after %d delivered frames: the datagram would be truncated and its frame lost" % len(got)))
        # stream mode: the reads were cut to fit a buffer of one maximum frame (292 octets) per 249 octets of
        # fragment plus one; a reader that offers less room cannot take a maximum-size frame (seeded change C01_c)
        if m["kind"] != "datagram" and "overflow" in impl and not fails:
            fails.append(("reader-room", "the reader offered less room than a buffer of 292 octets per 249 octets of fragment (+1) has "
                          "after %d delivered frames: frames that fit the standard's maximum cannot be read" % len(got)))
        # liveness: every intact frame is recovered
        if m.get("must_all") and "overflow" not in impl:
            if got[:len(allowed)] != allowed and not fails:
                fails.append(("sent-not-recovered", "%d of %d intact frames delivered (mode %s, read %s, kind %s)"
                              % (len(got), len(allowed), m["mode"], m["read"], m["kind"])))
        return fails

    def nontrivial(self, case, impl):
        return any(l.startswith("frame ") or l.startswith("err ") for l in impl)

    def finding_signature(self, case, clause, desc):
        return "%s/%s/%s" % (clause, case.meta.get("kind"), case.meta.get("mode"))


PROP = C06()
