"""Shared by c03.py / c13.py / c11.py: generators of `db`-engine scripts and the reference LEDGER
that the oracles keep while replaying a script against the IMPLEMENTATION's trace.

The ledger is deliberately not a second model of the code: it takes the implementation's word for
which update produced an event (the ids it reported) and then checks the properties on what the
implementation reports and transmits:

  C03  ids unique and increasing; an overflow is reported exactly when the type is at capacity and it
       names the oldest event of the same type; every event object in a response is the next selected,
       not yet written event of the ledger (oldest first) with exactly the recorded index / value /
       flags / time in the chosen variation; nothing is withheld that fits; clear_written releases
       exactly the events written since the last reset (once, in order) and reports the remaining
       counts; after a reset everything is offered again.
  C13  the class bits equal "the ledger holds an event of that class that is not Written"; the overflow
       flag is set by a discard and cleared by a clear that leaves every type below capacity; no panic.
  C11  the static objects of a series are, whatever the budgets, the selected existing points, each
       once, ascending, with the value at selection time in the requested or configured (promoted)
       variation; nothing is withheld that fits (so a series makes progress); ResponseInfo.complete
       is set exactly when nothing is left.

Independent decoders / encoders of the objects are in this file (struct based)."""
import math, struct

TYPES = ["bi", "dbi", "bos", "ctr", "fctr", "ai", "aos", "oct"]
CFGKEY = {"bi": "mb", "dbi": "mdb", "bos": "mbos", "ctr": "mc", "fctr": "mfc", "ai": "ma", "aos": "maos", "oct": "mo"}
SGROUP = {"bi": 1, "dbi": 3, "bos": 10, "ctr": 20, "fctr": 21, "ai": 30, "aos": 40, "oct": 110}
EGROUP = {"bi": 2, "dbi": 4, "bos": 11, "ctr": 22, "fctr": 23, "ai": 32, "aos": 42, "oct": 111}
SVARS = {"bi": [1, 2], "dbi": [1, 2], "bos": [1, 2], "ctr": [1, 2, 5, 6], "fctr": [1, 2, 5, 6, 9, 10],
         "ai": [1, 2, 3, 4, 5, 6], "aos": [1, 2, 3, 4], "oct": [0]}
EVARS = {"bi": [1, 2, 3], "dbi": [1, 2, 3], "bos": [1, 2], "ctr": [1, 2, 5, 6], "fctr": [1, 2, 5, 6],
         "ai": [1, 2, 3, 4, 5, 6, 7, 8], "aos": [1, 2, 3, 4, 5, 6, 7, 8], "oct": [0]}
TYPE_OF_SGROUP = {v: k for k, v in SGROUP.items()}
TYPE_OF_EGROUP = {v: k for k, v in EGROUP.items()}
C0_ORDER = TYPES

ONLINE, RESTART, OVER_RANGE = 1, 2, 0x20


# ------------------------------------------------------------------------------------------------
# values

class Meas:
    """a measurement as the script states it: val (int; analog: f64 bit pattern; oct: bytes),
    flags, time = None | (sync, ms)"""
    def __init__(self, val, flags, time):
        self.val, self.flags, self.time = val, flags, time
    def key(self):
        return (self.val, self.flags, self.time)


def default_meas(t):
    if t == "oct":
        return Meas(b"\x00", 0, None)
    if t == "dbi":
        return Meas(3, RESTART, (False, 0))
    return Meas(0, RESTART, (False, 0))


def f64_of_bits(b):
    return struct.unpack("<d", struct.pack("<Q", b))[0]


def time_tok(t):
    return "n" if t is None else ("s%d" % t[1] if t[0] else "u%d" % t[1])


def parse_time(s):
    if s == "n":
        return None
    return (s[0] == "s", int(s[1:]) & 0xFFFFFFFFFFFF)


def val_tok(t, v):
    if t in ("ai", "aos"):
        return "%016x" % v
    if t == "oct":
        return v.hex()
    return str(v)


def parse_val(t, s):
    if t in ("ai", "aos"):
        return int(s, 16)
    if t == "oct":
        return bytes.fromhex(s)
    return int(s)


def wire_flags(t, m):
    if t in ("bi", "bos"):
        return (m.flags & 0x7F) | (0x80 if m.val else 0)
    if t == "dbi":
        return (m.flags & 0x3F) | ((m.val & 3) << 6)
    return m.flags


def to_int(m, bits):
    x = f64_of_bits(m.val)
    lo, hi = -(1 << (bits - 1)), (1 << (bits - 1)) - 1
    if x < lo:
        return m.flags | OVER_RANGE, lo
    if x > hi:
        return m.flags | OVER_RANGE, hi
    if math.isnan(x):
        return m.flags, 0
    return m.flags, int(x)   # truncates toward zero


F32_MAX = struct.unpack("<f", bytes.fromhex("ffff7f7f"))[0]


def to_f32_bits(m):
    x = f64_of_bits(m.val)
    if x < -F32_MAX:
        return m.flags | OVER_RANGE, 0xFF7FFFFF
    if x > F32_MAX:
        return m.flags | OVER_RANGE, 0x7F7FFFFF
    return m.flags, struct.unpack("<I", struct.pack("<f", x))[0]


def tval(m):
    return 0 if m.time is None else m.time[1] & 0xFFFFFFFFFFFF


def le(n, x):
    return (x & ((1 << (8 * n)) - 1)).to_bytes(n, "little")


def event_body(t, var, m, rel=0):
    """object body (after the 2-byte index prefix) of event variation g<EGROUP[t]>v<var>"""
    if t in ("bi", "bos", "dbi"):
        f = bytes([wire_flags(t, m)])
        if var == 1:
            return f
        if var == 2:
            return f + le(6, tval(m))
        return f + le(2, rel)
    if t in ("ctr", "fctr"):
        b = bytes([m.flags]) + (le(4, m.val) if var in (1, 5) else le(2, m.val))
        return b + (le(6, tval(m)) if var in (5, 6) else b"")
    if t in ("ai", "aos"):
        if var in (1, 3):
            f, v = to_int(m, 32); b = bytes([f]) + le(4, v)
        elif var in (2, 4):
            f, v = to_int(m, 16); b = bytes([f]) + le(2, v)
        elif var in (5, 7):
            f, v = to_f32_bits(m); b = bytes([f]) + le(4, v)
        else:
            b = bytes([m.flags]) + le(8, m.val)
        return b + (le(6, tval(m)) if var in (3, 4, 7, 8) else b"")
    return bytes(m.val)


def promote(t, var, m):
    if t in ("bi", "bos") and var == 1:
        return 1 if (m.flags & 0x7F) == ONLINE else 2
    if t == "dbi" and var == 1:
        return 1 if (m.flags & 0x3F) == ONLINE else 2
    return var


def static_body(t, var, m):
    """('bits', width, value) for packed variations, else ('fixed', bytes)"""
    if t in ("bi", "bos"):
        return ("bits", 1, 1 if m.val else 0) if var == 1 else ("fixed", bytes([wire_flags(t, m)]))
    if t == "dbi":
        return ("bits", 2, m.val & 3) if var == 1 else ("fixed", bytes([wire_flags(t, m)]))
    if t in ("ctr", "fctr"):
        fl = bytes([m.flags]) if var in (1, 2, 5, 6) and not (t == "ctr" and var in (5, 6)) else b""
        wide = var in (1, 5, 9)
        b = fl + (le(4, m.val) if wide else le(2, m.val))
        if t == "fctr" and var in (5, 6):
            b += le(6, tval(m))
        return ("fixed", b)
    if t == "ai":
        if var in (1, 3):
            f, v = to_int(m, 32); return ("fixed", (bytes([f]) if var == 1 else b"") + le(4, v))
        if var in (2, 4):
            f, v = to_int(m, 16); return ("fixed", (bytes([f]) if var == 2 else b"") + le(2, v))
        if var == 5:
            f, v = to_f32_bits(m); return ("fixed", bytes([f]) + le(4, v))
        return ("fixed", bytes([m.flags]) + le(8, m.val))
    if t == "aos":
        if var == 1:
            f, v = to_int(m, 32); return ("fixed", bytes([f]) + le(4, v))
        if var == 2:
            f, v = to_int(m, 16); return ("fixed", bytes([f]) + le(2, v))
        if var == 3:
            f, v = to_f32_bits(m); return ("fixed", bytes([f]) + le(4, v))
        return ("fixed", bytes([m.flags]) + le(8, m.val))
    return ("fixed", bytes(m.val))


EVENT_SIZE = {}
for _t in TYPES:
    if _t != "oct":
        for _v in EVARS[_t]:
            EVENT_SIZE[(EGROUP[_t], _v)] = len(event_body(_t, _v, Meas(0, 0, None)))
STATIC_SIZE = {}
for _t in TYPES:
    if _t != "oct":
        for _v in SVARS[_t]:
            k = static_body(_t, _v, Meas(0, 0, None))
            STATIC_SIZE[(SGROUP[_t], _v)] = k if k[0] == "bits" else len(k[1])


class DecodeError(Exception):
    pass


def decode_response(data):
    """object headers written by the database: returns (events, statics) where
    events  = [(group, var, index, body bytes, cto or None)]   cto = (sync, ms) of the preceding g51
    statics = [(group, var, index, body)]  body = bytes | ('bits', width, value)
    A g51 CTO header is only legal directly before a g2v3 / g4v3 header."""
    events, statics = [], []
    i = 0
    cto = None
    n = len(data)
    def need(k):
        if i + k > n:
            raise DecodeError("truncated object data at %d" % i)
    while i < n:
        need(3)
        g, v, q = data[i], data[i + 1], data[i + 2]
        i += 3
        if g == 51 and q == 0x07:
            need(7)
            if data[i] != 1 or v not in (1, 2):
                raise DecodeError("bad CTO header")
            cto = (v == 1, int.from_bytes(data[i + 1:i + 7], "little"))
            i += 7
            continue
        if q == 0x28:
            need(2)
            cnt = int.from_bytes(data[i:i + 2], "little"); i += 2
            size = v if g == 111 else EVENT_SIZE.get((g, v))
            if size is None:
                raise DecodeError("unknown event variation g%dv%d" % (g, v))
            if cnt == 0:
                raise DecodeError("event header with count 0")
            uses_cto = (g, v) in ((2, 3), (4, 3))
            if uses_cto and cto is None:
                raise DecodeError("g%dv3 without a preceding CTO" % g)
            for _ in range(cnt):
                need(2 + size)
                idx = int.from_bytes(data[i:i + 2], "little")
                events.append((g, v, idx, bytes(data[i + 2:i + 2 + size]), cto if uses_cto else None))
                i += 2 + size
            continue
        if q == 0x01:
            need(4)
            start = int.from_bytes(data[i:i + 2], "little")
            stop = int.from_bytes(data[i + 2:i + 4], "little")
            i += 4
            if stop < start:
                raise DecodeError("static header with stop < start")
            cnt = stop - start + 1
            size = v if g == 110 else STATIC_SIZE.get((g, v))
            if size is None:
                raise DecodeError("unknown static variation g%dv%d" % (g, v))
            if isinstance(size, tuple):
                width = size[1]
                nbytes = (cnt * width + 7) // 8
                need(nbytes)
                for k in range(cnt):
                    bit = k * width
                    val = (data[i + bit // 8] >> (bit % 8)) & ((1 << width) - 1)
                    statics.append((g, v, start + k, ("bits", width, val)))
                # padding bits must be zero
                used = cnt * width
                if used % 8 and data[i + nbytes - 1] >> (used % 8):
                    raise DecodeError("non-zero padding in a packed octet")
                i += nbytes
            else:
                for k in range(cnt):
                    need(size)
                    statics.append((g, v, start + k, bytes(data[i:i + size])))
                    i += size
            continue
        raise DecodeError("unexpected qualifier 0x%02x for g%dv%d" % (q, g, v))
    return events, statics


# ------------------------------------------------------------------------------------------------
# the ledger

class Ev:
    def __init__(self, eid, t, index, cls, meas, dvar):
        self.id, self.t, self.index, self.cls, self.meas, self.dvar = eid, t, index, cls, meas, dvar
        self.svar = dvar
        self.state = "U"   # U unselected, S selected, W written


class Pt:
    def __init__(self, cls, svar, evar):
        self.cls, self.svar, self.evar = cls, svar, evar
        self.current = None
        self.selected = None


class Ledger:
    def __init__(self, cfg):
        self.cap = {t: int(cfg.get(CFGKEY[t], 0)) for t in TYPES}
        c0 = cfg.get("c0", "11111110")
        self.c0 = {t: c0[i] == "1" for i, t in enumerate(TYPES)}
        self.points = {t: {} for t in TYPES}
        self.events = []          # insertion order
        self.next_id = 0
        self.overflown = False
        self.queue = []           # static selection: [type, start, stop, var or None]
        self.fails = []           # (property, clause, text)
        self.released = set()
        self.discarded = set()
        self.stats = {"events": 0, "overflows": 0, "written": 0, "cleared": 0, "static_objs": 0,
                      "fragments": 0, "partial_fragments": 0, "overflow_of_written": 0}

    def fail(self, prop, clause, text):
        self.fails.append((prop, clause, text))

    # -- helpers ---------------------------------------------------------------------------------
    def count_type(self, t):
        return sum(1 for e in self.events if e.t == t)

    def record_event(self, t, index, meas, obs, what):
        """obs = tokens of the implementation's answer after the op name"""
        pt = self.points[t].get(index)
        if obs[0] == "nopoint":
            if pt is not None:
                self.fail("C03", "update-existing-point", "%s: point %s %d exists but the update said nopoint" % (what, t, index))
            return
        if pt is None:
            self.fail("C03", "update-missing-point", "%s: no point %s %d but the update said %s" % (what, t, index, obs[0]))
            return
        if obs[0] == "noevent":
            return
        created = int(obs[1])
        if pt.cls == 0 or self.cap[t] == 0:
            self.fail("C03", "event-invented", "%s: event %d created for a point without class / a type without buffer" % (what, created))
            return
        if created != self.next_id:
            self.fail("C03", "ids-unique-monotone", "%s: event id %d, expected %d" % (what, created, self.next_id))
        self.next_id = created + 1
        full = self.count_type(t) >= self.cap[t]
        if obs[0] == "overflow":
            disc = int(obs[2])
            oldest = next((e for e in self.events if e.t == t), None)
            if not full:
                self.fail("C03", "overflow-not-needed", "%s: overflow reported with %d/%d events of type %s" % (what, self.count_type(t), self.cap[t], t))
            if oldest is None or oldest.id != disc:
                self.fail("C03", "overflow-discards-oldest-same-type",
                          "%s: discarded id %d, the oldest %s event is %s" % (what, disc, t, oldest.id if oldest else None))
            victim = next((e for e in self.events if e.id == disc), None)
            if victim is not None:
                if victim.state == "W":
                    self.stats["overflow_of_written"] += 1
                self.events.remove(victim)
                self.discarded.add(disc)
            self.overflown = True
            self.stats["overflows"] += 1
        else:
            if full:
                self.fail("C03", "overflow-not-reported", "%s: type %s at capacity %d but no overflow reported (event silently lost or buffer over capacity)" % (what, t, self.cap[t]))
        self.events.append(Ev(created, t, index, pt.cls, meas, pt.evar))
        self.stats["events"] += 1

    # -- ops ---------------------------------------------------------------------------------------
    def op_add(self, op, obs):
        t, index, cls = op[1], int(op[2]), int(op[3])
        exists = index in self.points[t]
        if (obs[0] == "1") == exists:
            self.fail("C11", "add", "add %s %d answered %s, point exists: %s" % (t, index, obs[0], exists))
        if obs[0] == "1":
            sv = 0 if t == "oct" else int(op[4].split("v")[1])
            ev = 0 if t == "oct" else int(op[5].split("v")[1])
            p = Pt(cls, sv, ev)
            p.current = default_meas(t)
            p.selected = default_meas(t)
            self.points[t][index] = p

    def op_rm(self, op, obs):
        t, index = op[1], int(op[2])
        if obs[0] == "1":
            self.points[t].pop(index, None)

    def op_upd(self, op, obs):
        t, index = op[1], int(op[2])
        meas = Meas(parse_val(t, op[3]), int(op[4]), parse_time(op[5]))
        pt = self.points[t].get(index)
        if pt is not None and op[6][1] == "1":
            pt.current = meas
        self.record_event(t, index, meas, obs, " ".join(op))

    def op_updf(self, op, obs):
        t, index = op[1], int(op[2])
        pt = self.points[t].get(index)
        meas = None
        if pt is not None:
            meas = Meas(pt.current.val, int(op[3]), parse_time(op[4]))
            if op[5][1] == "1":
                pt.current = meas
        self.record_event(t, index, meas, obs, " ".join(op))

    def op_get(self, op, obs):
        t, index = op[1], int(op[2])
        pt = self.points[t].get(index)
        if pt is None:
            if obs[0] != "none":
                self.fail("C11", "get", "get %s %d: %s for a missing point" % (t, index, obs))
            return
        exp = [val_tok(t, pt.current.val), "0" if t == "oct" else str(pt.current.flags), "n" if t == "oct" else time_tok(pt.current.time)]
        if obs != exp:
            self.fail("C11", "get", "get %s %d: %s, ledger has %s" % (t, index, obs, exp))

    def select_events(self, match, limit, setvar):
        n = 0
        for e in self.events:
            if limit is not None and n >= limit:
                break
            if e.state == "U" and match(e):
                e.state = "S"
                e.svar = setvar(e)
                n += 1
        return n

    def snapshot(self, t, a, b):
        for i, p in self.points[t].items():
            if a <= i <= b:
                p.selected = p.current

    def select_static(self, t, var, rng, pushed):
        keys = sorted(self.points[t])
        if rng is None:
            if not keys:
                return
            rng = (keys[0], keys[-1])
        self.snapshot(t, rng[0], rng[1])
        if pushed:
            self.queue.append([t, rng[0], rng[1], var])

    def op_sel(self, op, obs):
        g, v, q = int(op[1]), int(op[2]), op[3]
        if obs[0] in ("badreq", "unsupported"):
            return
        iin2 = int(obs[0])
        lim = int(op[4]) if q in ("c8", "c16") else None
        rng = (int(op[4]), int(op[5])) if q in ("r8", "r16") else None
        if g == 60 and v == 1:
            for t in C0_ORDER:
                if self.c0[t]:
                    self.select_static(t, None, None, iin2 == 0)
        elif g == 60:
            cls = v - 1
            self.select_events(lambda e: e.cls == cls, lim, lambda e: e.dvar)
        elif g in TYPE_OF_EGROUP:
            t = TYPE_OF_EGROUP[g]
            self.select_events(lambda e: e.t == t, lim, (lambda e: v) if v else (lambda e: e.dvar))
        elif g in TYPE_OF_SGROUP:
            t = TYPE_OF_SGROUP[g]
            self.select_static(t, v or None, rng, iin2 == 0)

    def op_selm(self, op, obs):
        m = op[1]
        n = self.select_events(lambda e: m[e.cls - 1] == "1", None, lambda e: e.dvar)
        if int(obs[0]) != n:
            self.fail("C03", "offered-until-confirmed", "select of classes %s found %s events, the ledger holds %d unselected ones" % (m, obs[0], n))

    # expected encodings --------------------------------------------------------------------------
    def ev_gv(self, e):
        return (111, len(e.meas.val)) if e.t == "oct" else (EGROUP[e.t], e.svar)

    def ev_uses_cto(self, e):
        return e.t in ("bi", "dbi") and e.svar == 3

    def ev_time(self, e):
        return e.meas.time if e.meas.time is not None else (False, 0)

    def check_events(self, what, budget, events, used_after_events, has_events, complete_flag, events_only):
        """events: decoded event objects. Returns True when every selected event was written."""
        sel = [e for e in self.events if e.state == "S"]
        if len(events) > len(sel):
            extra = events[len(sel)]
            self.fail("C03", "nothing-invented", "%s: %d event objects but only %d selected events; first extra: g%dv%d index %d" % (what, len(events), len(sel), extra[0], extra[1], extra[2]))
        last = None   # (event, cto) of the previous object in this response
        count_in_header = 0
        for k, (g, v, idx, body, cto) in enumerate(events[:len(sel)]):
            e = sel[k]
            ok = True
            if (g, v) != self.ev_gv(e):
                self.fail("C03", "oldest-first-exact-variation", "%s: object %d is g%dv%d, the next selected event (id %d) must be written as g%dv%d"
                          % (what, k, g, v, e.id, self.ev_gv(e)[0], self.ev_gv(e)[1]))
                ok = False
            elif idx != e.index:
                self.fail("C03", "oldest-first-exact-index", "%s: object %d has index %d, the next selected event (id %d) has index %d (written out of order, or wrong event)" % (what, k, idx, e.id, e.index))
                ok = False
            else:
                if self.ev_uses_cto(e):
                    t = self.ev_time(e)
                    rel = t[1] - cto[1]
                    if cto[0] != t[0] or rel < 0 or rel > 65535:
                        self.fail("C03", "exact-time", "%s: event %d time %s cannot be relative to CTO %s" % (what, e.id, t, cto))
                        ok = False
                    else:
                        exp = event_body(e.t, e.svar, e.meas, rel)
                else:
                    exp = event_body(e.t, e.svar, e.meas)
                if ok and exp != body:
                    self.fail("C03", "exact-value-flags-time", "%s: event %d (%s index %d) written as %s, recorded value encodes as %s" % (what, e.id, e.t, e.index, body.hex(), exp.hex()))
            e.state = "W"
            self.stats["written"] += 1
            last = (e, cto)
        n = min(len(events), len(sel))
        if has_events is not None and has_events != (len(events) > 0):
            self.fail("C03", "has-events-flag", "%s: has_events=%s with %d event objects" % (what, has_events, len(events)))
        if n < len(sel):
            # the next selected event must really not fit
            nxt = sel[n]
            body_len = len(event_body(nxt.t, nxt.svar, nxt.meas))
            cont = False
            if n > 0:
                prev, pcto = sel[n - 1], events[n - 1][4]
                run = 0   # objects in the current header
                j = n - 1
                while j >= 0 and (events[j][0], events[j][1]) == (events[n - 1][0], events[n - 1][1]) and events[j][4] == pcto and sel[j].t == prev.t:
                    run += 1; j -= 1
                if prev.t == nxt.t and self.ev_gv(prev) == self.ev_gv(nxt) and run < 65535:
                    if self.ev_uses_cto(nxt):
                        t = self.ev_time(nxt)
                        cont = pcto is not None and pcto[0] == t[0] and 0 <= t[1] - pcto[1] <= 65535
                    else:
                        cont = True
            need = 2 + body_len if cont else (10 if self.ev_uses_cto(nxt) else 0) + 5 + 2 + body_len
            if used_after_events + need <= budget:
                self.fail("C03", "withheld-although-it-fits", "%s: event %d (needs %d octets) was not written although %d of %d octets were free"
                          % (what, nxt.id, need, budget - used_after_events, budget))
            if complete_flag:
                self.fail("C11", "complete-flag", "%s: complete=1 although %d selected events were not written" % (what, len(sel) - n))
            return False
        return True

    def pending_static(self):
        out = []
        for qi, (t, a, b, var) in enumerate(self.queue):
            for i in sorted(self.points[t]):
                if a <= i <= b:
                    p = self.points[t][i]
                    v = promote(t, var if var is not None else p.svar, p.selected)
                    gv = (110, len(p.selected.val)) if t == "oct" else (SGROUP[t], v)
                    out.append((qi, t, i, gv, static_body(t, v, p.selected)))
        return out

    def check_static(self, what, budget, statics, used_before, total_used, complete_flag):
        pend = self.pending_static()
        self.stats["fragments"] += 1
        if len(statics) > len(pend):
            x = statics[len(pend)]
            self.fail("C11", "exactly-once", "%s: %d static objects but only %d selected points are left; first extra: g%dv%d index %d (reported twice or never selected)"
                      % (what, len(statics), len(pend), x[0], x[1], x[2]))
        for k, (g, v, idx, body) in enumerate(statics[:len(pend)]):
            qi, t, i, gv, exp = pend[k]
            if idx != i or TYPE_OF_SGROUP.get(g) != t:
                self.fail("C11", "ascending-exactly-once", "%s: static object %d is g%dv%d index %d, the next selected point is %s %d (skipped, repeated or out of order)" % (what, k, g, v, idx, t, i))
                break
            if (g, v) != gv:
                self.fail("C11", "variation", "%s: point %s %d written as g%dv%d, requested/configured (promoted) variation is g%dv%d" % (what, t, i, g, v, gv[0], gv[1]))
                break
            expb = exp if exp[0] == "bits" else exp[1]
            if body != expb:
                self.fail("C11", "snapshot", "%s: point %s %d written as %s, its value at selection time encodes as %s" % (what, t, i, body, expb))
                break
        n = min(len(statics), len(pend))
        self.stats["static_objs"] += n
        # advance the ledger's queue
        if n == len(pend):
            self.queue = []
        else:
            qi, t, i, gv, exp = pend[n]
            self.queue = [[t, i, self.queue[qi][2], self.queue[qi][3]]] + [list(x) for x in self.queue[qi + 1:]]
            self.stats["partial_fragments"] += 1
            # the next point must really not fit
            cont = False
            if n > 0:
                pqi, pt, pi, pgv, pexp = pend[n - 1]
                cont = pqi == qi and pgv == gv and i == pi + 1
            if cont:
                if exp[0] == "bits":
                    # position inside the current packed octet: objects in this header so far
                    run = 1
                    j = n - 1
                    while j > 0 and pend[j - 1][0] == qi and pend[j - 1][3] == gv and pend[j - 1][2] + 1 == pend[j][2] and j - 1 >= 0 and j - 1 < n:
                        run += 1; j -= 1
                    need = 0 if (run * exp[1]) % 8 else 1
                else:
                    need = len(exp[1])
            else:
                need = 7 + (1 if exp[0] == "bits" else len(exp[1]))
            if total_used + need <= budget:
                self.fail("C11", "withheld-although-it-fits", "%s: point %s %d (needs %d octets) was not written although %d of %d octets were free"
                          % (what, t, i, need, budget - total_used, budget))
        if complete_flag != (n == len(pend)):
            self.fail("C11", "complete-flag", "%s: complete=%d with %d of %d selected points written" % (what, complete_flag, n, len(pend)))

    def op_wr(self, op, obs):
        budget = int(op[1])
        data = b"" if obs[0] == "-" else bytes.fromhex(obs[0])
        has_events, complete = obs[1] == "1", obs[2] == "1"
        what = "wr %d" % budget
        if len(data) > budget:
            self.fail("C11", "budget", "%s: %d octets written" % (what, len(data)))
        try:
            events, statics = decode_response(data)
        except DecodeError as e:
            self.fail("C11", "well-formed", "%s: response objects do not decode: %s" % (what, e))
            return
        # octets used by the event part = everything before the first static header
        ev_used = self.event_part_len(data)
        all_events = self.check_events(what, budget, events, ev_used, has_events, complete, False)
        if not all_events:
            if statics:
                self.fail("C11", "events-before-static", "%s: static data written although selected events are left" % what)
            return
        self.check_static(what, budget, statics, ev_used, len(data), 1 if complete else 0)

    def event_part_len(self, data):
        i = 0
        n = len(data)
        while i + 3 <= n:
            g, v, q = data[i], data[i + 1], data[i + 2]
            if g == 51 and q == 0x07:
                i += 10
            elif q == 0x28:
                cnt = int.from_bytes(data[i + 3:i + 5], "little")
                size = v if g == 111 else EVENT_SIZE.get((g, v), 0)
                i += 5 + cnt * (2 + size)
            else:
                break
        return min(i, n)

    def op_wre(self, op, obs):
        budget = int(op[1])
        data = b"" if obs[0] == "-" else bytes.fromhex(obs[0])
        what = "wre %d" % budget
        try:
            events, statics = decode_response(data)
        except DecodeError as e:
            self.fail("C03", "well-formed", "%s: response objects do not decode: %s" % (what, e))
            return
        if statics:
            self.fail("C03", "nothing-invented", "%s: static objects in an events-only response" % what)
        if int(obs[1]) != len(events):
            self.fail("C03", "count", "%s: reported %s events, wrote %d" % (what, obs[1], len(events)))
        self.check_events(what, budget, events, len(data), None, False, True)

    def op_clr(self, op, obs):
        bar = obs.index("|")
        ids = [] if obs[:bar] == ["-"] else [int(x) for x in obs[:bar]]
        rest = [x for x in obs[bar + 1:] if x != "|"]
        written = [e.id for e in self.events if e.state == "W"]
        if ids != written:
            unwritten = [i for i in ids if i not in written]
            self.fail("C03", "released-only-if-written", "clr released %s, the events written and awaiting confirmation are %s%s"
                      % (ids, written, "; never written: %s" % unwritten if unwritten else ""))
        for i in ids:
            if i in self.released:
                self.fail("C03", "released-once", "event %d released twice" % i)
            if i in self.discarded:
                self.fail("C03", "released-once", "event %d released after it was discarded" % i)
            self.released.add(i)
        self.events = [e for e in self.events if e.id not in ids]
        self.stats["cleared"] += len(ids)
        cls = [sum(1 for e in self.events if e.cls == c) for c in (1, 2, 3)]
        typ = [self.count_type(t) for t in TYPES]
        if [int(x) for x in rest] != cls + typ:
            self.fail("C13", "buffer-state", "clr reports remaining counts %s, the ledger holds classes %s types %s" % (rest, cls, typ))
        if not any(self.cap[t] > 0 and self.count_type(t) >= self.cap[t] for t in TYPES):
            self.overflown = False

    def op_rst(self, op, obs):
        for e in self.events:
            e.state = "U"
        self.queue = []

    def op_iin(self, op, obs):
        exp = "".join("1" if any(e.cls == c and e.state != "W" for e in self.events) else "0" for c in (1, 2, 3))
        if obs[0] != exp:
            self.fail("C13", "class-bits-exact", "class bits %s, the ledger holds unwritten events of classes %s (events: %s)"
                      % (obs[0], exp, [(e.id, e.cls, e.state) for e in self.events]))
        if obs[1] != ("1" if self.overflown else "0"):
            self.fail("C13", "overflow-bit-history", "overflow flag %s, ledger says %d" % (obs[1], self.overflown))


def script_ops(script):
    lines = script.strip().split("\n")
    head = lines[0].split()
    cfg = dict(kv.split("=", 1) for kv in head[3:])
    ops = [l.split() for l in lines[1:-1]]
    return cfg, ops


def replay(script, impl):
    """run the ledger over (op, observation) pairs; returns the ledger"""
    cfg, ops = script_ops(script)
    lg = Ledger(cfg)
    k = 0
    for op in ops:
        if k >= len(impl):
            lg.fail("ALL", "no-panic", "trace ends before op %s" % " ".join(op))
            break
        line = impl[k]
        k += 1
        toks = line.split()
        if toks[0] in ("panic", "harness-died", "missing"):
            lg.fail("ALL", "no-panic", "database panicked at op '%s': %s" % (" ".join(op), line[:160]))
            break
        if toks[0] != op[0]:
            lg.fail("ALL", "no-panic", "observation '%s' does not answer op '%s'" % (line[:80], " ".join(op)))
            break
        getattr(lg, "op_" + op[0])(op, toks[1:])
    return lg


# ------------------------------------------------------------------------------------------------
# generators

F64_POOL = [0x0000000000000000, 0x8000000000000000, 0x3FF0000000000000, 0xBFF0000000000000, 0x4045000000000000,
            0x40DFFFC000000000, 0x40DFFFE000000000, 0x40E0000000000000, 0xC0E0000000000000, 0xC0E0002000000000,
            0x41DFFFFFFFC00000, 0x41E0000000000000, 0xC1E0000000000000, 0xC1E0000000200000,
            0x47EFFFFFE0000000, 0x47EFFFFFF0000000, 0xC7EFFFFFE0000000, 0x7FF0000000000000, 0xFFF0000000000000,
            0x3FB999999999999A, 0x400921FB54442D18, 0xC00599999999999A, 0x36A0000000000000, 0x3690000000000001,
            0x0000000000000001, 0x380FFFFFFFFFFFFF, 0x3FFFFFFFF0000000, 0x3FF0000010000000, 0x3FF0000030000000]


def rand_meas(rng, t):
    if t in ("bi", "bos"):
        val = rng.below(2)
    elif t == "dbi":
        val = rng.below(4)
    elif t in ("ctr", "fctr"):
        val = rng.choice([0, 1, 2, 65535, 65536, 0xFFFFFFFF, rng.below(1 << 32), rng.below(100)])
    elif t in ("ai", "aos"):
        val = rng.choice(F64_POOL) if rng.chance(2, 3) else (rng.next() & 0xFFFFFFFFFFFFFFFF)
        # keep NaN out (only the canonical quiet NaN is modelled, and it is the business of C10)
        if (val >> 52) & 0x7FF == 0x7FF and val & ((1 << 52) - 1):
            val = 0x3FF0000000000000
    else:
        val = rng.bytes(rng.choice([1, 1, 2, 3, 8]))
    flags = rng.choice([1, 1, 1, 0, 2, 0x81, 0x41, 0x21, 0x09, rng.below(256)])
    r = rng.below(10)
    if r == 0:
        time = None
    else:
        # Timestamp::new masks to 48 bits; the scripts stay below 2^48
        base = rng.choice([0, 1000, 65535, 70000, 200000, (1 << 48) - 70001, (1 << 48) - 300])
        time = (rng.chance(3, 4), base + rng.below(70000) if base < (1 << 48) - 300 and rng.chance(3, 4) else base + rng.below(300))
    if t == "oct":
        flags, time = 0, None
    return Meas(val, flags, time)


def upd_op(rng, t, index, meas, mode=None):
    mode = mode or rng.choice(["f1", "f1", "f1", "d1", "d1", "s1", "f0", "d0"])
    return ("upd", t, index, val_tok(t, meas.val), meas.flags, time_tok(meas.time), mode)


class DbWorld:
    """what the generator knows while it builds a script (which points exist)"""
    def __init__(self, rng, types, caps, dense=False, npoints=None):
        self.rng = rng
        self.types = types
        self.cfg = {CFGKEY[t]: caps.get(t, 0) for t in TYPES if caps.get(t, 0)}
        self.points = {t: [] for t in TYPES}
        self.ops = []
        for t in types:
            n = npoints if npoints is not None else rng.range(1, 5)
            if dense:
                base = rng.choice([0, 0, 3, 250, 65530 - n])
                idxs = list(range(base, base + n))
            else:
                pool = list(range(0, 12)) + [254, 255, 256, 257, 1000, 65534, 65535]
                idxs = set()
                while len(idxs) < n:
                    idxs.add(rng.choice(pool))
                idxs = sorted(idxs)
                rng.shuffle(idxs)
            for i in idxs:
                self.add_point(t, i)

    def add_point(self, t, i, cls=None):
        rng = self.rng
        cls = rng.choice([1, 2, 3, 1, 2, 3, 0]) if cls is None else cls
        if t == "oct":
            op = ("add", t, i, cls, "-", "-", "-")
        else:
            sv = rng.choice(SVARS[t])
            ev = rng.choice(EVARS[t])
            db = "-"
            if t in ("ctr", "fctr"):
                db = rng.choice([0, 0, 1, 5])
            elif t in ("ai", "aos"):
                db = "0000000000000000"
            op = ("add", t, i, cls, "g%dv%d" % (SGROUP[t], sv), "g%dv%d" % (EGROUP[t], ev), db)
        self.ops.append(op)
        if i not in self.points[t]:
            self.points[t].append(i)

    def rand_point(self):
        t = self.rng.choice(self.types)
        if not self.points[t] or self.rng.chance(1, 40):
            return t, self.rng.below(20)
        return t, self.rng.choice(self.points[t])

    def update(self, mode=None, t=None):
        if t is None:
            t, i = self.rand_point()
        else:
            i = self.rng.choice(self.points[t]) if self.points[t] else 0
        self.ops.append(upd_op(self.rng, t, i, rand_meas(self.rng, t), mode))

    def sel_event(self):
        rng = self.rng
        r = rng.below(10)
        lim = rng.choice([None, None, None, 0, 1, 2, 3, 300])
        q = ("all",) if lim is None else (("c8", lim) if lim < 256 else ("c16", lim))
        if r < 5:
            self.ops.append(("sel", 60, rng.range(2, 4)) + q)
        elif r < 9:
            t = rng.choice(self.types)
            v = rng.choice([0, 0] + EVARS[t]) if t != "oct" else 0
            self.ops.append(("sel", EGROUP[t], v) + q)
        else:
            self.ops.append(("selm", rng.choice(["111", "100", "010", "001", "110", "011"])))

    def sel_static(self):
        rng = self.rng
        r = rng.below(10)
        if r < 3:
            self.ops.append(("sel", 60, 1, "all"))
            return
        t = rng.choice(self.types)
        v = rng.choice([0, 0] + SVARS[t]) if t != "oct" else 0
        if r < 6 or not self.points[t]:
            self.ops.append(("sel", SGROUP[t], v, "all"))
        else:
            a = rng.choice(self.points[t] + [0])
            b = rng.choice([x for x in self.points[t] if x >= a] + [a, a + rng.below(5), 65535])
            b = min(b, 65535)
            if b < 256 and rng.chance(1, 2):
                self.ops.append(("sel", SGROUP[t], v, "r8", a, b))
            else:
                self.ops.append(("sel", SGROUP[t], v, "r16", a, b))

    def budget(self):
        rng = self.rng
        return rng.choice([0, 1, 4, 5, 7, 8, 9, 10, 11, 12, 13, 15, 17, 18, 20, 24, 25, 30, 33, 40, 50, 64, 100, 245, 2044,
                           rng.below(64), rng.below(300)])


def gen_events_script(rng, sid, focus):
    """event buffer histories: small capacities, mixed classes, selections with limits, adversarial
    budgets, interleaved updates, clears and resets"""
    types = [t for t in TYPES if rng.chance(1, 2)] or ["bi"]
    if focus == "iin" and len(types) > 3:
        types = types[:3]
    caps = {t: rng.choice([1, 1, 2, 2, 3, 4, 5, 0 if rng.chance(1, 6) else 2]) for t in types}
    w = DbWorld(rng, types, caps)
    nops = rng.range(8, 45)
    for _ in range(nops):
        r = rng.below(100)
        if r < 40:
            w.update()
        elif r < 55:
            w.sel_event()
        elif r < 70:
            w.ops.append((rng.choice(["wr", "wr", "wre"]), w.budget()))
        elif r < 78:
            w.ops.append(("clr",))
        elif r < 84:
            w.ops.append(("rst",))
        elif r < 96:
            w.ops.append(("iin",))
        elif r < 98:
            t, i = w.rand_point()
            if t != "oct":
                w.ops.append(("updf", t, i, rng.choice([1, 0, 2, 0x41]), time_tok(rand_meas(rng, t).time), rng.choice(["f1", "d1"])))
        elif r < 99:
            t, i = w.rand_point()
            w.ops.append(("get", t, i))
        else:
            # points come and go; buffered events of a removed point are still reported
            t, i = w.rand_point()
            if rng.chance(1, 2):
                w.ops.append(("rm", t, i))
                if i in w.points[t]:
                    w.points[t].remove(i)
            else:
                w.add_point(t, rng.below(12))
    # final sweep: everything unreleased must still be offered and be written oldest first
    w.ops += [("rst",), ("iin",), ("selm", "111"), ("wre", 60000), ("iin",), ("clr",), ("iin",)]
    return w


def gen_unsol_script(rng, sid):
    """the unsolicited pattern: reset, select classes, write events only, then confirm / no confirm,
    with overflows striking events that are written and awaiting confirmation"""
    types = rng.choice([["bi"], ["bi", "ai"], ["ctr", "bi"], ["ai"], ["bos", "ctr", "ai"], ["dbi", "fctr"], ["oct", "bi"], ["aos"]])
    caps = {t: rng.choice([1, 1, 2, 3]) for t in types}
    w = DbWorld(rng, types, caps)
    for _ in range(rng.range(3, 9)):
        for _ in range(rng.range(1, 4)):
            w.update(mode="f1")
        w.ops += [("rst",), ("selm", rng.choice(["111", "111", "100", "010", "011"])), ("wre", w.budget()), ("iin",)]
        for _ in range(rng.range(0, 3)):
            w.update(mode="f1")     # overflow may discard a Written event here
            w.ops.append(("iin",))
        r = rng.below(3)
        if r == 0:
            w.ops += [("clr",), ("iin",)]
        elif r == 1:
            w.ops += [("rst",), ("iin",)]
    w.ops += [("rst",), ("selm", "111"), ("wre", 60000), ("clr",), ("iin",)]
    return w


def gen_static_script(rng, sid):
    """READ series: selections (class 0, all objects, ranges, specific variations), then a series of
    writes with adversarial budgets and updates in between"""
    types = [t for t in TYPES if rng.chance(2, 5)] or ["bi", "ai"]
    dense = rng.chance(1, 2)
    caps = {t: rng.choice([0, 0, 2, 5]) for t in types}
    w = DbWorld(rng, types, caps, dense=dense, npoints=rng.choice([None, 1, 3, 9, 12, 20]) if dense else None)
    # initial values
    for t in types:
        for i in w.points[t]:
            if rng.chance(3, 4):
                w.ops.append(upd_op(rng, t, i, rand_meas(rng, t), rng.choice(["s1", "s1", "f1", "d1"])))
    for _ in range(rng.range(1, 3)):
        if rng.chance(1, 4):
            w.sel_event()
        for _ in range(rng.range(1, 4)):
            w.sel_static()
        # fits-empty: the largest object + header is at most 7 + 255; budgets below that may stall,
        # which is legal (F11): the series loop is bounded
        style = rng.below(4)
        for k in range(rng.range(1, 14)):
            if style == 0:
                b = rng.choice([2044, 245, 100])
            elif style == 1:
                b = rng.choice([16, 17, 18, 19, 20, 21, 24])
            elif style == 2:
                b = w.budget()
            else:
                b = rng.choice([8, 9, 10, 11, 12, 13, 14, 15])
            w.ops.append(("wr", b))
            if rng.chance(1, 2):
                for _ in range(rng.range(1, 3)):
                    w.update(mode=rng.choice(["s1", "f1", "d1", "s0"]))
            if rng.chance(1, 6):
                w.ops.append(("clr",))
            if rng.chance(1, 25):
                # a point added or removed while a series is in progress
                t, i = w.rand_point()
                if rng.chance(1, 2):
                    w.ops.append(("rm", t, i))
                    if i in w.points[t]:
                        w.points[t].remove(i)
                else:
                    w.add_point(t, rng.below(12))
        w.ops += [("wr", 60000)]
        if rng.chance(1, 2):
            w.ops.append(("rst",))
    return w


def world_script(sid, w):
    head = "S %s db %s" % (sid, " ".join("%s=%s" % kv for kv in sorted(w.cfg.items())))
    return "\n".join([head.rstrip()] + [" ".join(str(x) for x in op) for op in w.ops] + ["E"])
