"""C09 — What one side encodes, the other side's parser decodes to the same objects."""
import hashlib
from propcheck import *
import dnp_objects as D

COUNTS = [0, 1, 2, 255, 256, 65535]
BIG = 300          # more objects than this: the listing is compressed and the fragment is "big"
UNKNOWN_QUALS = [0x02, 0x05, 0x09, 0x18, 0x29, 0x5A, 0xFF]
ATTR_VARS = [1, 196, 211, 252, 255]
OCTET_VARS = [0, 1, 4, 255]


def fast_bytes(rng, n):
    """n pseudo-random bytes derived from the rng state (cheap for the megabyte payloads)"""
    if n <= 64:
        return rng.bytes(n)
    return hashlib.shake_128(rng.next().to_bytes(8, "little")).digest(n)


def universe():
    """every (group, variation) the object table knows, with representatives of the free-variation groups,
    plus a few unknown ones"""
    u = list(D.NAMED)
    u += [(D.ATTR, v) for v in ATTR_VARS] + [(D.OCTET_STATIC, v) for v in OCTET_VARS] + [(D.OCTET_EVENT, v) for v in OCTET_VARS]
    u += [(0, 0), (1, 3), (5, 1), (12, 2), (60, 0), (70, 1), (70, 9), (112, 1), (255, 255)]
    return u


class Header:
    """one encoded object header with the ground truth of what it contains"""
    def __init__(self, data, lines, opaque=False):
        self.data = data        # bytes
        self.lines = lines      # canonical listing lines
        self.opaque = opaque


ATTR_INT_BOUNDS = [0, 1, -1, -2, 126, 127, 128, 129, -126, -127, -128, -129, 255, 256, 32766, 32767, 32768, 32769,
                   -32766, -32767, -32768, -32769, 65535, 65536, 2147483647, -2147483647, -2147483648]
ATTR_UINT_BOUNDS = [0, 1, 127, 128, 255, 256, 32767, 32768, 65535, 65536, 2147483647, 2147483648, 4294967295]


def attr_value(rng):
    """(encoding, canonical text) of a device attribute value"""
    t = rng.choice([1, 2, 3, 4, 5, 6, 7, 254, 255])
    if t == 1:
        s = rng.choice([b"", b"HELLO", "grüß".encode(), "€1".encode(), "\U0001F600".encode(),
                        bytes(rng.range(0x20, 0x7E) for _ in range(rng.range(1, 40)))])
        return bytes([t, len(s)]) + s, "vstr " + D.hexs(s)
    if t == 2:
        n = rng.choice([1, 2, 4]); x = rng.below(1 << (8 * n))
        return bytes([t, n]) + D.le(x, n), "uint %d" % x
    if t == 3:
        n = rng.choice([1, 2, 4]); x = rng.below(1 << (8 * n))
        # two's complement of n bytes, shown as the u32 pattern of the sign-extended value
        shown = x if x < (1 << (8 * n - 1)) else x + (1 << 32) - (1 << (8 * n))
        return bytes([t, n]) + D.le(x, n), "int %d" % shown
    if t == 4:
        n = rng.choice([4, 8]); x = rng.below(1 << (8 * n))
        return bytes([t, n]) + D.le(x, n), "f%d %d" % (8 * n, x)
    if t in (5, 6):
        s = rng.bytes(rng.choice([0, 1, 7, 255]))
        return bytes([t, len(s)]) + s, ("ostr " if t == 5 else "bstr ") + D.hexs(s)
    if t == 7:
        x = rng.below(1 << 48)
        return bytes([t, 6]) + D.le(x, 6), "time %d" % x
    if t == 254:
        n = rng.choice([0, 1, 5, 127])
        s = rng.bytes(2 * n)
        shown = bytes(b if i % 2 == 0 else b & 1 for i, b in enumerate(s))
        return bytes([t, 2 * n]) + s, "list " + D.hexs(shown)
    n = rng.choice([128, 130, 200])
    s = rng.bytes(2 * n)
    shown = bytes(b if i % 2 == 0 else b & 1 for i, b in enumerate(s))
    return bytes([t, 2 * n - 256]) + s, "list " + D.hexs(shown)


def utf8_string(rng):
    return rng.choice([b"", b"a", b"file.txt", "été".encode(), "日本".encode(),
                       bytes(rng.range(0x20, 0x7E) for _ in range(rng.range(1, 30)))])


def free_object(rng, v):
    """(body, canonical text) of a g70 object"""
    if v == 2:
        u, p = utf8_string(rng), utf8_string(rng)
        body = D.le(12, 2) + D.le(len(u), 2) + D.le(12 + len(u), 2) + D.le(len(p), 2) + rng.bytes(4) + u + p
        return body, "f 2 %d %d" % (len(u), len(p))
    if v == 3:
        n = utf8_string(rng)
        return D.le(26, 2) + D.le(len(n), 2) + rng.bytes(22) + n, "f 3 %d" % len(n)
    if v == 4:
        t = utf8_string(rng)
        return rng.bytes(13) + t, "f 4 %d" % len(t)
    if v == 5:
        d = rng.bytes(rng.choice([0, 1, 100]))
        return rng.bytes(8) + d, "f 5 %d" % len(d)
    if v == 6:
        t = utf8_string(rng)
        return rng.bytes(9) + t, "f 6 %d" % len(t)
    if v == 7:
        n = utf8_string(rng)
        return D.le(20, 2) + D.le(len(n), 2) + rng.bytes(16) + n, "f 7 %d" % len(n)
    s = utf8_string(rng)
    return s, "f 8 %d" % len(s)



# ---- free-format file objects g70v2 .. g70v8 as the WRITERS must produce them ------------------------------
# independent of the library and of the Coq model: the layouts of IEEE 1815 (A.27): offsets and sizes are 16-bit
# little-endian, sizes count OCTETS of the UTF-8 strings, the strings follow the fixed-size fields.
FREE_FIELDS = {      # (name, width in octets) of the numeric fields in the order of the `free` header
    2: [("auth_key", 4)],
    3: [("time", 6), ("permissions", 2), ("auth_key", 4), ("file_size", 4), ("mode", 2), ("max_block_size", 2), ("request_id", 2)],
    4: [("file_handle", 4), ("file_size", 4), ("max_block_size", 2), ("request_id", 2), ("status", 1)],
    5: [("file_handle", 4), ("block_number", 4)],
    6: [("file_handle", 4), ("block_number", 4), ("status", 1)],
    7: [("file_type", 2), ("file_size", 4), ("time", 6), ("permissions", 2), ("request_id", 2)],
    8: [],
}
FREE_STRINGS = {2: 2, 3: 1, 4: 1, 5: 1, 6: 1, 7: 1, 8: 1}      # number of trailing strings / data fields
FREE_NAME_OFFSET = {2: 12, 3: 26, 7: 20}
U16 = 65535


def free_steps(v, nums, strs):
    """the writes of one object in wire order: ('b', octets) or ('c', bool) = a value that must fit 16 bits
    at that point (a size, the offset of the password)"""
    n = dict(zip([f for f, _ in FREE_FIELDS[v]], nums))
    w = dict(FREE_FIELDS[v])
    fld = lambda name: ('b', D.le(n[name], w[name]))
    if v == 2:
        u, p = strs
        return [('b', D.le(12, 2)), ('c', len(u) <= U16), ('b', D.le(len(u) & U16, 2)),
                ('c', 12 + len(u) <= U16), ('b', D.le((12 + len(u)) & U16, 2)),
                ('c', len(p) <= U16), ('b', D.le(len(p) & U16, 2)), fld("auth_key"), ('b', u), ('b', p)]
    if v in (3, 7):
        name = strs[0]
        return [('b', D.le(FREE_NAME_OFFSET[v], 2)), ('c', len(name) <= U16), ('b', D.le(len(name) & U16, 2))] \
            + [fld(f) for f, _ in FREE_FIELDS[v]] + [('b', name)]
    return [fld(f) for f, _ in FREE_FIELDS[v]] + [('b', strs[0])]


def free_request(cap, seq, fc, objs):
    """what start_request + write_free_format of the objects must leave in a buffer of `cap` octets:
    ('bytes', data) or ('err', token)"""
    out = bytearray()

    def put(b):
        if len(out) + len(b) > cap:
            return False
        out.extend(b); return True
    for b in (bytes([D.control(True, True, False, False, seq)]), bytes([fc])):
        if not put(b): return ('err', 'write-overflow')
    for (v, nums, strs) in objs:
        for b in (bytes([70]), bytes([v]), bytes([D.Q_FREE]), bytes([1])):
            if not put(b): return ('err', 'write-overflow')
        if len(out) + 2 > cap:
            return ('err', 'bad-seek')
        at = len(out)
        out.extend(b"\0\0")
        for kind, x in free_steps(v, nums, strs):
            if kind == 'c':
                if not x: return ('err', 'numeric-overflow')
            elif not put(x):
                return ('err', 'write-overflow')
        n = len(out) - at - 2
        if n > U16:
            return ('err', 'numeric-overflow')
        out[at:at + 2] = D.le(n, 2)
    return ('bytes', bytes(out))


CHARS = ["a", "Z", "0", ".", "_", " ", "é", "ñ", "ß", "Ω", "日", "€", "✓", "\u0800", "\uffff", "\U0001F600", "\U0001D11E", "\U0010FFFF"]


def free_string(rng):
    """UTF-8 octets of a file name / user name / password: ASCII, 2-, 3- and 4-octet characters, empty"""
    c = rng.below(10)
    if c == 0:
        return b""
    if c <= 2:
        return bytes(rng.range(0x20, 0x7E) for _ in range(rng.range(1, 30)))
    if c == 3:
        return rng.choice(["données.csv", "grüße.txt", "日本語/ファイル", "пароль", "🔑", "a\u00e9\u20ac\U0001F600"]).encode()
    if c == 4:     # only characters of one width
        ch = rng.choice(["é", "€", "\U0001F600"])
        return (ch * rng.range(1, 12)).encode()
    return "".join(rng.choice(CHARS) for _ in range(rng.range(1, 24))).encode()


def free_numbers(rng, v):
    out = []
    for name, w in FREE_FIELDS[v]:
        top = (1 << (8 * w)) - 1
        if name == "permissions": top = 511
        out.append(rng.choice([0, 1, top, rng.below(top + 1), rng.below(top + 1)]))
    return out


def valid_header(rng, fc, g, v, q, start, count, zls):
    """independent encoding of one header that the library must accept, or None when the combination of
    object, qualifier, function and count is not a supported one"""
    k = D.kind(fc, q, g, v)
    if k is None:
        return None
    psize = {D.Q_PREFIX8: 1, D.Q_PREFIX16: 2}.get(q, 0)
    if q == D.Q_ALL:
        return Header(D.header_prefix(g, v, q), ["h %d %d %d" % (g, v, q)] + D.listing([]))
    if q == D.Q_FREE:
        body, text = free_object(rng, v)
        return Header(D.header_prefix(g, v, q, 1, len(body)) + body, ["h %d %d %d 1" % (g, v, q), text], opaque=True)
    if q in (D.Q_RANGE8, D.Q_RANGE16):
        limit = 255 if q == D.Q_RANGE8 else 65535
        if count < 1 or start + count - 1 > limit:
            return None
        stop = start + count - 1
        head = D.header_prefix(g, v, q, start, stop)
        hline = "h %d %d %d %d %d" % (g, v, q, start, stop)
        idx = lambda i: start + i
    else:
        limit = 255 if q in (D.Q_COUNT8, D.Q_PREFIX8) else 65535
        if count > limit:
            return None
        head = D.header_prefix(g, v, q, count)
        hline = "h %d %d %d %d" % (g, v, q, count)
        idx = None
    if k == 'none':
        return Header(head, [hline] + D.listing([]))
    if k == 'attr':
        if count != 1:
            return None
        enc, text = attr_value(rng)
        if psize:
            s = rng.below(256)
            return Header(head + D.le(s, psize) + enc, [hline, "a %d %d %s" % (s, v, text)], opaque=True)
        if start > 255:
            return None
        return Header(head + enc, [hline, "a %d %d %s" % (start, v, text)], opaque=True)
    if k in ('bits', 'dbits'):
        w = 1 if k == 'bits' else 2
        raw = fast_bytes(rng, D.demand(k, count))
        per = 8 // w
        vals = [(raw[i // per] >> (w * (i % per))) & ((1 << w) - 1) for i in range(count)]
        data = D.pack_bits(vals, w)
        return Header(head + data, [hline] + D.listing([(idx(i), bytes([x])) for i, x in enumerate(vals)]))
    size = k[1]
    if k[0] == 'octets' and size == 0 and not zls:
        return None
    raw = fast_bytes(rng, (size + psize) * count)
    if rng.chance(1, 6) and len(raw) <= 4096:
        raw = bytes([rng.choice([0x00, 0xFF, 0x7F, 0x80])]) * len(raw)
    objs = []
    step = size + psize
    for i in range(count):
        chunk = raw[i * step:(i + 1) * step]
        if psize:
            objs.append((int.from_bytes(chunk[:psize], "little"), chunk[psize:]))
        else:
            objs.append((idx(i) if idx else None, chunk))
    return Header(head + raw, [hline] + D.listing(objs))


def header_lines(ctrl, fc, iin, mode):
    fir, fin, con, uns, seq = bool(ctrl & 0x80), bool(ctrl & 0x40), bool(ctrl & 0x20), bool(ctrl & 0x10), ctrl & 0x0F
    has_iin = fc in (D.FC_RESPONSE, D.FC_UNSOL)
    l1 = "frag %d %d%d%d%d %d %s" % (fc, fir, fin, con, uns, seq, ("%d %d" % tuple(iin)) if has_iin else "-")
    if mode == "req":
        if has_iin: l2 = "req err unexpected-function"
        elif not (fir and fin): l2 = "req err non-fir-fin"
        elif uns and fc != D.FC_CONFIRM: l2 = "req err unexpected-uns"
        else: l2 = "req ok"
    else:
        if not has_iin: l2 = "resp err unexpected-function"
        elif fc == D.FC_RESPONSE and uns: l2 = "resp err sol-with-uns"
        elif fc == D.FC_UNSOL and not uns: l2 = "resp err unsol-without-uns"
        elif fc == D.FC_UNSOL and not (fir and fin): l2 = "resp err unsol-without-firfin"
        else: l2 = "resp ok"
    return [l1, l2]


def blocks_of(trace):
    """split a trace into the blocks of its ops (each ends with `end`)"""
    out, cur = [], []
    for l in trace:
        cur.append(l)
        if l == "end":
            out.append(cur); cur = []
    if cur:
        out.append(cur)
    return out


def reencode(block, data):
    """walk an accepted listing with the independent object table: returns a description of the first
    disagreement between the listing and the bytes that were parsed, or None.  Compressed or opaque
    (attribute, free-format) headers are checked for their length only / skipped."""
    if not block or not block[0].startswith("frag "):
        return None
    t = block[0].split()
    fc = int(t[1])
    pos = 4 if fc in (D.FC_RESPONSE, D.FC_UNSOL) else 2
    i = 2
    while i < len(block) and block[i] != "end":
        t = block[i].split()
        if t[0] != "h":
            return "unexpected line %r" % block[i]
        g, v, q = int(t[1]), int(t[2]), int(t[3])
        k = D.kind(fc, q, g, v)
        if k is None:
            return "accepted g%dv%d with qualifier 0x%02x (function %d): not a supported combination" % (g, v, q, fc)
        args = [int(x) for x in t[4:]]
        psize = {D.Q_PREFIX8: 1, D.Q_PREFIX16: 2}.get(q, 0)
        if q in (D.Q_RANGE8, D.Q_RANGE16):
            if args[1] < args[0]:
                return "accepted the range %d..%d" % (args[0], args[1])
            count = args[1] - args[0] + 1
            head = D.header_prefix(g, v, q, args[0], args[1])
        elif q == D.Q_ALL:
            count, head = 0, D.header_prefix(g, v, q)
        elif q == D.Q_FREE:
            return None      # opaque: stop here
        else:
            count, head = args[0], D.header_prefix(g, v, q, args[0])
        if data[pos:pos + len(head)] != head:
            return "header g%dv%d q=0x%02x %s is not what the bytes at offset %d say" % (g, v, q, args, pos)
        pos += len(head)
        i += 1
        if k in ('attr', 'free'):
            return None
        if not block[i].startswith("n "):
            return "missing object count"
        n = int(block[i].split()[1])
        want = 0 if k == 'none' else count
        if n != want:
            return "g%dv%d q=0x%02x: %d objects iterated, header declares %d" % (g, v, q, n, want)
        i += 1
        objs = []
        while i < len(block) and block[i].startswith("o "):
            t = block[i].split()
            objs.append((None if t[1] == "-" else int(t[1]), b"" if t[2] == "-" else bytes.fromhex(t[2])))
            i += 1
        compressed = i < len(block) and block[i].startswith("sum ")
        if compressed:
            i += 1
        need = D.demand(k, count, psize)
        if pos + need > len(data):
            return "g%dv%d: %d octets of object data declared, %d present" % (g, v, need, len(data) - pos)
        if not compressed and k != 'none':
            body = data[pos:pos + need]
            if k in ('bits', 'dbits'):
                w = 1 if k == 'bits' else 2
                per = 8 // w
                for j, (idx, val) in enumerate(objs):
                    if idx != args[0] + j or val != bytes([(body[j // per] >> (w * (j % per))) & ((1 << w) - 1)]):
                        return "g%dv%d: object %d listed as (%s, %s)" % (g, v, j, idx, val.hex())
            else:
                step = k[1] + psize
                for j, (idx, val) in enumerate(objs):
                    chunk = body[j * step:(j + 1) * step]
                    want_idx = int.from_bytes(chunk[:psize], "little") if psize else (args[0] + j if q in (D.Q_RANGE8, D.Q_RANGE16) else None)
                    if idx != want_idx or val != chunk[psize:]:
                        return "g%dv%d: object %d listed as (%s, %s), encoded as (%s, %s)" % (g, v, j, idx, val.hex(), want_idx, chunk[psize:].hex())
        pos += need
    if pos != len(data):
        return "accepted with %d of %d octets accounted for" % (pos, len(data))
    return None


class C09(Prop):
    id = "C09"
    translators = ["gen_variations", "gen_qualifiers", "gen_functions"]
    proof_targets = ["App/GrammarProofs.vo", "App/WritersProofs.vo"]
    property_file = "Properties/C09.v"
    theorems = []
    modelled = ("modelled by hand: the generic object-header walker and iterators of app/parse/*.rs, AttrValue::parse "
                "and the g70 readers as far as lengths/offsets/UTF-8 (App/Grammar.v), ControlField/Iin/header validation "
                "(App/AppHeader.v), HeaderWriter as used by master/request.rs, the writers of g70v2..v8 and "
                "write_free_format (App/Writers.v); regenerated from source: "
                "Variation::lookup, SIZE and read/write field lists of the 98 fixed-size variations, the "
                "variation->data-kind table of every qualifier family, qualifier and function codes, control masks. "
                "RangeWriter/EventWriter output is covered by C10/C11 engines, not here.")
    rule = ("fragments built by an independent encoder (tools/dnp_objects.py: object sizes of the standard, support matrix "
            "cross-checked by hand against the generated tables): product of every known group/variation x every qualifier "
            "(and unknown ones) x counts {0,1,2,255,256,65535 / ranges ending at 255 and 65535} x READ/non-READ, random "
            "object values; multi-header fragments; all function codes x control bits; device attributes and free-format "
            "file objects; truncation at every octet, extension by one octet, one flipped bit, wrong qualifier; request "
            "builders (class scans, ranges, counts, prefixed commands) re-parsed; the free-format file objects g70v2..v8 "
            "written through write_free_format with ASCII / 2-, 3-, 4-octet-character / empty / limit-length strings and "
            "small buffers, compared with an independent encoder and re-parsed.  A script is non-trivial when the "
            "implementation listed a header or reported an error; distinct = distinct trace")

    # ---- single fragments ---------------------------------------------------------------------------
    def fragment(self, rng, fc, headers, mode=None, ctrl=None, iin=None):
        """(bytes, expected listing lines, parse mode) of a fragment made of valid Header objects"""
        if mode is None:
            mode = "resp" if fc in (D.FC_RESPONSE, D.FC_UNSOL) else "req"
        if ctrl is None:
            ctrl = D.control(True, True, rng.chance(1, 4) and fc in (D.FC_RESPONSE, D.FC_UNSOL), fc == D.FC_UNSOL, rng.below(16))
        if iin is None:
            iin = [rng.below(256), rng.below(256)]
        data = D.app_header(ctrl, fc, iin) + b"".join(h.data for h in headers)
        lines = header_lines(ctrl, fc, iin, mode)
        for h in headers:
            lines += h.lines
        return data, lines + ["end"], mode

    def product_specs(self):
        """the full product variation x qualifier x count x READ/non-READ as cheap tuples"""
        specs = []
        for (g, v) in universe():
            for q in D.QUALIFIERS + UNKNOWN_QUALS:
                for read in (True, False):
                    if q in (D.Q_ALL,) or q in UNKNOWN_QUALS:
                        specs.append((g, v, q, read, 0, 0)); continue
                    if q == D.Q_FREE:
                        specs.append((g, v, q, read, 0, 1)); continue
                    if q in (D.Q_RANGE8, D.Q_RANGE16):
                        top = 255 if q == D.Q_RANGE8 else 65535
                        for c in COUNTS + [65536]:
                            if c == 0 or c > top + 1: continue
                            specs.append((g, v, q, read, 0, c))                 # range starting at 0
                            if c <= top: specs.append((g, v, q, read, top - c + 1, c))  # range ending at the top index
                        continue
                    top = 255 if q in (D.Q_COUNT8, D.Q_PREFIX8) else 65535
                    for c in COUNTS:
                        if c <= top: specs.append((g, v, q, read, 0, c))
        return specs

    def product_case(self, rng, sid, spec, force_zls=None):
        g, v, q, read, start, count = spec
        fc = D.FC_READ if read else rng.choice([D.FC_RESPONSE, D.FC_RESPONSE, D.FC_UNSOL, D.FC_WRITE, D.FC_SELECT, D.FC_OPERATE, D.FC_DIRECT, 22, 7])
        zls = 1 if (g in (110, 111) and v == 0 and rng.chance(1, 2)) else 0
        if force_zls is not None:
            zls = force_zls
            fc = rng.choice([D.FC_RESPONSE, D.FC_UNSOL])
        h = valid_header(rng, fc, g, v, q, start, count, zls) if q in D.QUALIFIERS else None
        if h is not None:
            data, lines, mode = self.fragment(rng, fc, [h])
            meta = {"kind": "product-valid", "ops": [{"expect": "valid", "lines": lines}], "big": count > BIG}
        else:
            # the combination is not a supported one: encode it the way it would look and demand rejection
            psize = {D.Q_PREFIX8: 1, D.Q_PREFIX16: 2}.get(q, 0)
            if q in (D.Q_RANGE8, D.Q_RANGE16):
                head = D.header_prefix(g, v, q, start, start + count - 1)
            elif q in (D.Q_COUNT8, D.Q_COUNT16, D.Q_PREFIX8, D.Q_PREFIX16):
                head = D.header_prefix(g, v, q, count)
            elif q == D.Q_FREE:
                head = D.header_prefix(g, v, q, 1, 4) + rng.bytes(4)
            else:
                head = bytes([g, v, q])
            size = D.FIXED.get((g, v), 1)
            body = fast_bytes(rng, min((size + psize) * count, 70000)) if q not in (D.Q_ALL, D.Q_FREE) and q in D.QUALIFIERS else b""
            mode = "resp" if fc in (D.FC_RESPONSE, D.FC_UNSOL) else "req"
            ctrl = D.control(True, True, False, fc == D.FC_UNSOL, rng.below(16))
            data = D.app_header(ctrl, fc, [0, 0]) + head + body
            # an octet string of length zero without the option, a count != 1 attribute ... are "unsupported" too
            meta = {"kind": "product-invalid", "ops": [{"expect": "reject"}], "big": False}
        return Case(sid, script_text(sid, "app", {"zls": zls}, [("parse", mode, hexs(data))]), meta)

    # ---- derived, malformed -----------------------------------------------------------------------------
    def small_fragment(self, rng, nheaders=None, allow_opaque=True):
        """a valid fragment of a few small headers; returns (data, lines, mode, boundaries, zls)"""
        fc = rng.choice([D.FC_READ, D.FC_RESPONSE, D.FC_RESPONSE, D.FC_UNSOL, D.FC_WRITE, D.FC_OPERATE, D.FC_DIRECT, 22])
        uni = universe()
        hs = []
        n = nheaders or rng.range(1, 4)
        tries = 0
        while len(hs) < n and tries < 400:
            tries += 1
            g, v = rng.choice(uni)
            q = rng.choice(D.QUALIFIERS)
            count = rng.choice([1, 1, 2, 3, 7, 8, 9, 17])
            start = rng.choice([0, 0, 1, 5, 200, 65000, 65535 - count + 1])
            if q == D.Q_RANGE8: start = min(start, 255 - count + 1)
            h = valid_header(rng, fc, g, v, q, start, count, 0)
            if h is None or (h.opaque and not allow_opaque):
                continue
            hs.append(h)
        data, lines, mode = self.fragment(rng, fc, hs)
        hl = 4 if fc in (D.FC_RESPONSE, D.FC_UNSOL) else 2
        bounds = [hl]
        for h in hs:
            bounds.append(bounds[-1] + len(h.data))
        return data, lines, mode, bounds, hs, fc

    def truncated_lines(self, lines, hs, k):
        """expected listing when only the first k headers remain"""
        out = lines[:2]
        for h in hs[:k]:
            out += h.lines
        return out + ["end"]

    def cases(self, rng, tier):
        quick = tier == "quick"
        out = []
        n = [0]

        def sid():
            n[0] += 1
            return "c09_%d" % n[0]

        # 1. the product
        specs = self.product_specs()
        if quick:
            small = [s for s in specs if s[5] <= BIG]
            big = [s for s in specs if s[5] > BIG]
            rng.shuffle(small); rng.shuffle(big)
            # prefer big specs that are supported combinations (they carry the megabyte payloads)
            big_valid = [s for s in big if s[2] in D.QUALIFIERS and D.kind(D.FC_READ if s[3] else D.FC_RESPONSE, s[2], s[0], s[1]) is not None]
            chosen = small[:330] + big_valid[:14] + [s for s in big if s not in big_valid][:6]
            # every valid small combination family at least a few times: ranges ending at the top index
            chosen += [s for s in small[330:] if s[4] > 0 and s[2] in (D.Q_RANGE8, D.Q_RANGE16)
                       and D.kind(D.FC_RESPONSE, s[2], s[0], s[1]) is not None][:40]
        else:
            chosen = specs
        for spec in chosen:
            out.append(self.product_case(rng, sid(), spec))
        # 1b. zero-length octet strings (g110v0 / g111v0) with the parse option ON, more than one object per header:
        #     the objects carry no octets, only their positions tell them apart (seeded change R5_n: the ranged
        #     iterator advanced its index only while octets were left)
        for (g, q) in ((110, D.Q_RANGE8), (110, D.Q_RANGE16), (111, D.Q_PREFIX8), (111, D.Q_PREFIX16)):
            for (start, count) in ((0, 1), (0, 2), (2, 3), (250, 6) if q != D.Q_RANGE16 else (65530, 6), (7, 40)):
                out.append(self.product_case(rng, sid(), (g, 0, q, False, start, count), force_zls=1))
                out.append(self.product_case(rng, sid(), (g, 0, q, False, start, count), force_zls=0))

        # 2. multi-header fragments
        for _ in range(60 if quick else 1500):
            data, lines, mode, bounds, hs, fc = self.small_fragment(rng, rng.range(2, 6))
            s = sid()
            out.append(Case(s, script_text(s, "app", {}, [("parse", mode, hexs(data))]),
                            {"kind": "multi", "ops": [{"expect": "valid", "lines": lines}]}))

        # 3. application header: every function code (and unknown ones) x control bits x direction
        for _ in range(40 if quick else 600):
            fc = rng.choice(D.FUNCTIONS + D.FUNCTIONS + [31, 32, 70, 128, 131, 255])
            ctrl = rng.below(256)
            iin = [rng.below(256), rng.below(256)]
            mode = rng.choice(["req", "resp"])
            ops, metas = [], []
            if fc in D.FUNCTIONS:
                h = valid_header(rng, fc, 60, rng.range(1, 4), D.Q_ALL, 0, 0, 0)
                hs = [h] if rng.chance(1, 2) else []
                data, lines, _ = self.fragment(rng, fc, hs, mode=mode, ctrl=ctrl, iin=iin)
                ops.append(("parse", mode, hexs(data))); metas.append({"expect": "valid", "lines": lines})
                hl = 4 if fc in (D.FC_RESPONSE, D.FC_UNSOL) else 2
                for cut in range(hl):
                    ops.append(("parse", mode, hexs(data[:cut]))); metas.append({"expect": "valid", "lines": ["hdr-err insufficient", "end"]})
            else:
                data = bytes([ctrl, fc]) + rng.bytes(rng.below(6))
                ops.append(("parse", mode, hexs(data)))
                metas.append({"expect": "valid", "lines": ["hdr-err unknown-function %d %d" % (ctrl & 0x0F, fc), "end"]})
            s = sid()
            out.append(Case(s, script_text(s, "app", {}, ops), {"kind": "header", "ops": metas}))

        # 4. truncation at every octet, extension by one octet
        for _ in range(50 if quick else 1200):
            data, lines, mode, bounds, hs, fc = self.small_fragment(rng)
            if len(data) > 90:
                continue
            ops, metas = [], []
            for cut in range(bounds[0], len(data)):
                ops.append(("parse", mode, hexs(data[:cut])))
                if cut in bounds:
                    metas.append({"expect": "valid", "lines": self.truncated_lines(lines, hs, bounds.index(cut))})
                else:
                    metas.append({"expect": "reject"})
            ops.append(("parse", mode, hexs(data + bytes([rng.below(256)])))); metas.append({"expect": "reject"})
            ops.append(("parse", mode, hexs(data + bytes([rng.below(256), rng.below(256)])))); metas.append({"expect": "reject"})
            s = sid()
            out.append(Case(s, script_text(s, "app", {}, ops), {"kind": "truncate-extend", "ops": metas}))

        # 5. one flipped bit / wrong qualifier / random garbage: whatever is accepted must be exactly encoded
        for _ in range(70 if quick else 3000):
            data, lines, mode, bounds, hs, fc = self.small_fragment(rng)
            ops, metas = [], []
            for _ in range(8):
                m = bytearray(data)
                what = rng.choice(["flip", "flip", "qual", "byte", "garbage"])
                if what == "flip":
                    p = rng.range(0, len(m) - 1); m[p] ^= 1 << rng.below(8)
                elif what == "byte":
                    p = rng.range(0, len(m) - 1); m[p] = rng.choice([0, 1, 0xFF, 0x80, rng.below(256)])
                elif what == "qual":
                    k = rng.below(len(hs)); m[bounds[k] + 2] = rng.choice(D.QUALIFIERS + UNKNOWN_QUALS)
                else:
                    m = bytearray(data[:bounds[0]]) + bytearray(rng.bytes(rng.range(1, 24)))
                ops.append(("parse", mode, hexs(bytes(m)))); metas.append({"expect": "any", "data": bytes(m).hex()})
                if rng.chance(1, 4):
                    ops.append(("display", str(rng.below(4)), hexs(bytes(m)))); metas.append({"expect": "display"})
            s = sid()
            out.append(Case(s, script_text(s, "app", {"zls": rng.below(2)}, ops), {"kind": "mutate", "ops": metas}))

        # 6. attributes and free-format objects, valid and damaged
        for _ in range(50 if quick else 1500):
            fc = rng.choice([D.FC_RESPONSE, D.FC_WRITE, 25, 26, 27, 28, 29, 30])
            if rng.chance(1, 2):
                q = rng.choice([D.Q_RANGE8, D.Q_RANGE16, D.Q_PREFIX8, D.Q_PREFIX16])
                h = valid_header(rng, fc, 0, rng.choice(ATTR_VARS + [2, 100, 253]), q, rng.below(256), 1, 0)
            else:
                h = valid_header(rng, fc, 70, rng.range(2, 8), D.Q_FREE, 0, 1, 0)
            data, lines, mode = self.fragment(rng, fc, [h])
            ops, metas = [("parse", mode, hexs(data))], [{"expect": "valid", "lines": lines}]
            for _ in range(10):
                m = bytearray(data)
                what = rng.choice(["flip", "trunc", "ext", "hi"])
                if what == "flip":
                    p = rng.range(2, len(m) - 1); m[p] ^= 1 << rng.below(8)
                elif what == "trunc":
                    m = m[:rng.range(2, len(m) - 1)]
                elif what == "ext":
                    m += rng.bytes(rng.range(1, 3))
                else:
                    p = rng.range(2, len(m) - 1); m[p] = rng.choice([0x80, 0xC0, 0xC1, 0xE0, 0xED, 0xF4, 0xF5, 0xFF])
                ops.append(("parse", mode, hexs(bytes(m)))); metas.append({"expect": "any", "data": bytes(m).hex()})
                ops.append(("display", "3", hexs(bytes(m)))); metas.append({"expect": "display"})
            s = sid()
            out.append(Case(s, script_text(s, "app", {}, ops), {"kind": "attr-free", "ops": metas}))

        # 7. the request builders, re-parsed
        for _ in range(60 if quick else 1500):
            out.append(self.encode_case(rng, sid()))

        # 7b. device attributes: every width boundary of the signed / unsigned integer encodings, both signs
        #     (seeded change C09_c: +128 and +32768 written in too narrow an encoding)
        for x in ATTR_INT_BOUNDS:
            out.append(self.encode_attr_case(rng, sid(), rng.below(16), force=("int", x)))
        for x in ATTR_UINT_BOUNDS:
            out.append(self.encode_attr_case(rng, sid(), rng.below(16), force=("uint", x)))

        # 8. the outstation's RangeWriter / EventWriter through the production Database, re-parsed
        #    (implementation only: the writers are modelled by the db engine, the oracle checks the listing)
        for _ in range(40 if quick else 1500):
            out.append(self.dbwrite_case(rng, sid()))
        # 9. the same writers with a response budget that runs out anywhere, also inside an object: whatever
        #    was written must still parse and be a prefix of the selected points
        for _ in range(60 if quick else 3000):
            out.append(self.dbwrite_budget_case(rng, sid()))
        # 10. the writers of the free-format file objects (g70v2..v8 through write_free_format): names, user names
        #     and passwords with 1- to 4-octet characters, empty, at and beyond the 16-bit limits; small buffers
        for spec in self.FREE_LIMITS:
            out.append(self.encode_free_limit_case(rng, sid(), spec))
        for _ in range(36 if quick else 2500):
            out.append(self.encode_free_case(rng, sid()))
        return out

    # (variation, octets of each string) around the limits: a size must fit 16 bits, for g70v2 also 12 + size of the
    # user name, and the whole object must fit the 16-bit length of the header
    FREE_LIMITS = [(3, [65509]), (3, [65510]), (3, [65535]), (3, [65536]), (7, [65515]), (7, [65516]), (7, [65536]),
                   (2, [65523, 0]), (2, [65524, 0]), (2, [65536, 0]), (2, [0, 65523]), (2, [0, 65524]), (2, [0, 65536]),
                   (2, [30000, 35523]), (2, [30000, 35524]),
                   (4, [65522]), (4, [65523]), (5, [65527]), (5, [65528]), (6, [65526]), (6, [65527]), (8, [65535]), (8, [65536]),
                   # which error comes first when the string is too long AND the buffer ends early (third item = capacity)
                   (2, [65536, 3], 7), (2, [65536, 3], 9), (2, [65536, 3], 10), (2, [3, 65536], 13), (2, [3, 65536], 14),
                   (2, [65530, 3], 11), (2, [65530, 3], 12), (3, [65536], 9), (3, [65536], 10), (7, [70000], 10)]

    def free_case(self, s, cap, seq, fc, objs, kind):
        toks = ["encode", seq, fc]
        for i, (v, nums, strs) in enumerate(objs):
            toks += (["/"] if i else []) + ["free", v] + list(nums) + [hexs(x) for x in strs]
        what, x = free_request(cap, seq, fc, objs)
        if what == 'err':
            meta = {"expect": "encode-free-err", "token": x}
        else:
            lines = header_lines(x[0], fc, None, "req")
            for (v, nums, strs) in objs:
                lines += ["h 70 %d %d 1" % (v, D.Q_FREE), "f %d %s" % (v, " ".join(str(len(t)) for t in strs))]
            meta = {"expect": "encode", "bytes": hexs(x), "lines": lines + ["end"]}
        return Case(s, script_text(s, "app", {"cap": cap}, [tuple(toks)]), {"kind": kind, "ops": [meta]})

    def long_string(self, rng, n, allow_wide):
        """exactly n octets of UTF-8; mostly ASCII, or as many 2-/3-octet characters as fit"""
        if n == 0:
            return b""
        if allow_wide and rng.chance(1, 3):
            ch = rng.choice(["é", "€"]).encode()
            k = n // len(ch)
            return ch * k + b"x" * (n - k * len(ch))
        return bytes([rng.range(0x61, 0x7A)]) * n

    def encode_free_limit_case(self, rng, s, spec):
        v, lens = spec[0], spec[1]
        strs = [self.long_string(rng, n, v != 5) for n in lens]
        return self.free_case(s, spec[2] if len(spec) > 2 else 140000, rng.below(16), rng.choice([D.FC_WRITE, 25, 26, 27, 28, 29, 30]),
                              [(v, free_numbers(rng, v), strs)], "encode-free-limit")

    def encode_free_case(self, rng, s):
        objs = []
        for _ in range(2 if rng.chance(1, 4) else 1):
            v = rng.choice([2, 2, 3, 3, 7, 7, 4, 5, 6, 8])
            if v == 5:
                strs = [rng.bytes(rng.choice([0, 1, 2, 100, 300]))]
            else:
                strs = [free_string(rng) for _ in range(FREE_STRINGS[v])]
            objs.append((v, free_numbers(rng, v), strs))
        cap = rng.choice([2048, 2048, 2048, 2048, 2048, 300, rng.range(0, 12), rng.range(8, 60), rng.range(8, 60)])
        if rng.chance(1, 12):
            # something too long for its size field together with a buffer that may end anywhere before it
            v = rng.choice([2, 3, 7])
            strs = [self.long_string(rng, rng.choice([65536, 65600, 70000]), True)] + ([free_string(rng)] if v == 2 else [])
            if v == 2 and rng.chance(1, 2): strs.reverse()
            objs = [(v, free_numbers(rng, v), strs)]
            cap = rng.choice([rng.range(6, 20), rng.range(6, 20), 140000])
        return self.free_case(s, cap, rng.below(16), rng.choice([D.FC_WRITE, 25, 26, 27, 28, 29, 30]), objs, "encode-free")

    def dbwrite_budget_case(self, rng, s):
        ty = rng.choice(["ai", "ai", "ctr", "bi", "dbi"])
        svar = rng.choice(self.SVARS[ty])
        base = rng.choice([0, 5, 250, 65500])
        n = rng.range(2, 30)
        points = []
        for k in range(n):
            if ty == "bi": value = str(rng.below(2))
            elif ty == "dbi": value = str(rng.below(4))
            elif ty == "ctr": value = str(rng.below(1 << 32))
            else: value = "%016x" % rng.choice([0, 0x400921FB54442D18, 0xC0F86A0000000000, rng.next()])
            points.append({"type": ty, "index": base + k, "class": 0, "svar": svar, "evar": self.EVARS[ty][0],
                           "value": value, "flags": rng.choice([1, 1, 0x41, 0x21]), "time": "n"})
        budget = rng.range(5, 12 + 11 * n)
        toks = ["dbwrite", budget] + ["%s,%d,%d,%d,%d,%s,%02x,%s" % (p["type"], p["index"], p["class"], p["svar"], p["evar"], p["value"], p["flags"], p["time"])
                                      for p in points]
        return Case(s, script_text(s, "app", {}, [tuple(toks)]),
                    {"kind": "dbwrite-budget", "impl_only": True, "ops": [{"expect": "dbwrite-partial", "points": points, "budget": budget}]})

    def check_dbwrite_partial(self, m, b):
        if not b or not b[0].startswith("bytes "):
            return "no bytes line: " + " / ".join(b)[:120]
        data = bytes.fromhex(b[0].split()[1]) if b[0].split()[1] != "-" else b""
        if len(data) - 4 > m["budget"]:
            return "%d bytes written with a budget of %d" % (len(data), m["budget"])
        listing = b[1:]
        if any(l.startswith("obj-err") or l.startswith("hdr-err") for l in listing):
            return "the library cannot parse its own (partial) response of %d bytes: %s" % (len(data), " / ".join(listing)[:160])
        got = []
        for l in listing[2:]:
            t = l.split()
            if t[0] == "o" and t[1] != "-":
                got.append(int(t[1]))
        want = [p["index"] for p in m["points"]]
        if got != want[:len(got)]:
            return "points written at %s are not a prefix of the selected %s" % (got[:8], want[:8])
        return None

    SVARS = {"bi": [1, 2], "dbi": [1, 2], "ctr": [1, 2, 5, 6], "ai": [1, 2, 3, 4, 5, 6], "oct": [0]}
    EVARS = {"bi": [1, 2, 3], "dbi": [1, 2, 3], "ctr": [1, 2, 5, 6], "ai": [1, 2, 3, 4, 5, 6, 7, 8], "oct": [0]}

    def dbwrite_case(self, rng, s):
        points, seen = [], set()
        base = rng.choice([0, 0, 5, 250, 65530])
        t0 = rng.below(1 << 40)
        for _ in range(rng.range(1, 14)):
            ty = rng.choice(["bi", "bi", "bi", "dbi", "dbi", "ctr", "ai", "oct"])
            idx = min(65535, base + rng.choice([0, 1, 2, 3, 4, 5, 7, 8, 9, 16, 17]))
            if (ty, idx) in seen:
                continue
            seen.add((ty, idx))
            cls = rng.below(4)
            if ty == "bi": value = str(rng.below(2))
            elif ty == "dbi": value = str(rng.below(4))
            elif ty == "ctr": value = str(rng.choice([0, 1, 65535, 65536, 0xFFFFFFFF, rng.below(1 << 32)]))
            elif ty == "ai": value = "%016x" % rng.choice([0, 0x400921FB54442D18, 0xC0F86A0000000000, 0x7FF8000000000000, 0x41F0000000000000, rng.next()])
            else: value = rng.bytes(rng.choice([1, 1, 4, 4, 4, 255])).hex()
            flags = rng.choice([1, 1, 1, 1, 0x41, 0x21, 0x00, 0x03, rng.below(256)])
            time = rng.choice(["n", "s%d" % t0, "s%d" % (t0 + rng.below(65536)), "s%d" % (t0 + 70000 + rng.below(1000)),
                               "u%d" % (t0 + rng.below(65536)), "s%d" % rng.below(1 << 48)])
            points.append({"type": ty, "index": idx, "class": cls, "svar": rng.choice(self.SVARS[ty]), "evar": rng.choice(self.EVARS[ty]),
                           "value": value, "flags": flags, "time": time})
        toks = ["dbwrite", 4096] + ["%s,%d,%d,%d,%d,%s,%02x,%s" % (p["type"], p["index"], p["class"], p["svar"], p["evar"], p["value"], p["flags"], p["time"])
                                   for p in points]
        return Case(s, script_text(s, "app", {}, [tuple(toks)]),
                    {"kind": "dbwrite", "impl_only": True, "ops": [{"expect": "dbwrite", "points": points}]})

    STATIC_GROUP = {1: "bi", 3: "dbi", 20: "ctr", 30: "ai", 110: "oct"}
    EVENT_GROUP = {2: "bi", 4: "dbi", 22: "ctr", 32: "ai", 111: "oct"}

    def check_dbwrite(self, m, b):
        """what the outstation's writers emitted must parse into exactly the points that were written"""
        if not b or not b[0].startswith("bytes "):
            return "no bytes written: " + " / ".join(b)[:120]
        data = bytes.fromhex(b[0].split()[1])
        listing = b[1:]
        if any(l.startswith("obj-err") or l.startswith("hdr-err") for l in listing):
            return "the library cannot parse its own response: " + " / ".join(listing)[:160]
        why = reencode(listing, data)
        if why:
            return "response not decoded to what was encoded: " + why
        statics, events = {}, {}
        g = v = None
        for l in listing[2:]:
            t = l.split()
            if t[0] == "h":
                g, v = int(t[1]), int(t[2])
            elif t[0] == "o" and t[1] != "-":
                obj = (int(t[1]), v, bytes.fromhex(t[2]) if t[2] != "-" else b"")
                if g in self.STATIC_GROUP: statics.setdefault(self.STATIC_GROUP[g], []).append(obj)
                elif g in self.EVENT_GROUP: events.setdefault(self.EVENT_GROUP[g], []).append(obj)
        for ty in ("bi", "dbi", "ctr", "ai", "oct"):
            want = sorted(p["index"] for p in m["points"] if p["type"] == ty)
            got = [o[0] for o in statics.get(ty, [])]
            if got != want:
                return "static %s points written at %s, parsed at %s" % (ty, want, got)
            wante = sorted(p["index"] for p in m["points"] if p["type"] == ty and p["class"] != 0)
            gote = sorted(o[0] for o in events.get(ty, []))
            if gote != wante:
                return "%s events written for %s, parsed for %s" % (ty, wante, gote)
        for p in m["points"]:
            if p["type"] == "bi":
                for (idx, var, val) in statics.get("bi", []):
                    if idx == p["index"]:
                        want = bytes([int(p["value"])]) if var == 1 else bytes([(p["flags"] & 0x7F) | (int(p["value"]) << 7)])
                        if val != want:
                            return "binary input %d written as value %s flags %02x, parsed as g1v%d %s" % (idx, p["value"], p["flags"], var, val.hex())
            if p["type"] == "oct":
                for (idx, var, val) in statics.get("oct", []) + events.get("oct", []):
                    if idx == p["index"] and val.hex() != p["value"]:
                        return "octet string %d written as %s, parsed as %s" % (idx, p["value"], val.hex())
        return None

    def encode_case(self, rng, s):
        seq = rng.below(16)
        cap = rng.choice([2048, 2048, 2048, 249, 40, 12, 4096])
        kind = rng.choice(["read", "read", "cmd", "cmd", "one", "restart", "attr", "attr"])
        if kind == "attr":
            return self.encode_attr_case(rng, s, seq)
        headers = []     # (op tokens, Header)
        if kind == "read":
            fc = D.FC_READ
            for _ in range(rng.range(1, 5)):
                which = rng.choice(["all", "range8", "range16", "count8", "count16", "classes"])
                if which == "classes":
                    c = [rng.below(2) for _ in range(4)]
                    hs = [valid_header(rng, fc, 60, var, D.Q_ALL, 0, 0, 0) for on, var in zip(c, (2, 3, 4, 1)) if on]
                    headers.append((["classes", "".join(str(x) for x in c)], hs)); continue
                for _ in range(200):
                    g, v = rng.choice(universe())
                    q = {"all": D.Q_ALL, "range8": D.Q_RANGE8, "range16": D.Q_RANGE16, "count8": D.Q_COUNT8, "count16": D.Q_COUNT16}[which]
                    k = D.kind(fc, q, g, v)
                    if k == 'none': break
                else:
                    continue
                if which == "all":
                    headers.append((["all", g, v], [valid_header(rng, fc, g, v, q, 0, 0, 0)]))
                elif which in ("range8", "range16"):
                    top = 255 if which == "range8" else 65535
                    a = rng.choice([0, 1, top, rng.below(top + 1)]); b = rng.choice([a, top, rng.range(a, top)])
                    headers.append(([which, g, v, a, b], [valid_header(rng, fc, g, v, q, a, b - a + 1, 0)]))
                else:
                    top = 255 if which == "count8" else 65535
                    c = rng.choice([0, 1, top, rng.below(top + 1)])
                    headers.append(([which, g, v, c], [valid_header(rng, fc, g, v, q, 0, c, 0)]))
        elif kind == "cmd":
            fc = rng.choice([D.FC_SELECT, D.FC_OPERATE, D.FC_DIRECT, 6])
            for _ in range(rng.range(1, 3)):
                g, v = rng.choice([(12, 1), (41, 1), (41, 2), (41, 3), (41, 4)])
                prefix = rng.choice([8, 16])
                nitems = rng.choice([1, 1, 2, 3, 10, 255, 256, 257]) if cap >= 2048 else rng.choice([1, 2, 3])
                size = D.FIXED[(g, v)]
                items = [(rng.below(256 if prefix == 8 else 65536), rng.bytes(size)) for _ in range(nitems)]
                q = D.Q_PREFIX8 if prefix == 8 else D.Q_PREFIX16
                psize = prefix // 8
                if nitems > (255 if prefix == 8 else 65535):
                    h = None       # cannot be represented: the builder must refuse
                else:
                    data = D.header_prefix(g, v, q, nitems) + b"".join(D.le(i, psize) + o for i, o in items)
                    h = Header(data, ["h %d %d %d %d" % (g, v, q, nitems)] + D.listing(items))
                headers.append((["cmd", "g%dv%d" % (g, v), prefix] + ["%d:%s" % (i, o.hex()) for i, o in items], [h]))
        elif kind == "one":
            fc = rng.choice([D.FC_WRITE, 11, 12])
            g, v = rng.choice([(50, 1), (50, 2), (50, 3), (52, 2)])
            obj = rng.bytes(D.FIXED[(g, v)])
            data = D.header_prefix(g, v, D.Q_COUNT8, 1) + obj
            headers.append((["one", "g%dv%d" % (g, v), obj.hex()], [Header(data, ["h %d %d 7 1" % (g, v)] + D.listing([(None, obj)]))]))
        else:
            fc = D.FC_WRITE
            headers.append((["restart"], [Header(bytes([80, 1, 0, 7, 7, 0]), ["h 80 1 0 7 7"] + D.listing([(7, b"\x00")]))]))
        toks = ["encode", seq, fc]
        for i, (t, _) in enumerate(headers):
            toks += (["/"] if i else []) + t
        flat = [h for _, hs in headers for h in hs]
        if any(h is None for h in flat):
            meta = {"expect": "encode-reject"}
        else:
            data = bytes([D.control(True, True, False, False, seq), fc]) + b"".join(h.data for h in flat)
            if len(data) > cap:
                meta = {"expect": "encode-reject"}
            else:
                lines = header_lines(data[0], fc, None, "req")
                for h in flat:
                    lines += h.lines
                meta = {"expect": "encode", "bytes": hexs(data), "lines": lines + ["end"]}
        return Case(s, script_text(s, "app", {"cap": cap}, [tuple(toks)]), {"kind": "encode-" + kind, "ops": [meta]})

    def encode_attr_case(self, rng, s, seq, force=None):
        """HeaderWriter::write_attribute: whatever length the writer picks, the value must come back"""
        st, var = rng.below(256), rng.choice(ATTR_VARS + [2, 100])
        ty = force[0] if force else rng.choice(["int", "int", "int", "uint", "vstr", "ostr", "bstr", "f32", "f64", "time"])
        if ty == "int":
            x = force[1] if force else rng.choice(ATTR_INT_BOUNDS + [rng.range(-200, 200), rng.range(-40000, 40000)])
            value, shown = str(x), "int %d" % (x % (1 << 32))
        elif ty == "uint":
            x = force[1] if force else rng.choice(ATTR_UINT_BOUNDS + [rng.below(1 << 32)])
            value, shown = str(x), "uint %d" % x
        elif ty in ("vstr", "ostr", "bstr"):
            b = utf8_string(rng) if ty == "vstr" else rng.bytes(rng.choice([0, 1, 7, 255]))
            if rng.chance(1, 8): b = b"x" * 256       # too long for the one-byte length: the writer must refuse
            value, shown = hexs(b), "%s %s" % (ty, hexs(b))
        elif ty in ("f32", "f64"):
            x = rng.below(1 << (32 if ty == "f32" else 64))
            value, shown = str(x), "%s %d" % (ty, x)
        else:
            x = rng.below(1 << 48)
            value, shown = str(x), "time %d" % x
        cap = rng.choice([2048, 2048, 300, 8]) if not force else 2048
        meta = {"expect": "encode-attr", "line": "a %d %d %s" % (st, var, shown), "head": "h 0 %d 0 %d %d" % (var, st, st),
                "unencodable": ty in ("vstr", "ostr", "bstr") and value != "-" and len(value) // 2 > 255}
        return Case(s, script_text(s, "app", {"cap": cap}, [("encode", seq, D.FC_WRITE, "attr", st, var, ty, value)]),
                    {"kind": "encode-attr", "ops": [meta]})

    # ---- the property, checked directly on the implementation's trace ------------------------------------
    def oracle(self, case, impl):
        fails = []
        for l in impl:
            if l.startswith("panic") or l.startswith("harness-died") or l == "missing":
                fails.append(("no-panic", "the codec panicked or the harness died: " + l[:200]))
        ops = case.meta.get("ops")
        if ops is None:
            return fails
        blocks = blocks_of(impl)
        if len(blocks) != len(ops) and not fails:
            fails.append(("trace-shape", "%d ops but %d result blocks" % (len(ops), len(blocks))))
            return fails
        for m, b in zip(ops, blocks):
            e = m["expect"]
            accepted = not any(l.startswith("obj-err") or l.startswith("hdr-err") or l.startswith("encode-err") or l.startswith("panic") for l in b)
            if e == "valid":
                if b != m["lines"]:
                    d = next((i for i, (x, y) in enumerate(zip(b, m["lines"])) if x != y), min(len(b), len(m["lines"])))
                    fails.append(("encoded-not-decoded", "a valid encoding was not decoded to what was encoded: line %d is %r, expected %r"
                                  % (d, b[d] if d < len(b) else None, m["lines"][d] if d < len(m["lines"]) else None)))
            elif e == "reject":
                if accepted:
                    fails.append(("accepted-inexact", "accepted bytes that are not exactly what group/variation/qualifier/count imply: " + " / ".join(b)[:200]))
            elif e == "any":
                if accepted:
                    why = reencode(b, bytes.fromhex(m["data"]))
                    if why:
                        fails.append(("accepted-inexact", why))
            elif e == "encode":
                if b[:1] != ["bytes " + m["bytes"]]:
                    got = b[0] if b else ""
                    d = next((i for i, (x, y) in enumerate(zip(got, "bytes " + m["bytes"])) if x != y), min(len(got), len(m["bytes"]) + 6))
                    fails.append(("builder-bytes", "the builder wrote %s, the request is %s (first difference at octet %d: ...%s / ...%s)"
                                  % (got[:120] if b else None, m["bytes"][:120], max(0, d - 6) // 2, got[max(6, d - 8):d + 8],
                                     ("bytes " + m["bytes"])[max(6, d - 8):d + 8])))
                elif b[1:] != m["lines"]:
                    fails.append(("encoded-not-decoded", "a built request was not decoded to what was encoded: " + " / ".join(b[1:])[:200]))
            elif e == "dbwrite-partial":
                why = self.check_dbwrite_partial(m, b)
                if why:
                    fails.append(("partial-response-not-decoded", why))
            elif e == "dbwrite":
                why = self.check_dbwrite(m, b)
                if why:
                    fails.append(("response-not-decoded", why))
            elif e == "encode-attr":
                if accepted:
                    if m["unencodable"]:
                        fails.append(("builder-accepts-unencodable", "an attribute longer than 255 octets was written: " + " / ".join(b)[:120]))
                    elif b[3:5] != [m["head"], m["line"]] or b[5:] != ["end"]:
                        fails.append(("encoded-not-decoded", "a written attribute was not decoded to what was written: expected %r, parsed %r"
                                      % (m["line"], " / ".join(b[3:])[:160])))
                elif not any(l.startswith("encode-err") for l in b):
                    fails.append(("encoded-not-decoded", "a written attribute was rejected by the parser: " + " / ".join(b)[:200]))
            elif e == "encode-free-err":
                if accepted:
                    fails.append(("builder-accepts-unencodable", "a free-format object that cannot be encoded (%s) was written: %s"
                                  % (m["token"], " / ".join(b)[:160])))
                elif b != ["encode-err " + m["token"], "end"]:
                    fails.append(("builder-error", "writing the free-format object must fail with %s: %s" % (m["token"], " / ".join(b)[:160])))
            elif e == "encode-reject":
                if accepted:
                    fails.append(("builder-accepts-unencodable", "the builder produced bytes for a request that cannot be encoded: " + " / ".join(b)[:160]))
        return fails

    def nontrivial(self, case, impl):
        return any(l.startswith("h ") or "err" in l or l.startswith("bytes") for l in impl)

    def finding_signature(self, case, clause, desc):
        return "%s/%s" % (clause, case.meta.get("kind"))


PROP = C09()
