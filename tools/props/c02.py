"""C02 — End to end, the master's picture converges to the outstation's database (PARTIAL).

Three parts (the third ties the first two together):
  * logic (proof): coq/System/Pair.v is an abstract composition of the per-layer guarantees proved
    elsewhere (C06/C08, C09/C10, C11, C03, C15, C17 become the step rules of an abstract outstation
    database + event queue + master view); coq/System/PairProofs.v proves, for ALL runs of that
    system, nothing_fabricated, converged_after_quiescence, undiscarded_events_delivered.
  * runtime (end-to-end run of the REAL stack, engine `pair`): /verif/pairtest is a small standalone
    crate that uses dnp3's PUBLIC API only (no hook): outstation TCP server, master TCP client, and
    between them a byte-level proxy that re-chunks the stream, cuts both connections (on demand or at
    a byte offset) and corrupts single bytes; multi-thread tokio runtime, real time.  The oracle below
    checks the three clauses DIRECTLY on the recorded trace.
  * trace abstraction (engine `pairabs`, tools/props/c02abs.py): every recorded real run is mapped to a
    label list of System/Pair.v plus what the real trace showed at every label, and the acceptance
    function `explain` EXTRACTED from coq/System/PairTrace.v must accept it ("the real run is a run of the
    abstract system"); theorems C02_explained_* (System/PairTraceProofs.v) say what acceptance gives.
    The "model trace" of a script is the verdict of that function; the "implementation trace" is
    compared with it through `canon` (the verdict an explained run must get), so a run that cannot be
    explained is a model/impl mismatch, reported as the broken correspondence
    `correspondence-pair-abstraction`.

The implementation side is another binary than dnp3's test build, so this module carries its own
build-and-run code (as c20.py does) and installs it in place of propcheck.run_cases for C02 only.

VERIF_REPO=<dir> points the dnp3 dependency at another checkout (self-test with mutations in a
scratch worktree): a Cargo.toml with that path is generated in a scratch build directory
/tmp/c02_build_<hash>/ (own target dir inside it; remove the directory when done).  With the default
/repo the crate is built where it lies, target dir /verif/.cache/target_pair.

What is compared (the oracle says what a variation can carry):
  point configuration      static variation            event variation
  bi    g1v2  (flags; the state is bit 7 of the flag octet)      g2v2  (+ 48-bit absolute time)
  dbbi  g3v2  (flags; the state is bits 6-7)                     g4v2
  bos   g10v2 (flags; the state is bit 7)                        g11v2
  ctr   g20v1 (u32 + flags)                                       g22v5
  fctr  g21v5 (u32 + flags + time)                                g23v5
  ai    g30v6 (f64 + flags)                                       g32v8
  aos   g40v4 (f64 + flags)                                       g42v8
  os    g110  (the octets)                                        g111
  value: always; flags: always, after the wire rule "state bits of the flag octet are the value";
  time: only where the variation carries it (static: fctr only; events: all but os), as the 48-bit
  millisecond count (synchronised/unsynchronised is not carried by these variations; no time = 0).

Soundness of the oracle under real-time nondeterminism (threads, TCP, timers): nothing is predicted.
The trace is one process-wide ordered list (a mutex); the harness writes `op <n>` BEFORE it executes the
n-th op and `updinfo` AFTER the transaction, the master's handler writes `h` lines before the master
confirms, the outstation writes `cleared` when a confirm releases an event.  Every clause only uses
orders that hold in every schedule:
  * a value can reach the handler only after the transaction that wrote it began (its `op` marker);
  * a static value was read after the master's previous solicited series ended (one request at a time),
    so it must be a value not surely overwritten before that point (overwritten = a later transaction's
    `updinfo` precedes it);
  * an event may be released only after an `h` line carried it (the master confirms after its handler);
  * convergence and at-least-once delivery are judged only after `quiesce` reports that an integrity poll
    started after the last op completed and a following event poll delivered no event; a script that
    does not get there within 10 s fails the clause `converged|no-quiescence`;
  * events are identified by content (type, index, value, wire flags, time): the generator gives every
    update a unique time stamp (octet strings: unique leading octets).
What the run cannot show: schedules and byte offsets that were not sampled; it is a test of the real
stack, the universally quantified part of C02 is the theorem about the abstraction."""
import hashlib, json, os, shutil, struct, subprocess, sys
import propcheck
from propcheck import *
import c02abs

PAIR_DIR = os.path.join(VERIF, "pairtest")
TARGET_PAIR = os.path.join(CACHE, "target_pair")
NPAR = 16

TYPES = ["bi", "dbbi", "bos", "ctr", "fctr", "ai", "aos", "os"]
F64_POOL = ["0000000000000000", "8000000000000000", "3ff8000000000000", "4059000000000000", "c2225c17d0400000",
            "7ff8000000000000", "7ff0000000000000", "fff0000000000000", "0000000000000001", "40c3880000000000",
            "7fefffffffffffff", "4024000000000000", "4024000000000001", "7ff8000000000001"]
FLAGS_POOL = [1, 1, 1, 2, 0x41, 0x21, 0x11, 0x09, 0x05, 0, 0x7f]


# ------------------------------------------------------------------------------------------------
# build and run the pairtest binary

_pair_bin = None
_built_from = None


def repo_fingerprint():
    """HEAD and the uncommitted changes under dnp3/ of the checkout the binary is built from.  Other
    work in this sandbox edits /repo's working tree now and then (temporary mutations of other
    properties' self-tests): a run whose tree changed between the build and the last script says
    nothing about either tree and is repeated once."""
    try:
        head = subprocess.run(["git", "-C", REPO, "rev-parse", "HEAD"], stdout=subprocess.PIPE, text=True, timeout=60).stdout.strip()
        diff = subprocess.run(["git", "-C", REPO, "diff", "HEAD", "--", "dnp3"], stdout=subprocess.PIPE, timeout=60).stdout
        return "%s+%s" % (head[:12], hashlib.sha256(diff).hexdigest()[:12] if diff else "clean")
    except Exception as e:       # not a git checkout: nothing to compare
        return "unknown"


def build_pairtest():
    global _pair_bin, _built_from
    if _pair_bin:
        return _pair_bin
    _built_from = repo_fingerprint()
    default_repo = os.path.realpath(REPO) == "/repo"
    if default_repo:
        build_dir, target = PAIR_DIR, TARGET_PAIR
        lock = os.path.join(PAIR_DIR, "Cargo.lock")
        if not os.path.exists(lock):
            shutil.copy2(os.path.join(REPO, "Cargo.lock"), lock)
    else:
        tag = hashlib.sha256(os.path.realpath(REPO).encode()).hexdigest()[:10]
        build_dir = os.environ.get("VERIF_PAIR_BUILD", "/tmp/c02_build_%s" % tag)
        target = os.path.join(build_dir, "target")
        os.makedirs(build_dir, exist_ok=True)
        toml = open(os.path.join(PAIR_DIR, "Cargo.toml")).read()
        if 'path = "/repo/dnp3"' not in toml:
            raise BuildError("pairtest/Cargo.toml: dependency line `path = \"/repo/dnp3\"` not found")
        toml = toml.replace('path = "/repo/dnp3"', 'path = "%s"' % os.path.join(os.path.realpath(REPO), "dnp3"))
        write_if_changed(os.path.join(build_dir, "Cargo.toml"), toml)
        shutil.copy2(os.path.join(REPO, "Cargo.lock"), os.path.join(build_dir, "Cargo.lock"))
        link = os.path.join(build_dir, "src")
        if os.path.islink(link):
            os.remove(link)
        if not os.path.exists(link):
            os.symlink(os.path.join(PAIR_DIR, "src"), link)
    env = dict(os.environ, CARGO_NET_OFFLINE="true", CARGO_TARGET_DIR=target)
    env.pop("RUSTFLAGS", None)       # the guard cfg is not used: production build of dnp3, public API only
    with Lock("cargo_pair"):
        p = subprocess.run(["cargo", "build", "--release", "--offline", "--message-format=json"],
                           cwd=build_dir, env=env, stdout=subprocess.PIPE, stderr=subprocess.PIPE, text=True, timeout=3000)
        exe, msgs = None, []
        for line in p.stdout.splitlines():
            if not line.startswith("{"):
                continue
            try:
                j = json.loads(line)
            except ValueError:
                continue
            if j.get("reason") == "compiler-artifact" and j.get("executable") and j["target"]["name"] == "pairtest":
                exe = j["executable"]
            if j.get("reason") == "compiler-message" and j["message"].get("level") == "error":
                msgs.append(j["message"].get("rendered", ""))
        if p.returncode != 0 or not exe:
            raise BuildError("cargo build of /verif/pairtest against %s failed:\n" % REPO + "\n".join(msgs)[-4000:] + p.stderr[-1500:])
        if default_repo:
            # private copy so that a concurrent rebuild cannot replace the binary while it runs
            dst = os.path.join(CACHE, "bin", "pairtest-%s" % hashlib.sha256(open(exe, "rb").read()).hexdigest()[:12])
            os.makedirs(os.path.dirname(dst), exist_ok=True)
            if not os.path.exists(dst):
                for old in os.listdir(os.path.dirname(dst)):
                    if old.startswith("pairtest-"):
                        os.remove(os.path.join(os.path.dirname(dst), old))
                shutil.copy2(exe, dst)
            exe = dst
        _pair_bin = exe
        return exe


def run_pair_shards(scripts, workdir, tag):
    exe = build_pairtest()
    os.makedirs(workdir, exist_ok=True)
    n = max(1, min(NPAR, len(scripts)))
    procs = []
    for i in range(n):
        part = scripts[i::n]
        sp = os.path.join(workdir, "%s.pair.%d.in" % (tag, i))
        open(sp, "w").write("\n".join(part) + "\n")
        procs.append((subprocess.Popen([exe, sp], stdout=subprocess.PIPE, stderr=subprocess.PIPE, text=True,
                                       env=dict(os.environ, RUST_BACKTRACE="0")), sp, len(part)))
    out = {}
    for p, sp, cnt in procs:
        try:
            so, se = p.communicate(timeout=120 + 70 * cnt)
        except subprocess.TimeoutExpired:
            p.kill()
            so, se = p.communicate()
            se = (se or "") + " shard-timeout"
        got = parse_traces(so or "")
        out.update(got)
        for sid in script_ids(open(sp).read()):
            if sid not in got:
                out[sid] = ["harness-died rc=%s %s" % (p.returncode, (se or "")[-200:].replace("\n", " "))]
    return out


def c02_run_cases(prop, cases, tag):
    global _pair_bin
    work = os.path.join(WORK, prop.id)
    impl = run_pair_shards([c.script for c in cases], work, tag)
    after = repo_fingerprint()
    prop.totals["built_from"] = _built_from
    if after != _built_from:
        # the source tree was edited while the scripts ran: build again and repeat the run once
        prop.totals["tree_changed_during_run"] = "%s -> %s (run repeated)" % (_built_from, after)
        _pair_bin = None
        impl = run_pair_shards([c.script for c in cases], work, tag + "_again")
        prop.totals["built_from"] = _built_from
    model = pair_abstraction(prop, cases, impl, tag)
    return impl, model


def pair_abstraction(prop, cases, impl, tag):
    """every real run must be a run of coq/System/Pair.v: map the trace to labels and observations
    (c02abs.abstract, with the search for the places the trace does not fix), run the EXTRACTED acceptance
    function on them (engine pairabs) and return its verdict as the model trace; prop.expected holds, per
    implementation trace, the verdict of an explained run."""
    me = sys.modules[__name__]
    st = prop.abstraction
    scripts, model = [], {}
    for c in cases:
        it = impl.get(c.sid, ["missing"])
        key = trace_hash(it)
        if any(l.startswith(("harness-died", "missing", "unknown-engine", "setup-error", "script-hard-timeout")) for l in it):
            prop.expected[key] = model[c.sid] = ["not abstracted: the harness did not complete the script (the oracle reports it)"]
            continue
        try:
            a = c02abs.abstract(c.script, it, me)
        except Exception as e:       # a trace the mapping cannot read is not an explained run
            prop.expected[key] = ["explained"]
            model[c.sid] = ["unexplained correspondence-pair-abstraction: the mapping failed on this trace: %r" % (e,)]
            st["runs"] += 1
            st["unexplained_runs"].append(c.sid)
            continue
        prop.expected[key] = c02abs.expected_verdict(a)
        c.meta["abstraction"] = {"labels": len(a["labels"]), "placements_searched": a["placements"],
                                 "search_found_explanation": a["mirror_explained"], "first_unexplained": a["first_unexplained"]}
        st["runs"] += 1
        st["labels"] += len(a["labels"])
        st["placements_searched"] += a["placements"]
        st["runs_needing_search"] += 1 if a["placements"] > a["items"] else 0
        for lab, _ in a["labels"]:
            st["label_kinds"][lab[0]] = st["label_kinds"].get(lab[0], 0) + 1
        scripts.append((c, c02abs.engine_script(c.sid, a)))
    if scripts:
        work = os.path.join(WORK, prop.id, "abs_p%d" % os.getpid())
        try:
            out = run_model_shards([s for _, s in scripts], work, tag)
        finally:
            shutil.rmtree(work, ignore_errors=True)
        for c, _ in scripts:
            v = out.get(c.sid, ["missing"])
            model[c.sid] = v
            if v == prop.expected[trace_hash(impl.get(c.sid, ["missing"]))]:
                st["explained_runs"] += 1
                if len(v) == 3:
                    st["explained_runs_quiescent_shape"] += 1
            else:
                # the abstract system has ONE connection at a time; a run in which the master's new connection was accepted
                # while the outstation's previous session was still alive (half-open connection, `linger`) has a window
                # with two sessions that no label describes: such a run is judged by the direct oracle only
                try:
                    overlap = analyse(c.script, impl.get(c.sid, []))[1].get("connections_overlapping_a_session", 0) > 0
                except Exception:
                    overlap = False
                if overlap:
                    st.setdefault("not_judged_overlapping_sessions", []).append(c.sid)
                    model[c.sid] = prop.expected[trace_hash(impl.get(c.sid, ["missing"]))]
                    continue
                st["unexplained_runs"].append(c.sid)
                c.meta["abstraction"]["verdict"] = v
    return model


_orig_run_cases = propcheck.run_cases


def _dispatch_run_cases(prop, cases, tag):
    if getattr(prop, "id", None) == "C02":
        for c in cases:
            c.meta["impl_only"] = False      # the model trace is the verdict of the abstraction check
        return c02_run_cases(prop, cases, tag)
    return _orig_run_cases(prop, cases, tag)


propcheck.run_cases = _dispatch_run_cases


# ------------------------------------------------------------------------------------------------
# the oracle: replay of a trace against the ledger of the script

def wire_flags(ty, value, flags):
    """the flag octet as the wire carries it: the state lives in the top bits"""
    if ty in ("bi", "bos"):
        return (flags & 0x7F) | ((1 if value != "0" else 0) << 7)
    if ty == "dbbi":
        return (flags & 0x3F) | ((int(value) & 3) << 6)
    return flags


def f64_bits(x):
    return "%016x" % struct.unpack("<Q", struct.pack("<d", x))[0]


def time_ms(t):
    """48-bit millisecond count carried by g2v2 / g22v5 / ...: no time is sent as 0"""
    if t in ("none", "-"):
        return 0
    return int(t[1:]) & ((1 << 48) - 1)


def proj(ty, kind, value, flags, time):
    """what a delivery of this kind can carry about (value, flags, time); `time` in script/db syntax"""
    if ty == "os":
        return (value,)
    f = wire_flags(ty, value, int(flags))
    if kind == "event" or ty == "fctr":
        return (value, f, time_ms(time))
    return (value, f)


def proj_h(ty, kind, value, flags, time):
    """the same projection of a handler delivery; None when the delivery has a shape the variation
    cannot produce (e.g. a time on a g1v2 static)"""
    if ty == "os":
        return (value,)
    carries_time = kind == "event" or ty == "fctr"
    if carries_time != (time != "none"):
        return None
    f = int(flags)
    if wire_flags(ty, value, f) != f:
        return None        # state bits of the flag octet disagree with the value handed to the handler
    return (value, f, time_ms(time)) if carries_time else (value, f)


# Add<T>: "initialized to the default of 0.0/false with flags == RESTART"; a double-bit input starts Indeterminate
DEFAULTS = {"bi": "0", "dbbi": "3", "bos": "0", "ctr": "0", "fctr": "0", "ai": "0" * 16, "aos": "0" * 16, "os": "00"}


class Entry:
    """one value a point held: [mpos, dpos] brackets the instant of the transaction in the trace"""
    __slots__ = ("value", "flags", "time", "mpos", "dpos", "created", "discarded", "what")

    def __init__(self, value, flags, time, mpos, dpos, what):
        self.value, self.flags, self.time, self.mpos, self.dpos, self.what = value, flags, time, mpos, dpos, what
        self.created = None
        self.discarded = None


def analyse(script, trace):
    """returns (fails [(clause, text)], stats)"""
    lines = [l.split() for l in script.strip().split("\n")]
    ops = [l for l in lines[1:] if l and l[0] != "E"]
    fails = []
    stats = {"events_created": 0, "events_discarded": 0, "event_deliveries": 0, "static_deliveries": 0,
             "cuts": 0, "reconnects": 0, "flips": 0, "quiesced": 0, "points": 0, "commands_ok": 0,
             "multi_fragment_series": 0, "unsol_fragments": 0, "reconnect_in_confirm_wait": 0, "connections_overlapping_a_session": 0}

    def fail(clause, text):
        if len(fails) < 12:
            fails.append((clause, text))

    for l in trace:
        if l.startswith(("harness-died", "missing", "unknown-engine", "setup-error", "bad-op", "add-failed", "script-hard-timeout")):
            fail("harness|" + l.split(" ")[0], "pair harness: " + l[:300])
        if l.startswith("panic"):
            fail("panic", "a thread panicked during the script: " + l[:400])
    if any(c.startswith("harness") for c, _ in fails):
        return fails, stats

    ledger = {}            # (ty, idx) -> [Entry]
    pending = []           # update entries waiting for their updinfo line (FIFO)
    cmd_marks = []         # (idx, value, mpos) of command ops whose cmdupd has not been seen
    events = {}            # event id -> (ty, idx, Entry)
    discarded = set()
    hlines = []            # (pos, ty, idx, kind, projection, raw)
    cleared = []           # (pos, id)
    series_start = None    # window start (position) of the solicited series being received
    last_sol_end = -1      # position of the last end of a complete solicited series
    in_series_frags = 0
    final_db, final_seen = {}, {}
    single_series = []     # static points delivered by each complete `single` (explicit) read series
    cur_single = None
    outcome = None
    connected_once = False
    waiting = None         # position of the outstation's last confirm wait that has not been resolved
    reconnects = []        # positions at which the master established a NEW connection
    overlapped = []        # positions at which the proxy opened a new connection to the outstation while an
                           # earlier session of the outstation had not ended (or not even started) yet
    n_popen = n_oconn = n_odisc = 0

    for pos, l in enumerate(trace):
        t = l.split()
        if not t:
            continue
        k = t[0]
        if k == "op":
            n = int(t[1])
            if n >= len(ops):
                fail("harness|op", "marker for op %d which the script does not have" % n)
                continue
            op = ops[n]
            if op[0] == "add":
                key = (op[1], int(op[2]))
                ledger[key] = [Entry(DEFAULTS[op[1]], 2, "none", pos, pos, "initial value")]
                stats["points"] += 1
            elif op[0] == "update":
                key = (op[1], int(op[2]))
                e = Entry(op[3], int(op[4]), op[5], pos, None, "op %d `%s`" % (n, " ".join(op)))
                pending.append((key, e))
            elif op[0] == "command":
                cmd_marks.append((int(op[1]), int(op[2]), pos))
            elif op[0] == "cut":
                stats["cuts"] += 1
        elif k in ("updinfo", "nopoint"):
            if not pending:
                fail("harness|updinfo", "updinfo line without an update op")
                continue
            key, e = pending.pop(0)
            e.dpos = pos
            if k == "nopoint":
                if key in ledger:
                    fail("harness|nopoint", "update of the existing point %s %d reported NoPoint" % key)
                continue
            if key not in ledger:
                fail("harness|updinfo", "update of %s %d which was never added did not report NoPoint" % key)
                continue
            ledger[key].append(e)
            if t[1] != "none":
                e.created = int(t[1])
                events[e.created] = (key[0], key[1], e)
                stats["events_created"] += 1
            if t[2] != "none":
                e.discarded = int(t[2])
                discarded.add(int(t[2]))
                stats["events_discarded"] += 1
        elif k == "cmdupd":
            # cmdupd aos <i> <value> <flags> <time> <created> <discarded>
            # (a command the master gave up on may still be executed later, or never: match by content)
            idx = int(t[2])
            m = next((c for c in cmd_marks if c[0] == idx and f64_bits(float(c[1])) == t[3]), None)
            if m is None:
                fail("fabricated|command", "the ControlHandler was invoked for analog output %d with a value no command of the script carries (or twice): %s" % (idx, l))
                continue
            cmd_marks.remove(m)
            if t[6] == "nopoint":
                continue
            e = Entry(t[3], int(t[4]), t[5], m[2], pos, "command %d on analog output %d" % (m[1], idx))
            ledger.setdefault(("aos", idx), []).append(e)
            if t[6] != "none":
                e.created = int(t[6])
                events[e.created] = ("aos", idx, e)
                stats["events_created"] += 1
            if t[7] != "none":
                discarded.add(int(t[7]))
                stats["events_discarded"] += 1
        elif k == "cmdres":
            if t[1] == "ok":
                stats["commands_ok"] += 1
        elif k == "h":
            ty, idx, kind = t[1], int(t[2]), t[6]
            hlines.append((pos, ty, idx, kind, proj_h(ty, kind, t[3], t[4], t[5]), l, series_start))
            if cur_single is not None and kind == "static":
                cur_single.add((ty, idx))
            stats["event_deliveries" if kind == "event" else "static_deliveries"] += 1
        elif k == "frag":
            unsol = t[2] == "unsol"
            fir, fin = t[3][0] == "1", t[3][1] == "1"
            if t[1] == "b":
                if unsol:
                    stats["unsol_fragments"] += 1
                elif fir:
                    series_start = last_sol_end
                    in_series_frags = 1
                    cur_single = set() if t[2] == "single" else None
                else:
                    in_series_frags += 1
            elif not unsol and fin:
                if cur_single is not None and t[2] == "single":
                    single_series.append(cur_single)
                cur_single = None
                if in_series_frags > 1:
                    stats["multi_fragment_series"] += 1
                last_sol_end = pos
                in_series_frags = 0
        elif k == "cleared":
            cleared.append((pos, int(t[1])))
        elif k == "conn":
            if t[1] == "connected":
                if connected_once:
                    stats["reconnects"] += 1
                    reconnects.append(pos)
                    if waiting is not None:
                        stats["reconnect_in_confirm_wait"] += 1
                        waiting = None
                connected_once = True
        elif k == "oi":
            waiting = pos if t[1] in ("solwait", "unsolwait") else None
        elif k == "popen":
            # all earlier connections have had their session started AND ended: the outstation has
            # cleaned up (error path); otherwise the server may replace the running session
            if not (n_oconn == n_popen and n_odisc == n_popen):
                overlapped.append(pos)
                stats["connections_overlapping_a_session"] += 1
            n_popen += 1
        elif k == "oconn":
            if t[1] == "connected":
                n_oconn += 1
            else:
                n_odisc += 1
        elif k == "cutfired":
            stats["cuts"] += 1
        elif k == "flipfired":
            stats["flips"] += 1
        elif k == "quiesced":
            outcome = "quiesced"
            stats["quiesced"] = 1
        elif k == "timeout":
            outcome = "timeout"
        elif k == "db":
            final_db[(t[1], int(t[2]))] = t[3:]
        elif k == "seen":
            final_seen[(t[1], int(t[2]))] = t[3:]

    # an event is delivered by content; contents of different updates of a point differ in the
    # generated scripts (unique time stamps / octets), so this identifies the event
    def event_proj(ty, e):
        return proj(ty, "event", e.value, e.flags, e.time)

    def describe(key):
        return "%s %d" % key

    # ---- (b) nothing fabricated -----------------------------------------------------------------
    delivered_events = {}        # (ty, idx, projection) -> first position
    for pos, ty, idx, kind, pr, raw, wstart in hlines:
        key = (ty, idx)
        if key not in ledger:
            fail("fabricated|unknown-point", "the handler received `%s` for a point the outstation does not have" % raw)
            continue
        if pr is None:
            fail("fabricated|shape", "the handler received `%s`: time/flags not of the shape the %s variation of %s carries" % (raw, kind, ty))
            continue
        if kind == "event":
            delivered_events.setdefault((ty, idx, pr), pos)
            ok = any(e.created is not None and e.mpos < pos and event_proj(ty, e) == pr for e in ledger[key])
            where = "an update of this point that created an event before the delivery"
        else:
            ents = ledger[key]

            def overwritten(e):
                # surely replaced before the request of this series was sent
                if wstart is None or e.dpos is None:
                    return False
                return any(o.mpos > e.dpos and o.dpos is not None and o.dpos < wstart for o in ents)
            ok = any(e.mpos < pos and not overwritten(e) and proj(ty, "static", e.value, e.flags, e.time) == pr for e in ents)
            where = "a value this point held between the end of the master's previous request and the delivery"
        if not ok:
            # say whose value it is, if anybody's
            other = None
            for k2, ents2 in ledger.items():
                for e in ents2:
                    try:
                        same = (proj(k2[0], kind, e.value, e.flags, e.time) == pr) if kind == "static" or k2[0] != "os" else ((e.value,) == pr)
                    except ValueError:
                        same = False
                    if same:
                        other = (k2, e)
                        break
                if other:
                    break
            if other and other[0] != key:
                fail("fabricated|cross-wired", "handler delivery `%s` is not %s; it is the value of %s (%s)" % (raw, where, describe(other[0]), other[1].what))
            elif other:
                fail("fabricated|stale", "handler delivery `%s` is not %s; the point held it at another time (%s)" % (raw, where, other[1].what))
            else:
                fail("fabricated|invented", "handler delivery `%s` is not %s, nor a value of any point" % (raw, where))

    def circumstance(e, until):
        """the open finding "session replaced" (residual of F16): a new TCP connection reaches the
        outstation while its session on the old connection has not ended; the server then replaces the
        session without the clean-up, and events of a response awaiting its confirm stay in the written
        state.  The signature records that such a connection was opened while the event was buffered;
        when every earlier session had ended before the connection was opened, the clean-up has run and
        a lost event is NOT this finding."""
        if any(e.mpos < r and (until is None or r < until) for r in overlapped):
            return "|connection-overlapping-session"
        return ""

    cleared_at = {}
    for pos, eid in cleared:
        cleared_at.setdefault(eid, pos)

    # an event may be released (event_cleared) only after a response that carried it reached the
    # handler: the master confirms after the handler has run
    for pos, eid in cleared:
        if eid not in events:
            fail("events|cleared-unknown", "event_cleared(%d): no update reported this id as created" % eid)
            continue
        ty, idx, e = events[eid]
        first = delivered_events.get((ty, idx, event_proj(ty, e)))
        if first is None or first > pos:
            fail("events|released-undelivered" + circumstance(e, pos), "event %d (%s, %s) was released by a confirm before any response carrying it reached the handler" % (eid, describe((ty, idx)), e.what))

    # ---- after quiescence -------------------------------------------------------------------------
    has_quiesce = any(op[0] == "quiesce" for op in ops)
    if has_quiesce and outcome != "quiesced":
        fail("converged|no-quiescence", "10 s after the last update/command/cut no integrity poll followed by an empty event poll had completed (%s)" % (outcome or "no outcome line"))
    if outcome == "quiesced":
        # the integrity poll issued by `quiesce` completed (AssociationHandle::read returned Ok): by C11 its
        # series carries every point, whether or not the master already had the value
        last_integrity = next((x for x in reversed(single_series) if x), None)
        if last_integrity is not None:
            for key in sorted(ledger):
                if key not in last_integrity:
                    fail("converged|integrity-incomplete", "%s: the integrity poll that completed after quiescence did not report this point"
                         % describe(key))
        # (a) converged
        for key in ledger:
            dbv, seen = final_db.get(key), final_seen.get(key)
            if dbv is None or dbv[0] == "missing":
                fail("harness|db", "no db line for %s" % describe(key))
                continue
            if seen is None or seen[0] == "never":
                fail("converged|never-seen", "%s: the handler never received this point although an integrity poll completed; database has %s" % (describe(key), " ".join(dbv)))
                continue
            want = proj(key[0], "static", dbv[0], dbv[1] if dbv[1] != "-" else 0, dbv[2])
            got = proj_h(key[0], "static", seen[0], seen[1] if seen[1] != "-" else 0, seen[2])
            if got is None and key[0] != "os":
                # the last delivery was an event: compare what both carry
                got = proj_h(key[0], "event", seen[0], seen[1], seen[2])
                want = proj(key[0], "event", dbv[0], dbv[1], dbv[2])
            if got != want:
                fail("converged|differs", "%s: after quiescence the handler's last value is `%s`, the database has `%s` (compared: value, wire flags%s)"
                     % (describe(key), " ".join(seen), " ".join(dbv), ", time" if len(want) == 3 else ""))
            # sanity of the ledger itself: the database holds the value of a last transaction
            ents = ledger[key]
            maximal = [e for e in ents if not any(o.mpos > (e.dpos if e.dpos is not None else 1 << 60) for o in ents)]
            if not any((e.value, e.flags if key[0] != "os" else 0) == (dbv[0], int(dbv[1]) if dbv[1] != "-" else 0) for e in maximal):
                fail("database|last-update", "%s: Database::get returns `%s`, which is not the value of the last update (%s)"
                     % (describe(key), " ".join(dbv), "; ".join(e.what for e in maximal)))
        # (c) every event not discarded reached the handler
        for eid, (ty, idx, e) in sorted(events.items()):
            if eid in discarded:
                continue
            if (ty, idx, event_proj(ty, e)) not in delivered_events:
                fail("events|undelivered" + circumstance(e, cleared_at.get(eid)), "event %d (%s, %s) was created, never reported as discarded by overflow, and never reached the handler as an event"
                     % (eid, describe((ty, idx)), e.what))
    return fails, stats


# ------------------------------------------------------------------------------------------------

class C02(Prop):
    id = "C02"
    translators = []
    proof_targets = ["System/PairProofs.vo", "System/PairTraceProofs.vo"]
    property_file = "Properties/C02.v"
    theorems = []
    modelled = ("C02 is PARTIAL: the theorems are about the abstract composition coq/System/Pair.v, whose step rules are "
                "the per-layer guarantees (C06/C08, C09/C10, C11, C03, C15, C17), not about the Rust code; the real "
                "multi-threaded scheduling, TCP, the reconnect timing and the tokio runtime are NOT modelled: they are "
                "sampled by the end-to-end run of the real stack (/verif/pairtest, public API, loopback TCP through a "
                "re-chunking / cutting / corrupting proxy), whose trace is checked directly by the oracle; the tie between "
                "the two is the trace abstraction: every recorded run must be accepted by the function `explain` extracted "
                "from coq/System/PairTrace.v as a run of the abstract system (theorems C02_explained_*: then the oracle's "
                "clauses follow from the theorems about all abstract runs)")
    extra_assumptions = ["trusted for the end-to-end part: /verif/pairtest (handlers, proxy, trace order = order of a "
                         "process-wide mutex), the ledger replay in tools/props/c02.py, loopback TCP of the sandbox kernel",
                         "trusted for the trace abstraction: tools/props/c02abs.py (which trace lines become which label and "
                         "observation, the admissible places of the labels the trace does not fix; its Python mirror of `step` only "
                         "prunes the search, the verdict is the extracted function's), ocaml/eng_pairabs.ml (script reader)"]

    def __init__(self):
        self.totals = {}
        self.scripts_run = 0
        self.expected = {}       # trace hash -> verdict of the abstraction check when the run is explained
        self.abstraction = {"runs": 0, "explained_runs": 0, "explained_runs_quiescent_shape": 0, "unexplained_runs": [],
                            "labels": 0, "placements_searched": 0, "runs_needing_search": 0, "label_kinds": {}}

    def canon(self, lines, side):
        """correspondence of engine `pair` with the abstract system: the implementation trace stands for the
        verdict an explained run gets, the model trace is the verdict of the extracted acceptance function"""
        if side == "impl":
            return self.expected.get(trace_hash(lines), ["no abstraction of this trace was made"])
        return lines

    def broken_correspondences(self):
        u = self.abstraction["unexplained_runs"]
        if not u:
            return []
        return [("correspondence-pair-abstraction",
                 "%d of %d recorded runs of the real stack are NOT runs of coq/System/Pair.v (the extracted PairTrace.explain "
                 "rejects every label placement found by the search): %s; see the MISMATCH lines (model = verdict with the first "
                 "label whose abstract effect differs from what the trace shows)" % (len(u), self.abstraction["runs"], ", ".join(u[:8])))]

    def coverage_extra(self):
        a = dict(self.abstraction)
        a["what"] = ("trace abstraction: runs of the real stack accepted by the extracted PairTrace.explain as runs of System/Pair.v; "
                     "placements_searched = label placements tried by the search over the places the trace does not fix "
                     "(response formed somewhere before its delivery, transaction between its marker and its updinfo line, late confirm)")
        return {"pair_abstraction": a}

    @property
    def rule(self):
        return ("engine pair: per script a fresh multi-thread runtime (2-8 workers) with outstation TCP server, byte proxy and "
                "master TCP client (startup integrity, integrity on overflow IIN, class 1/2/3 poll every 30-80 ms, unsolicited "
                "on/off, reconnect 15 ms, response timeout 500 ms, confirm timeout 100/300 ms); 3..80 points over the eight "
                "types and classes 1/2/3/none (kind wide: enough points of one type for multi-fragment static data), event "
                "buffers 1..5 per type (kind burst: up to 40), rx/tx buffers from 249, both link error modes; ops: update "
                "(single and multi-point transactions, detect/force), direct-operate commands whose ControlHandler updates an "
                "analog output status, cut, cut at a byte offset, corrupt one byte, re-chunk 1..4096 with optional gaps, "
                "half-open connections (outstation side of a cut connection lingers 30-200 ms), waits; then quiesce. Oracle "
                "clauses: converged (seen = db per point in the fields the static variation carries; the integrity poll that "
                "completed after quiescence reported every point), fabricated (every handler delivery is a value the point "
                "held before the delivery, of that point and type; static values not older than the end of the master's "
                "previous request), events (every created, not overflow-discarded event reached the handler; no event "
                "released before it was delivered), no panic, quiescence within 10 s. non-trivial = an event delivered and a "
                "cut survived (reconnected) and quiesced. Correspondence: every run mapped to labels of System/Pair.v and accepted by "
                "the extracted PairTrace.explain (engine pairabs). totals over this run: %s; trace abstraction: %s"
                % (json.dumps(self.totals, sort_keys=True), json.dumps(self.abstraction, sort_keys=True)))

    # ---- case generation -------------------------------------------------------------------------

    def gen_value(self, rng, ty, serial, prev):
        if ty in ("bi", "bos"):
            return str(1 - int(prev)) if rng.chance(3, 4) else str(rng.below(2))
        if ty == "dbbi":
            return str(rng.below(4))
        if ty in ("ctr", "fctr"):
            return str(rng.choice([0, 1, 2, 1000, 65535, 65536, 4294967295, rng.below(1 << 32), serial]))
        if ty in ("ai", "aos"):
            return rng.choice(F64_POOL) if rng.chance(1, 2) else "%016x" % rng.below(1 << 64)
        return hexs(bytes([serial & 0xFF, (serial >> 8) & 0xFF]) + rng.bytes(rng.below(14)))

    def gen_script(self, rng, sid, kind):
        cfg = {
            "unsol": rng.below(2),
            "discard": rng.below(2),
            "poll": rng.choice([30, 50, 80]),
            "cto": rng.choice([100, 300]),
            "evscan": rng.below(2),
            "chunk": rng.choice([1, 2, 3, 7, 16, 17, 64, 100, 292, 293, 1000, 4096]),
            "osol": rng.choice([249, 249, 250, 300, 512, 2048]),
            "ounsol": rng.choice([249, 249, 260, 512, 2048]),
            "orx": rng.choice([249, 249, 300, 2048]),
            "mtx": rng.choice([249, 249, 2048]),
            "workers": rng.choice([2, 3, 4, 8]),
        }
        big = kind == "burst"
        cfg["ev"] = ",".join(str(rng.range(8, 40) if big and rng.chance(1, 2) else rng.range(1, 5)) for _ in range(8))
        ops = []
        points = []
        values = {}
        # points: several types, several classes
        if kind == "wide":
            # enough points of one type for the static data to span several fragments of a small buffer
            ty, lo, hi = rng.choice([("ai", 30, 45), ("aos", 30, 45), ("ctr", 52, 70), ("fctr", 24, 36)])
            cnt = rng.range(lo, hi)
            cfg["osol"] = rng.choice([249, 249, 250, 300])
            start = rng.choice([0, 0, 1, 250, 65536 - cnt])
            for i in range(cnt):
                points.append((ty, start + i, rng.choice(["1", "2", "3"])))
        ntypes = rng.range(3, 6)
        tys = list(TYPES)
        rng.shuffle(tys)
        for ty in tys[:ntypes]:
            base = rng.choice([0, 0, 0, 1, 5, 254, 65530])
            for i in range(rng.range(1, 3)):
                idx = base + i * rng.choice([1, 1, 2])
                if idx <= 65535 and not any(p[0] == ty and p[1] == idx for p in points):
                    points.append((ty, idx, rng.choice(["1", "2", "3", "1", "2", "3", "none"])))
        if not any(p[0] == "aos" for p in points) and rng.chance(1, 2):
            points.append(("aos", rng.below(3), rng.choice(["1", "2", "3"])))
        if rng.chance(1, 4):
            # half-open connections: the outstation's side of a dead connection stays open for a while,
            # so the master's new connection can arrive first (the server then replaces the session)
            cfg["linger"] = rng.choice([30, 60, 200])
        for ty, idx, cls in points:
            ops.append(["add", ty, idx, cls])
            values[(ty, idx)] = DEFAULTS[ty]
        serial = 0
        budget_ms = 0
        flips = 0
        cuts = 0
        in_batch = 0
        nops = rng.range(30, 70) if big else rng.range(18, 45)

        def update():
            nonlocal serial
            serial += 1
            ty, idx, cls = rng.choice(points)
            if big and rng.chance(2, 3):
                ty, idx, cls = points[rng.below(min(3, len(points)))]
            v = self.gen_value(rng, ty, serial, values[(ty, idx)])
            values[(ty, idx)] = v
            if ty == "os":
                return ["update", ty, idx, v, 0, "none"]
            fl = rng.choice(FLAGS_POOL) if rng.chance(4, 5) else rng.below(256)
            tm = "%s%d" % (rng.choice(["s", "s", "s", "u"]), 1000000000 + 10 * serial)
            op = ["update", ty, idx, v, fl, tm]
            if rng.chance(1, 5):
                op.append("force")
            return op

        ops.append(["wait", rng.choice([0, 5, 30, 60])])
        for _ in range(nops):
            if in_batch:
                ops.append(update())
                in_batch -= 1
                if in_batch == 0:
                    ops.append(["commit"])
                continue
            r = rng.below(100)
            if r < 50:
                ops.append(update())
            elif r < 58:
                ops.append(["begin"])
                in_batch = rng.range(2, 6)
            elif r < 63:
                aos = [p for p in points if p[0] == "aos"]
                if aos:
                    serial += 1
                    p = rng.choice(aos)
                    ops.append(["command", p[1], 100 + serial])
                else:
                    ops.append(update())
            elif r < 70 and cuts < 5:
                ops.append(["cut"])
                cuts += 1
            elif r < 77 and cuts < 5:
                ops.append(["cutat", rng.choice(["m2o", "o2m", "o2m"]), rng.choice([1, 2, 9, 10, 11, 17, 18, 27, 100, 292, rng.range(1, 700)])])
                cuts += 1
            elif r < 80 and flips < 2:
                ops.append(["flipat", rng.choice(["m2o", "o2m"]), rng.range(0, 300), 1 << rng.below(8)])
                flips += 1
            elif r < 88:
                c = rng.choice([1, 1, 2, 3, 5, 16, 17, 18, 100, 249, 292, 1024, 4096])
                ops.append(["chunk", c])
                # a gap between the pieces only when the pieces are large enough for the link to stay
                # usable within the response timeout
                ops.append(["gap", rng.choice([0, 0, 200, 1000]) if c >= 16 else 0])
            elif budget_ms < 700:
                w = rng.choice([1, 2, 5, 10, 20, 40, 60, 120])
                budget_ms += w
                ops.append(["wait", w])
            else:
                ops.append(update())
        if in_batch:
            ops.append(["commit"])
        if cuts == 0:
            ops.insert(len(points) + 2, ["cut"])
        if rng.chance(1, 3):
            ops.append(["wait", rng.choice([0, 10, 100])])
        ops.append(["quiesce"])
        return Case(sid, script_text(sid, "pair", cfg, ops),
                    {"kind": "%s-unsol%d" % (kind, cfg["unsol"]), "nops": len(ops)})

    def cases(self, rng, tier):
        d = os.path.join(VERIF, "replays", self.id)
        if os.path.isdir(d):
            for f in os.listdir(d):
                if f.startswith("violation_") or f == "unexplained.json":
                    os.remove(os.path.join(d, f))
        n = 48 if tier == "quick" else 640
        out = []
        for i in range(n):
            kind = ["mixed", "mixed", "burst", "wide"][i % 4]
            out.append(self.gen_script(rng, "c02_%d" % i, kind))
        # event responses of SEVERAL fragments cut while a later fragment is in flight (seeded change C02_a was caught
        # by chance only): smallest solicited buffer, a burst larger than one fragment, then a cut at an octet offset
        # that falls behind the first fragment of the next poll's response
        for i in range(8 if tier == "quick" else 80):
            out.append(self.gen_evfrag(rng, "c02_f_%d" % i))
        return out

    def gen_evfrag(self, rng, sid):
        cfg = {"unsol": 0, "discard": rng.below(2), "poll": rng.choice([30, 50]), "cto": 300, "evscan": rng.below(2),
               "chunk": rng.choice([64, 292, 1000, 4096]), "osol": 249, "ounsol": 249, "orx": 2048, "mtx": 2048,
               "workers": rng.choice([2, 4]), "ev": ",".join(["60"] * 8)}
        points = [("bi", 0, "1"), ("ai", 1, "2"), ("ctr", 2, "3")]
        ops = [["add", ty, idx, cls] for ty, idx, cls in points]
        values = {(ty, idx): DEFAULTS[ty] for ty, idx, cls in points}
        serial = 0
        ops.append(["wait", 40])
        for rnd in range(rng.range(2, 3)):
            ops.append(["begin"])
            for k in range(rng.range(36, 50)):
                serial += 1
                ty, idx, cls = points[k % 2]
                v = self.gen_value(rng, ty, serial, values[(ty, idx)])
                values[(ty, idx)] = v
                ops.append(["update", ty, idx, v, 1, "s%d" % (1000000000 + 10 * serial)])
            ops.append(["commit"])
            ops.append(["cutat", "o2m", rng.choice([300, 330, 360, 400, 450, 520, 600])])
            ops.append(["wait", rng.choice([60, 120, 200])])
        ops.append(["quiesce"])
        return Case(sid, script_text(sid, "pair", cfg, ops), {"kind": "evfrag-unsol0", "nops": len(ops)})

    # ---- oracle ------------------------------------------------------------------------------------

    def _analyse(self, case, impl):
        key = hashlib.sha256(("\n".join(impl)).encode()).hexdigest()
        if case.meta.get("_akey") != key:
            case.meta["_akey"] = key
            fails, stats = analyse(case.script, impl)
            case.meta["_fails"], case.meta["stats"] = fails, stats
            self.scripts_run += 1
            for k, v in stats.items():
                self.totals[k] = self.totals.get(k, 0) + v
            if any(c.endswith("|connection-overlapping-session") for c, _ in fails):
                self.totals["scripts_showing_known_finding_session_replaced"] = \
                    self.totals.get("scripts_showing_known_finding_session_replaced", 0) + 1
            self.totals["scripts"] = self.scripts_run
        return case.meta["_fails"], case.meta["stats"]

    def oracle(self, case, impl):
        return list(self._analyse(case, impl)[0])

    def nontrivial(self, case, impl):
        st = self._analyse(case, impl)[1]
        return st["event_deliveries"] > 0 and st["cuts"] > 0 and st["reconnects"] > 0 and st["quiesced"] == 1

    def finding_signature(self, case, clause, desc):
        return clause


PROP = C02()
