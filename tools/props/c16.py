"""C16 — Commands succeed only if truly accepted; every request gets exactly one outcome."""
from propcheck import *
from mcommon import *

TIMEOUT = 1000
USER_TYPES = ("user_read", "command", "restart", "write_dead_bands")


def mutate_echo(rng, hs):
    """a reply that differs from the faithful echo in exactly one place.
    -> (label, object bytes, verdict, expected error kind or None when the generator does not fix it)"""
    hs = [(g, v, w, [(i, bytes(o)) for i, o in its]) for g, v, w, its in hs]
    k = rng.choice(["header_type_group", "header_type_var", "header_type_qual", "count_more", "count_less", "index",
                    "value", "status", "order_items", "order_headers", "extra_header", "missing_header", "zero_sign",
                    "truncated", "foreign_header", "empty"])
    hi = rng.below(len(hs))
    g, v, w, its = hs[hi]
    if k == "header_type_group":
        # another command variation with the same object size keeps the section well-formed
        same = [(g2, v2) for (g2, v2), sz in CMD_SIZES.items() if sz == CMD_SIZES[(g, v)] and (g2, v2) != (g, v)]
        if not same:
            return mutate_echo(rng, hs)
        g2, v2 = same[0]
        hs[hi] = (g2, v2, w, its)
        return k, encode_headers(hs), "ok", "header_type"
    if k == "header_type_var":
        return mutate_echo(rng, hs) if True else None
    if k == "header_type_qual":
        # the same objects under the other index width
        if any(i > 255 for i, _ in its):
            return mutate_echo(rng, hs)
        hs[hi] = (g, v, not w, its)
        return k, encode_headers(hs), "ok", "header_type"
    if k == "count_more":
        hs[hi] = (g, v, w, its + [its[-1]])
        return k, encode_headers(hs), "ok", "object_count"
    if k == "count_less":
        hs[hi] = (g, v, w, its[:-1])
        return k, encode_headers(hs), "ok", "object_count"
    if k == "index":
        j = rng.below(len(its))
        lim = 65536 if w else 256
        its[j] = ((its[j][0] + rng.range(1, lim - 1)) % lim, its[j][1])
        return k, encode_headers(hs), "ok", "object_value"
    if k == "value":
        j = rng.below(len(its))
        o = bytearray(its[j][1])
        if (g, v) in ((41, 3), (41, 4)):
            o[0] ^= 1 << rng.below(8)         # low mantissa bits: never turns a number into another encoding of it
        else:
            o[rng.below(len(o) - 1)] ^= 1 << rng.below(8)
        nan = has_nan([(g, v, w, [(0, bytes(o))])]) or has_nan([(g, v, w, [(0, its[j][1])])])
        its[j] = (its[j][0], bytes(o))
        return k, encode_headers(hs), "ok", "object_value" if not nan else None
    if k == "status":
        j = rng.below(len(its))
        st = rng.choice([1, 2, 4, 6, 9, 20, 126, 127, 255])
        its[j] = (its[j][0], its[j][1][:-1] + bytes([st]))
        return k, encode_headers(hs), "ok", "status:%d" % st
    if k == "order_items":
        if len(its) < 2 or its[0] == its[1]:
            return mutate_echo(rng, hs)
        its[0], its[1] = its[1], its[0]
        return k, encode_headers(hs), "ok", "object_value"
    if k == "order_headers":
        if len(hs) < 2 or hs[0] == hs[1]:
            return mutate_echo(rng, hs)
        hs[0], hs[1] = hs[1], hs[0]
        return k, encode_headers(hs), "ok", None
    if k == "extra_header":
        return k, encode_headers(hs + [hs[-1]]), "ok", "header_count"
    if k == "missing_header":
        return k, encode_headers(hs[:-1]), "ok", "header_count"
    if k == "zero_sign":
        # candidate F14: -0.0 echoed as +0.0 (or the reverse)
        for j, (i, o) in enumerate(its):
            if (g, v) in ((41, 3), (41, 4)) and int.from_bytes(o[:-1], "little") & ~(1 << (8 * (len(o) - 1) - 1)) == 0:
                o2 = bytearray(o)
                o2[-2] ^= 0x80
                its[j] = (i, bytes(o2))
                return k, encode_headers(hs), "ok", "object_value"
        return mutate_echo(rng, hs)
    if k == "truncated":
        data = encode_headers(hs)
        return k, data[:len(data) - rng.range(1, min(3, len(data) - 1))], "bad", "malformed"
    if k == "foreign_header":
        o = Objs()
        o.g1v2(0, [0x81])
        return k, o.data + encode_headers(hs[1:]), "ok", "header_type"
    return k, b"", "ok", "header_count"


class C16(MasterProp):
    id = "C16"
    translators = ["gen_master_tables"]
    proof_targets = ["Master/CommandProofs.vo", "Master/MTaskProofs.vo", "Master/TablesAgree.vo"]
    property_file = "Properties/C16.v"
    theorems = []
    modelled = ("modelled by hand: master/request.rs (CommandHeaders::write / compare, compare_items), "
                "master/tasks/command.rs (Select -> Operate), promises as linear tokens, the request queue and every "
                "failure path of master/task.rs + association.rs (reset, missing association, no connection, full "
                "queue, disable, shutdown) (Master/Command.v, Master/MTask.v); command objects are their wire octets, "
                "f32/f64 equality is IEEE equality on the bit patterns")
    rule = ("engine master: command sets over all five control variations (g12v1, g41v1..v4), 8- and 16-bit indices, "
            "1-3 headers, select-before-operate and direct operate; replies = the faithful echo or an echo differing in "
            "exactly one place (header type, qualifier, object count, index, value bit, status, order of objects or "
            "headers, extra / missing header, sign of a floating point zero, truncation), at the SELECT or the OPERATE "
            "step; cut points (lost reply, connection loss, disable, association removal, shutdown) at every step with "
            "0-3 further requests of every kind queued behind; queue overflow, requests without connection, oversized "
            "requests; link-status checks with user messages arriving while they wait; the oracle judges every "
            "completion from the trace (outstanding request, FIFO of tokens) and the script")

    # ---------------------------------------------------------------------------------------
    def other_request(self, s, rng):
        k = rng.below(6)
        if k == 0:
            return s.user("read", rng.choice(["class:1", "class:14", "hdr:1e0106"])), "read"
        if k == 1:
            return s.user(rng.choice(["cold_restart", "warm_restart"])), "restart"
        if k == 2:
            return s.user("empty", rng.choice([2, 9, 22]), "hdr:3c0206"), "empty"
        if k == 3:
            return s.user("deadband", "34.%d/16/%d=%s" % (rng.choice([2, 3]), rng.below(65536), rng.bytes(4).hex())), "deadband"
        if k == 4:
            hs = rand_command(rng, 1, 2)
            return s.user("do", *header_tokens(hs), meta={"headers": hs}), "do"
        return s.user("link_status"), "link_status"

    def good_reply(self, rng, kind, seq, hs=None, con=None):
        con = rng.chance(1, 3) if con is None else con
        if kind in ("do", "sbo"):
            return response(ctrl(1, 1, con, 0, seq), rng.choice([0, 2, 0x10]), 0, encode_headers(hs)), "ok", []
        if kind == "restart":
            return response(ctrl(1, 1, con, 0, seq), 0, 0, bytes([52, 2, 7, 1, 0x34, 0x12])), "ok", []
        if kind == "read":
            o = rand_objs(rng, 2)
            return response(ctrl(1, 1, con, 0, seq), 0, 0, o.data), "ok", o.items
        return response(ctrl(1, 1, con, 0, seq), 0, 0, b""), "ok", []

    def cut(self, s, rng):
        """something that ends the outstanding step other than a reply"""
        how = rng.choice(["timeout", "timeout", "drop_io", "disable", "remove", "shutdown"])
        if how == "timeout":
            s.sleep(TIMEOUT + rng.choice([0, 1, 7]))
        else:
            s.op(how)
        return how

    def cases(self, rng, tier):
        n = 420 if tier == "quick" else 6000
        out = []
        for i in range(n):
            sid = "c16_%d" % i
            fam = rng.choice(["echo", "echo", "echo", "cut", "cut", "kinds", "overflow", "offline", "link", "big", "f14", "midread"])
            cfg = {"timeout": TIMEOUT}
            if rng.chance(1, 8):
                cfg["decode"] = rng.choice([1, 3])
            s = Script(sid, cfg)
            labels = {}
            if fam == "echo" or fam == "f14":
                for _ in range(rng.range(1, 3) if fam == "echo" else 1):
                    sbo = rng.chance(1, 2)
                    hs = rand_command(rng, 3, 3)
                    if fam == "f14":
                        hs = [(41, rng.choice([3, 4]), rng.chance(1, 2), [(rng.below(200), b"")])]
                        g, v, w, its = hs[0]
                        zero = rng.choice([0, 1 << (31 if v == 3 else 63)])
                        hs = [(g, v, w, [(its[0][0], zero.to_bytes(4 if v == 3 else 8, "little") + b"\x00")])]
                    tok = s.user("sbo" if sbo else "do", *header_tokens(hs), meta={"headers": hs})
                    seq = s.take_seq()
                    steps = 2 if sbo else 1
                    bad_step = rng.below(steps + 1)          # == steps: every reply is faithful
                    if fam == "f14":
                        bad_step = rng.below(steps)
                    for step in range(steps):
                        if rng.chance(1, 4):
                            # an unsolicited response while the command waits
                            o = rand_objs(rng, 1)
                            s.rx(response(ctrl(1, 1, 1, 1, rng.below(16)), 0, 0, o.data, 0x82), "ok", o.items)
                        if step == bad_step:
                            if fam == "f14":
                                lab, objs, verdict, kind = "zero_sign", None, "ok", "object_value"
                                g, v, w, its = hs[0]
                                o2 = bytearray(its[0][1]); o2[-2] ^= 0x80
                                objs = encode_headers([(g, v, w, [(its[0][0], bytes(o2))])])
                            else:
                                lab, objs, verdict, kind = mutate_echo(rng, hs)
                            if rng.chance(1, 8):
                                lab, kind = "iin2", None
                                labels[len(s.ops)] = [lab, None, tok]
                                s.rx(response(ctrl(1, 1, 0, 0, seq), 0, rng.choice([1, 2, 4]), encode_headers(hs)), "ok", [])
                            else:
                                labels[len(s.ops)] = [lab, kind, tok]
                                s.rx(response(ctrl(1, 1, rng.chance(1, 4), 0, seq), 0, 0, objs), verdict, [])
                            break
                        f, vd, items = self.good_reply(rng, "do", seq, hs)
                        labels[len(s.ops)] = ["faithful", "ok" if step == steps - 1 else "operate", tok]
                        s.rx(f, vd, items)
                        if step == 0 and sbo:
                            seq = s.take_seq()
                s.sleep(TIMEOUT + 20)
            elif fam == "cut":
                # a multi-step task cut at a chosen step, with further requests queued behind it
                kind = rng.choice(["sbo", "sbo", "do", "read", "restart", "empty", "link_status"])
                hs = rand_command(rng, 2, 2) if kind in ("sbo", "do") else None
                if kind in ("sbo", "do"):
                    s.user(kind, *header_tokens(hs), meta={"headers": hs})
                elif kind == "read":
                    s.user("read", "class:15")
                elif kind == "restart":
                    s.user("cold_restart")
                elif kind == "empty":
                    s.user("empty", 2, "hdr:3c0206")
                else:
                    s.user("link_status")
                seq = s.take_seq() if kind != "link_status" else None
                for _ in range(rng.below(4)):
                    self.other_request(s, rng)
                steps = {"sbo": 2, "read": rng.range(1, 3)}.get(kind, 1)
                cut_at = rng.below(steps)
                for step in range(cut_at):
                    if kind == "sbo":
                        f, vd, items = self.good_reply(rng, "do", seq, hs)
                        s.rx(f, vd, items)
                        seq = s.take_seq()
                    elif kind == "read":
                        o = rand_objs(rng, 1)
                        s.rx(response(ctrl(step == 0, 0, 1, 0, seq), 0, 0, o.data), "ok", o.items)
                        seq = s.take_seq()
                how = self.cut(s, rng)
                # afterwards the channel is brought back and serves a new request
                if how == "drop_io":
                    s.sleep(rng.choice([0, 50]))
                    if rng.chance(1, 2):
                        self.other_request(s, rng)       # no connection
                    s.op("connect")
                elif how == "disable":
                    if rng.chance(1, 2):
                        self.other_request(s, rng)
                    s.op("enable")
                if how not in ("shutdown",):
                    self.other_request(s, rng)
                s.sleep(6 * TIMEOUT + 50)
            elif fam == "kinds":
                # every kind of request, answered or not, exactly one outcome each
                for _ in range(rng.range(2, 6)):
                    tok, kind = self.other_request(s, rng)
                    if kind == "link_status":
                        s.sleep(rng.choice([10, TIMEOUT + 5]))
                        if rng.chance(1, 2):
                            o = rand_objs(rng, 1)
                            s.rx(response(ctrl(1, 1, 0, 0, rng.below(16)), 0, 0, o.data), "ok", o.items)
                        continue
                    seq = s.take_seq()
                    r = rng.below(5)
                    if r <= 2:
                        hs = s.tokens[tok].get("headers")
                        f, vd, items = self.good_reply(rng, kind, seq, hs)
                        s.rx(f, vd, items)
                    elif r == 3:
                        o = rand_objs(rng, 1)
                        s.rx(response(ctrl(1, 1, 0, 0, seq), 0, rng.choice([0, 0, 2]), o.data), "ok",
                             o.items if kind == "read" else [])
                    else:
                        s.sleep(TIMEOUT + 3)
                s.sleep(TIMEOUT + 20)
            elif fam == "midread":
                # a stop (disable / link failure / shutdown) or a removal BETWEEN the fragments of a multi-fragment READ:
                # the read ends there with the matching error, nothing more is transmitted (seeded change R7_v)
                tok = s.user("read", rng.choice(["class:15", "class:1", "hdr:1e0106"]))
                seq = s.take_seq()
                k = rng.range(1, 3)
                for j in range(k):
                    o = rand_objs(rng, 2)
                    s.rx(response(ctrl(j == 0, 0, 1, 0, (seq + j) & 15), 0, 0, o.data), "ok", o.items)
                    s.take_seq()
                s.op(rng.choice(["disable", "disable", "drop_io", "shutdown"]))
                if rng.chance(1, 2):
                    o = rand_objs(rng, 1)
                    s.rx(response(ctrl(0, 1, 0, 0, (seq + k) & 15), 0, 0, o.data), "ok", o.items)
                if rng.chance(1, 2):
                    self.other_request(s, rng)
                s.op(rng.choice(["enable", "connect"]))
                s.sleep(3 * TIMEOUT)
            elif fam == "overflow":
                s.cfg["maxq"] = rng.range(1, 3)
                for _ in range(rng.range(3, 7)):
                    self.other_request(s, rng)
                if rng.chance(1, 2):
                    s.op(rng.choice(["disable", "drop_io", "remove", "shutdown"]))
                s.sleep(8 * TIMEOUT)
            elif fam == "offline":
                s.op(rng.choice(["disable", "drop_io"]))
                for _ in range(rng.range(1, 3)):
                    self.other_request(s, rng)
                if rng.chance(1, 3):
                    s.op("remove")
                    self.other_request(s, rng)
                s.op(rng.choice(["enable", "connect"]))
                s.op(rng.choice(["enable", "connect"]))
                self.other_request(s, rng)
                s.sleep(3 * TIMEOUT)
            elif fam == "link":
                # user messages arrive while a link status check waits
                s.user("link_status")
                for _ in range(rng.range(1, 5)):
                    s.sleep(rng.choice([100, 400, 700]))
                    if rng.chance(1, 2):
                        self.other_request(s, rng)
                    else:
                        s.op("enable")
                s.sleep(8 * TIMEOUT)
            else:
                # requests around the size of the transmit buffer (249): 20 g12v1 objects fit, 21 do not
                nobj = rng.choice([19, 20, 21, 22])
                hs = [(12, 1, False, [(j, cmd_object(rng, 12, 1)) for j in range(nobj)])]
                tok = s.user(rng.choice(["do", "sbo"]), *header_tokens(hs), meta={"headers": hs, "size": 2 + len(encode_headers(hs))})
                seq = s.take_seq()
                if 2 + len(encode_headers(hs)) <= 249:
                    f, vd, items = self.good_reply(rng, "do", seq, hs)
                    s.rx(f, vd, items)
                    if s.tokens[tok]["kind"] == "sbo":
                        seq = s.take_seq()
                        f, vd, items = self.good_reply(rng, "do", seq, hs)
                        s.rx(f, vd, items)
                self.other_request(s, rng)
                s.sleep(2 * TIMEOUT)
            if s.ops[-1][0] != "shutdown":
                s.sleep((2 * len(s.tokens) + 2) * TIMEOUT)
            out.append(s.case(fam, {"labels": {str(k): v for k, v in labels.items()}}))
        return out

    # ---------------------------------------------------------------------------------------
    def oracle(self, case, impl):
        fails = machinery_failures(impl)
        cfg, ops = parse_script(case.script)
        timeout = int(cfg.get("timeout", "1000"))
        maxq = int(cfg.get("maxq", "16"))
        txsize = int(cfg.get("txsize", "249"))
        init, groups = split_trace(impl)
        tokmeta = case.meta.get("tokens", {})
        labels = case.meta.get("labels", {})
        link_tokens = [o[1] for o in ops if o[0] == "user" and o[2] == "link_status"]
        tr = Tracker(link_tokens)
        for t, w in init:
            tr.feed(t, w)
        queue = []            # tokens accepted into the request queue, not yet started
        running = None        # token of the user task that is outstanding
        outcomes = {}         # token -> list of results
        submitted = []
        removed = False
        stopped = False
        select_ok = {}        # token -> the SELECT echo was judged faithful
        last_t = 0

        def sent_headers(tok):
            m = tokmeta.get(tok, {})
            return meta_headers(m["headers"]) if "headers" in m else None

        for k, lines in enumerate(groups):
            if k >= len(ops):
                break
            op = ops[k]
            words = [w for t, w in lines]
            if any(w == ["ignored"] for w in words):
                stopped = True
                continue
            pre = tr.cur.copy() if tr.cur is not None else None
            pre_connected = tr.connected
            pre_running, pre_queue = running, list(queue)
            frag = bytes.fromhex(op[2]) if op[0] == "rx" and op[2] != "-" else (b"" if op[0] == "rx" else None)
            where = "op %d (%s)" % (k, " ".join(op)[:90])
            new_tok = None
            if op[0] == "user":
                new_tok = op[1]
                submitted.append(new_tok)
                queue.append(new_tok)
            if op[0] == "remove":
                removed = True
            pv = next((w[1] for w in words if w[0] == "pv"), None)
            h = Hdr(frag) if frag is not None else None
            operate_tx = None
            for t, w in lines:
                last_t = max(last_t, t)
                tr.feed(t, w, frag)
                if (w[0] == "info" and w[1] == "task_start" and (w[2] in USER_TYPES or w[2].startswith("empty_response"))) \
                        or w[0] == "tx-link-status-request":
                    if queue:
                        running = queue.pop(0)
                    else:
                        fails.append(("one-outcome", "a user task started that nobody requested: " + where))
                if w[0] == "tx" and len(w) == 3 and w[2] != "-":
                    d = bytes.fromhex(w[2])
                    if len(d) >= 2 and d[1] == 4:
                        operate_tx = d
                if w[0] == "res":
                    tok = w[1]
                    outcomes.setdefault(tok, []).append(w[2:])
                    if tok == running:
                        running = None
                    if tok in queue:
                        queue.remove(tok)

            # OPERATE only after a faithful SELECT echo, next sequence, same objects
            if operate_tx is not None:
                ok = (op[0] == "rx" and h.ok and not h.unsol and pre is not None and pre.fc == 3 and int(op[1]) == ADDR
                      and h.seq == pre.seq and h.fir and h.fin and not h.iin2_bad and pv == "ok")
                if not ok:
                    fails.append(("operate-after-faithful-select", "OPERATE written without an accepted SELECT response: " + where))
                else:
                    sent, _ = parse_command_headers(pre.objs)
                    if not faithful(sent, h.objs):
                        sig = "zero-sign" if only_zero_sign_differs(sent, h.objs) else "other"
                        fails.append(("operate-after-unfaithful-select/" + sig,
                                      "OPERATE written although the SELECT echo differs from the request: " + where))
                        if sig == "zero-sign":
                            select_ok[pre_running] = True      # reported here, under its own signature
                    else:
                        select_ok[pre_running] = True
                    if operate_tx[2:] != pre.objs or (operate_tx[0] & 15) != ((pre.seq + 1) & 15) or operate_tx[0] & 0xF0 != 0xC0:
                        fails.append(("operate-after-faithful-select",
                                      "OPERATE does not carry the SELECT's objects with the next sequence number: " + where))

            # a disable / shutdown / link failure ends the running task in the step in which it happens - in EVERY phase
            # of the task (seeded change R7_v: a disable between the fragments of a READ was swallowed)
            if op[0] in ("disable", "shutdown", "drop_io") and pre_running is not None and running == pre_running:
                fails.append(("stop-ignored", "the running task %s survived `%s`: no outcome in that step: %s" % (pre_running, op[0], where)))

            # judge every completion of this step
            for w in words:
                if w[0] != "res":
                    continue
                tok, res = w[1], w[2:]
                text = " ".join(res)
                m = tokmeta.get(tok, {})
                if tok == new_tok and tok != pre_running and not any(
                        x[0] == "info" and x[1] == "task_start" for x in words) and not any(x[0] == "tx-link-status-request" for x in words):
                    # failed at submission
                    if removed:
                        want = "err no_association"
                    elif not pre_connected:
                        want = "err no_connection"
                    else:
                        want = "err too_many_requests"
                        if len(pre_queue) < maxq:
                            fails.append(("corresponding-error", "request refused although the queue had room: " + where))
                    if text != want:
                        fails.append(("corresponding-error", "outcome `%s`, expected `%s`: %s" % (text, want, where)))
                    continue
                if res[0] == "dropped":
                    if not (op[0] == "remove" and tok in pre_queue):
                        fails.append(("one-outcome/dropped", "the promise of %s was dropped without an outcome: %s" % (tok, where)))
                    continue
                was_running = tok == pre_running or (tok == new_tok and tok not in pre_queue)
                if op[0] in ("disable", "drop_io", "shutdown"):
                    want = {"disable": "err disabled", "drop_io": "err link", "shutdown": "err shutdown"}[op[0]]
                    if text != want:
                        fails.append(("corresponding-error", "outcome `%s`, expected `%s`: %s" % (text, want, where)))
                    continue
                if op[0] == "rx" and was_running:
                    if tok in link_tokens:
                        want = ["err bad_headers"]
                    elif not h.ok:
                        want = ["err transport"]
                    elif h.unsol:
                        want = ["err timeout"]
                    else:
                        is_read = m.get("kind") == "read"
                        if h.iin2_bad:
                            want = ["err rejected:%02x%02x" % (h.iin1, h.iin2)]
                        elif is_read:
                            want = ["ok"] if pv == "ok" else ["err malformed"]
                            if pre is not None and not (h.fir == (pre.frags == 0)):
                                want = ["err unexpected_fir", "err never_fir"]
                            elif not h.fin and not h.con:
                                want = ["err non_fin_without_con"]
                            if removed:
                                want = ["err no_association"]
                        elif not (h.fir and h.fin):
                            want = ["err multi_fragment"]
                        elif removed:
                            want = ["err no_association"]
                        elif m.get("kind") in ("do", "sbo"):
                            sent = sent_headers(tok)
                            if pv != "ok":
                                want = ["err malformed"]
                            elif faithful(sent, h.objs):
                                # a NaN set-point never compares equal to its own echo (IEEE ==): the command is
                                # reported as failed although it was echoed octet for octet; the property only
                                # forbids unwarranted SUCCESS, so this is accepted (reported as a remark)
                                want = ["ok", "err object_value"] if has_nan(sent) else ["ok"]
                            else:
                                lab = labels.get(str(k))
                                want = ["err " + lab[1]] if lab and lab[1] and lab[2] == tok and lab[1] not in ("ok", "operate") and not has_nan(sent) else None
                                if res[0] == "ok":
                                    sig = "zero-sign" if only_zero_sign_differs(sent, h.objs) else "other"
                                    fails.append(("success-unfaithful-echo/" + sig,
                                                  "the command reported success although the reply is not a faithful echo: " + where))
                                    continue
                                if want is None:
                                    if res[0] != "err":
                                        fails.append(("mismatch-is-error", "unfaithful echo, outcome `%s`: %s" % (text, where)))
                                    continue
                        elif m.get("kind") in ("cold_restart", "warm_restart"):
                            o = h.objs
                            if pv == "ok" and len(o) == 6 and o[0] == 52 and o[1] in (1, 2) and o[2] == 7 and o[3] == 1:
                                want = ["ok %d" % ((o[4] + 256 * o[5]) * (1000 if o[1] == 1 else 1))]
                            elif pv == "ok" and len(o) == 7 and o[0] == 52 and o[1] in (1, 2) and o[2] == 8 and o[3] == 1 and o[4] == 0:
                                want = ["ok %d" % ((o[5] + 256 * o[6]) * (1000 if o[1] == 1 else 1))]
                            else:
                                want = ["err bad_headers"]
                        else:
                            want = ["ok"] if len(h.objs) == 0 else ["err bad_headers"]
                    if text not in want:
                        fails.append(("corresponding-error" if res[0] == "err" or want != ["ok"] else "mismatch-is-error",
                                      "outcome `%s`, expected %s: %s" % (text, " / ".join("`%s`" % x for x in want), where)))
                    if res[0] == "ok":
                        # success needs the matching response (sequence, source)
                        if not (pre is not None and not pre.link and int(op[1]) == ADDR and h.seq == pre.expected()):
                            fails.append(("success-needs-answer", "success on a fragment that is not the answer: " + where))
                        if m.get("kind") == "sbo" and not select_ok.get(tok):
                            fails.append(("success-unfaithful-echo/select", "select-before-operate succeeded without a faithful SELECT echo: " + where))
                    continue
                if op[0] in ("sleep", "user", "enable", "connect", "remove") or (op[0] == "rx" and not was_running):
                    # only the passing of time can have ended it
                    want = ["err timeout", "err write_error"]
                    if text not in want:
                        fails.append(("corresponding-error", "outcome `%s` without a cause (expected a timeout): %s" % (text, where)))
                    if text == "err write_error" and not (m.get("size", 0) > txsize):
                        fails.append(("corresponding-error", "write_error for a request that fits the transmit buffer: " + where))

        # exactly one outcome for every request of the script
        if not stopped or True:
            for tok in submitted:
                n = len(outcomes.get(tok, []))
                if n > 1:
                    fails.append(("one-outcome", "request %s completed %d times: %s" % (tok, n, outcomes[tok])))
                if n == 0:
                    fails.append(("one-outcome", "request %s (%s) never completed although the script waits for every "
                                  "outstanding step to time out" % (tok, tokmeta.get(tok, {}).get("kind"))))
        for tok in outcomes:
            if tok not in submitted:
                fails.append(("one-outcome", "an outcome for a request that was never made: " + tok))

        # every protocol step ends within one response timeout
        flat = [(t, w) for g in [init] + groups for t, w in g if t >= 0]
        step_start = None
        for t, w in flat:
            boundary = False
            starts = False
            if w[0] == "tx" and len(w) == 3 and w[2] != "-" and len(bytes.fromhex(w[2])) >= 2 and bytes.fromhex(w[2])[1] != 0:
                boundary = starts = True
            elif w[0] == "tx-link-status-request":
                boundary = starts = True
            elif w[0] == "cb" and w[1] == "begin" and w[2] != "unsol":
                boundary = starts = True
            elif w[0] == "info" and w[1] in ("task_success", "task_fail"):
                boundary = True
            elif w[0] == "res" and w[1] in link_tokens:
                boundary = True
            elif w[0] == "chan" and w[1] == "run_end":
                boundary = True
            if boundary and step_start is not None:
                if t - step_start[0] > timeout:
                    fails.append(("bounded-steps", "a protocol step started at %d ms (%s) was still outstanding at %d ms, "
                                  "response timeout %d ms" % (step_start[0], " ".join(step_start[1])[:40], t, timeout)))
                step_start = None
            if starts:
                step_start = (t, w)
        fails += tr.errors[:1]
        if step_start is not None and last_t - step_start[0] > timeout and not stopped:
            fails.append(("bounded-steps", "a protocol step started at %d ms never ended (trace ends at %d ms)" % (step_start[0], last_t)))
        return fails

    def nontrivial(self, case, impl):
        return any(" res " in l for l in impl)

    def finding_signature(self, case, clause, desc):
        return clause


PROP = C16()
