"""C19 — Master scheduling: requests first and in order, polls on period, one at a time.

Generator, trace parser and timeline are shared with C17 (tools/props/c17.py); this module adds
the scripts' `sched` flavour (1..4 associations, polls with arbitrary periods, user requests at
arbitrary virtual times, prompt / late / missing responses, keep-alive, enable/disable) and the
direct oracle of C19."""
from propcheck import *
import c17
from c17 import *

MAX_POLLS_PER_MS = 64      # polls of the master task within one virtual millisecond (busy-loop bound)


def class_mask(req):
    """class mask of a READ request fragment (bit0 = class 1, bit1 = class 2, bit2 = class 3, bit3 = class 0)"""
    m, b = 0, req[2:]
    while len(b) >= 3 and b[0] == 0x3C and b[2] == 0x06:
        m |= {2: 1, 3: 2, 4: 4, 1: 8}.get(b[1], 0)
        b = b[3:]
    return m


def c19_oracle(case, impl):
    fails = machinery_failures(impl)
    for l in impl:
        if l.startswith("wakes ") and int(l.split()[1]) > MAX_POLLS_PER_MS:
            fails.append(("no-busy-loop", "the master task was polled %s times within one virtual millisecond" % l.split()[1]))
    if not any(l.startswith("conn") for l in impl):
        return fails
    tl = Timeline(case, impl)
    n = tl.n

    def bad(clause, text, e):
        fails.append((clause, "%s [%s]" % (text, e.line if e is not None else "-")))

    # ---- ground truth from the script ------------------------------------------------------------
    res_of = {int(e.f[2]): e for e in tl.res}
    submitted = []                    # accepted user requests so far: (a, token, kind, t_sub)
    polls = {}                        # (a, mask) -> dict(period, last (completion or creation), idx, ...)
    npolls = [0] * n
    demands = []                      # (t, a, index) in the order they were issued

    # ---- replay of the notifications ----------------------------------------------------------------
    pending = [[] for _ in range(n)]      # queued user requests per association, oldest first
    ring = list(range(n))
    open_task = None                      # (a, type, t) of the application task in progress
    link_until = None                     # a link status task occupies the channel until then
    last_rx = [0] * n                     # last link activity per association (registration at 0)
    connected = False
    open_poll = {}                        # a -> (a, mask) of the poll in progress

    def drop_answered(t):
        # requests answered without ever starting (start refused, or flushed when the session closed)
        for a in range(n):
            pending[a][:] = [p for p in pending[a] if not (p[0] in res_of and res_of[p[0]].t < t and not p[0] in started)]

    started = set()
    for pos, e in enumerate(tl.stream0):
        if e.kind == "conn":
            connected = True
            continue
        if e.kind == "closed":
            connected = False
            open_task = None; link_until = None; open_poll.clear()
            for p in polls.values(): p["clean"] = False
            continue
        if e.kind == "op":
            o = e.f[2:]
            if o[0] == "user":
                a, tok, kind = int(o[1]), int(o[2]), o[3]
                r = res_of.get(tok)
                if not (r is not None and r.t == e.t and r.f[3] == "err" and r.f[4] in ("too-many-requests", "no-connection")):
                    pending[a].append((tok, USER_KIND_OF[kind], e.t))
                    submitted.append((a, tok, USER_KIND_OF[kind], e.t))
            elif o[0] == "add_poll":
                a = int(o[1])
                polls[(a, int(o[3]) & 15)] = {"period": int(o[2]), "last": e.t, "idx": npolls[a], "clean": connected,
                                             "quiet_since": None, "dem": []}
                npolls[a] += 1
            elif o[0] == "demand":
                for key, p in polls.items():
                    if key[0] == int(o[1]) and p["idx"] == int(o[2]):
                        p["dem"].append(e.t)
            continue
        if e.kind == "rx":
            f = tl.rx.get(id(e))
            src = int(e.f[2])
            if link_until is not None and e.t < link_until[0]:
                link_until = (e.t, link_until[1])      # a fragment ends the wait for LINK_STATUS
            if f is not None and tl.known(src):
                last_rx[src - 1024] = e.t
            continue
        is_start = e.kind == "txlink" or (e.kind == "info" and e.f[3] == "start")
        if is_start:
            a = int(e.f[2])
            kind = "link" if e.kind == "txlink" else e.f[4]
            drop_answered(e.t)
            # ---- at most one request outstanding
            if open_task is not None:
                bad("one-outstanding", "%s of association %d started while %s of association %d (started at %d) was outstanding"
                    % (kind, a, open_task[1], open_task[0], open_task[2]), e)
            if link_until is not None and e.t < link_until[0]:
                bad("one-outstanding", "%s of association %d started at %d while the link status request of association %d was outstanding until %d"
                    % (kind, a, e.t, link_until[1], link_until[0]), e)
            # ---- is it a user request?
            # requests answered at this very instant without having started were dropped just before
            for b in range(n):
                while pending[b] and pending[b][0][0] in res_of and res_of[pending[b][0][0]].t == e.t \
                        and not (b == a and pending[b][0][1] == kind):
                    pending[b].pop(0)
            head = pending[a][0] if pending[a] else None
            user = head is not None and head[1] == kind
            older = [b for b in ring if pending[b]]
            if user:
                started.add(head[0])
                # ---- associations take turns: the ring decides among those that were waiting
                if a in older and older[0] != a:
                    bad("round-robin", "user request of association %d served while association %d, ahead in the ring, was waiting since %d"
                        % (a, older[0], pending[older[0]][0][2]), e)
                # ---- FIFO within the association is the matching against the head; a request that
                # overtakes shows up as a kind mismatch or as a never-matched head below
                pending[a].pop(0)
            else:
                if older:
                    b = older[0]
                    bad("user-before-polls", "%s of association %d started although user request %d of association %d was waiting since %d"
                        % (kind, a, pending[b][0][0], b, pending[b][0][2]), e)
                if kind == "link":
                    c = tl.assocs[a]
                    if c.ka == 0:
                        bad("keepalive", "link status request to association %d although no keep-alive is configured" % a, e)
                    elif e.t < last_rx[a] + c.ka:
                        bad("keepalive", "keep-alive to association %d at %d, only %d ms after its last activity at %d (timeout %d)"
                            % (a, e.t, e.t - last_rx[a], last_rx[a], c.ka), e)
                if kind == "poll":
                    # the READ requests written at this instant, in order, belong to the READ tasks started
                    # at this instant, in order
                    reads = [b for b in tl.tx_at(e.t) if len(b) >= 2 and b[1] == 1]
                    nth = sum(1 for x in tl.stream0[:pos] if x.t == e.t and x.kind == "info" and x.f[3] == "start" and x.f[5] == "1")
                    req = reads[nth:nth + 1]
                    key = (a, class_mask(req[0])) if req and (req[0][0] & 15) == int(e.f[6]) else None
                    p = polls.get(key)
                    if p is not None:
                        open_poll[a] = key
                        due = p["last"] + p["period"]
                        dem = [t for t in p["dem"] if p["last"] <= t <= e.t]
                        if e.t < due and not dem:
                            bad("poll-cadence", "poll %d of association %d started at %d, %d ms after its previous completion at %d (period %d)"
                                % (p["idx"], a, e.t, e.t - p["last"], p["last"], p["period"]), e)
                        # ---- not starved: nothing else ran since its completion -> it starts when due
                        if p["clean"] and not tl.silent_tsync and p.get("quiet_since") == p["last"]:
                            want = max(p["last"], min([due] + dem))
                            if e.t > want and e.t > p["last"]:
                                bad("poll-not-starved", "poll %d of association %d due at %d started only at %d although the channel was idle"
                                    % (p["idx"], a, want, e.t), e)
            # the ring: the served association moves to the back (a task that starts at t = 0 starts
            # while the associations are still being registered: it is then the last of the ring)
            if e.t > 0:
                ring.remove(a); ring.append(a)
            for p in polls.values():
                p["quiet_since"] = None
            if kind == "link":
                link_until = (e.t + tl.assocs[a].rto, a)
            else:
                open_task = (a, kind, e.t)
                link_until = None
            continue
        if e.kind == "info" and e.f[3] in ("ok", "fail"):
            a, kind = int(e.f[2]), e.f[4]
            if open_task is None or open_task[0] != a or open_task[1] != kind:
                bad("one-outstanding", "%s of association %d ended but it was not the outstanding request" % (kind, a), e)
            open_task = None
            if kind == "poll" and a in open_poll:
                p = polls[open_poll.pop(a)]
                p["last"] = e.t
                p["clean"] = connected
                p["quiet_since"] = e.t
            continue
    # requests that were overtaken never reach the head: they stay pending although later ones ran
    for a in range(n):
        for tok, kind, ts in pending[a]:
            later = [t2 for (a2, tok2, k2, t2) in submitted if a2 == a and tok2 in started and t2 > ts]
            if later and tok not in res_of:
                fails.append(("user-fifo", "user request %d of association %d (submitted at %d) was overtaken by a later one" % (tok, a, ts)))
    seen, out = set(), []
    for c_, d in fails:
        if c_ not in seen:
            seen.add(c_); out.append((c_, d))
    return out


class C19(c17.C17):
    id = "C19"
    translators = ["gen_master_tables"]
    proof_targets = ["Master/SchedProofs.vo", "Master/TablesAgree.vo"]
    property_file = "Properties/C19.v"
    flavour = "sched"
    rule = ("msched scripts: 1..4 quiet or fully automatic associations on one channel, up to three polls per "
            "association with periods 0..1000 ms, user requests (read, empty-response request, link status, time "
            "synchronisation) at arbitrary virtual times including while another task is outstanding, responses "
            "derived from the model state then perturbed or withheld until time-out, demands, keep-alive, "
            "disable/enable/reconnect; a share of the scripts also counts the polls of the master task per virtual "
            "millisecond; non-trivial = at least one task start besides the first")

    def cases(self, rng, tier):
        out = c17.C17.cases(self, rng, tier)
        # a share of the scripts also reports how often the master task was polled per virtual ms
        for k, c in enumerate(out):
            if k % 4 == 0 and c.script.startswith("S "):
                head, rest = c.script.split("\n", 1)
                c.script = head + " wakes=1\n" + rest
        return out

    def oracle(self, case, impl):
        return c19_oracle(case, impl)


PROP = C19()
