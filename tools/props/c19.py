"""C19 — Master scheduling: requests first and in order, polls on period, one at a time."""
from propcheck import *
import c17
from c17 import *


class C19(c17.C17):
    id = "C19"
    proof_targets = ["Master/SchedProofs.vo"]
    property_file = "Properties/C19.v"
    flavour = "sched"

    def oracle(self, case, impl):
        return machinery_failures(impl)


PROP = C19()
