"""C11 — A READ is answered with a complete, consistent snapshot as an orderly series.
Database-layer part: static selection and the series of writes (engine `db`)."""
from propcheck import *
import dbcommon as D


class C11(Prop):
    id = "C11"
    # gen_session_tables: ReadHeader::get and the database defaults (theorems C11_tables_*, Outstation/TablesAgree.v)
    translators = ["gen_variations", "gen_qualifiers", "gen_functions", "gen_session_tables"]
    proof_targets = ["Outstation/StaticDbProofs.vo"]
    property_file = "Properties/C11.v"
    theorems = []
    own_clauses = ("C11", "ALL")
    modelled = ("modelled by hand: outstation/database/details/range/{static_db,writer,traits}.rs, details/database.rs, "
                "database/read.rs (coq/Outstation/{DbTypes,StaticDb,Database}.v); BTreeMap abstracted to an ascending "
                "association list; g1 g3 g10 g20 g21 g30 g40 g110 byte-exact; g34, g0 and frozen analogs not modelled")
    rule = ("db-engine op lists: databases of mixed types with sparse or dense indices, selections (class 0, all objects, "
            "8/16-bit ranges, specific variations), series of writes with budgets 0..everything fits, updates between "
            "the writes; the oracle decodes every fragment and compares the concatenation with its own snapshot; "
            "non-trivial = a series of at least two fragments carrying static objects")

    def cases(self, rng, tier):
        n = 400 if tier == "quick" else 6000
        return self.cases_db(rng, n)

    def cases_db(self, rng, n):
        out = []
        for i in range(n):
            sid = "c11_%d" % i
            w = D.gen_static_script(rng, sid)
            out.append(Case(sid, D.world_script(sid, w), {"kind": "db-static"}))
        return out

    def oracle(self, case, impl):
        if not case.script.split("\n", 1)[0].split()[2] == "db":
            return []
        lg = D.replay(case.script, impl)
        case.meta["stats"] = lg.stats
        return [(clause, text) for (p, clause, text) in lg.fails if p in self.own_clauses]

    def nontrivial(self, case, impl):
        st = case.meta.get("stats")
        if st is None:
            st = D.replay(case.script, impl).stats
        return st["partial_fragments"] > 0 and st["static_objs"] > 1

    def finding_signature(self, case, clause, desc):
        return "%s/%s" % (clause, case.meta.get("kind"))


import sessmix
PROP = sessmix.attach(C11(), sessmix.c11_cases, sessmix.c11_oracle, 120, 3000,
                      extra_targets=["Outstation/SessionC11Proofs.vo", "Outstation/TablesAgree.vo"])
