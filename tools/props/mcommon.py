"""Shared by c15.py and c16.py (engine `master`): independent encoders for response fragments,
measurement objects and command objects, script building blocks, and a TRACE-DRIVEN tracker that
reconstructs from the implementation's own trace which request was outstanding when each fragment
arrived.  Nothing here is derived from the Coq model or from /repo."""
import struct
from propcheck import *

ADDR = 1024          # the outstation of the association
FOREIGN = [1, 1023, 1025, 10, 65519]


# --------------------------------------------------------------------------------------------
# fragments

def ctrl(fir, fin, con, uns, seq):
    return (0x80 if fir else 0) | (0x40 if fin else 0) | (0x20 if con else 0) | (0x10 if uns else 0) | (seq & 15)


def response(c, iin1=0, iin2=0, objs=b"", func=0x81):
    return bytes([c, func, iin1, iin2]) + objs


class Hdr:
    """the application header of a received fragment as the property sees it"""
    def __init__(self, frag):
        self.ok = False
        self.frag = frag
        if len(frag) < 4 or frag[1] not in (0x81, 0x82):
            return
        c = frag[0]
        self.fir, self.fin, self.con, self.uns, self.seq = bool(c & 0x80), bool(c & 0x40), bool(c & 0x20), bool(c & 0x10), c & 15
        self.unsol = frag[1] == 0x82
        self.iin1, self.iin2 = frag[2], frag[3]
        self.objs = frag[4:]
        if self.unsol:
            self.ok = self.uns and self.fir and self.fin
        else:
            self.ok = not self.uns
        self.iin2_bad = bool(self.iin2 & 7)
        self.hdr_hex = frag[:4].hex()


def f64_bits(x):
    return struct.unpack(">Q", struct.pack(">d", float(x)))[0]


class Objs:
    """an object section built header by header: bytes, the items extract_measurements delivers,
    and the positions at which a cut leaves a malformed section"""
    def __init__(self):
        self.data = b""
        self.items = []
        self.safe_cuts = [0]      # cutting here leaves a well-formed (shorter) section

    def _add(self, data, items):
        self.data += data
        self.items += items
        self.safe_cuts.append(len(self.data))

    def g1v2(self, start, flags, wide=False):
        n = len(flags)
        hdr = bytes([1, 2, 1 if wide else 0]) + (struct.pack("<HH", start, start + n - 1) if wide else bytes([start, start + n - 1]))
        q = "01" if wide else "00"
        self._add(hdr + bytes(flags), ["bi/g1v2/%s/e0f1/%d=%d,%02x,n" % (q, start + i, f >> 7, f) for i, f in enumerate(flags)])

    def g30v1(self, start, vals):
        n = len(vals)
        body = b"".join(bytes([f]) + struct.pack("<i", v) for f, v in vals)
        self._add(bytes([30, 1, 0, start, start + n - 1]) + body,
                  ["ai/g30v1/00/e0f1/%d=%016x,%02x,n" % (start + i, f64_bits(v), f) for i, (f, v) in enumerate(vals)])

    def g30v2(self, start, vals):
        n = len(vals)
        body = b"".join(bytes([f]) + struct.pack("<h", v) for f, v in vals)
        self._add(bytes([30, 2, 0, start, start + n - 1]) + body,
                  ["ai/g30v2/00/e0f1/%d=%016x,%02x,n" % (start + i, f64_bits(v), f) for i, (f, v) in enumerate(vals)])

    def g20v1(self, start, vals):
        n = len(vals)
        body = b"".join(bytes([f]) + struct.pack("<I", v) for f, v in vals)
        self._add(bytes([20, 1, 0, start, start + n - 1]) + body,
                  ["ctr/g20v1/00/e0f1/%d=%d,%02x,n" % (start + i, v, f) for i, (f, v) in enumerate(vals)])

    def g2v1(self, entries):
        body = b"".join(bytes([i, f]) for i, f in entries)
        self._add(bytes([2, 1, 0x17, len(entries)]) + body,
                  ["bi/g2v1/17/e1f1/%d=%d,%02x,n" % (i, f >> 7, f) for i, f in entries])

    def g2v2(self, entries):
        body = b"".join(struct.pack("<H", i) + bytes([f]) + t.to_bytes(6, "little") for i, f, t in entries)
        self._add(bytes([2, 2, 0x28]) + struct.pack("<H", len(entries)) + body,
                  ["bi/g2v2/28/e1f1/%d=%d,%02x,s%d" % (i, f >> 7, f, t) for i, f, t in entries])

    def g32v1(self, entries):
        body = b"".join(struct.pack("<H", i) + bytes([f]) + struct.pack("<i", v) for i, f, v in entries)
        self._add(bytes([32, 1, 0x28]) + struct.pack("<H", len(entries)) + body,
                  ["ai/g32v1/28/e1f1/%d=%016x,%02x,n" % (i, f64_bits(v), f) for i, f, v in entries])

    def g110(self, start, strings):
        ln = len(strings[0])
        body = b"".join(strings)
        self._add(bytes([110, ln, 0, start, start + len(strings) - 1]) + body,
                  ["octet/g110v%d/00/e0f0/%d=%s" % (ln, start + i, s.hex()) for i, s in enumerate(strings)])


def rand_objs(rng, max_headers=3):
    o = Objs()
    for _ in range(rng.range(1, max_headers)):
        k = rng.below(8)
        n = rng.range(1, 4)
        if k == 0:
            o.g1v2(rng.below(200), [rng.choice([0x01, 0x81, 0x00, 0x83, 0x41]) for _ in range(n)])
        elif k == 1:
            o.g1v2(rng.range(250, 60000), [rng.choice([0x01, 0x81]) for _ in range(n)], wide=True)
        elif k == 2:
            o.g30v1(rng.below(200), [(rng.choice([1, 0x21, 0]), rng.choice([0, 1, -1, 2147483647, -2147483648, rng.range(-100000, 100000)])) for _ in range(n)])
        elif k == 3:
            o.g30v2(rng.below(200), [(1, rng.choice([0, -1, 32767, -32768, rng.range(-3000, 3000)])) for _ in range(n)])
        elif k == 4:
            o.g20v1(rng.below(200), [(1, rng.choice([0, 1, 4294967295, rng.below(100000)])) for _ in range(n)])
        elif k == 5:
            o.g2v1([(rng.below(256), rng.choice([0x01, 0x81])) for _ in range(n)])
        elif k == 6:
            o.g2v2([(rng.below(65536), rng.choice([0x01, 0x81]), rng.choice([0, 1, 0xFFFFFFFFFFFF, rng.below(2 ** 40)])) for _ in range(n)])
        else:
            o.g32v1([(rng.below(65536), 1, rng.range(-1000, 1000)) for _ in range(n)])
    return o


def malformed(rng, o):
    """a malformed variant of a well-formed object section"""
    k = rng.below(4)
    if k == 0 or len(o.data) < 2:
        return bytes([rng.choice([5, 9, 200, 255]), 1, 6])          # unknown group
    if k == 1:
        cuts = [c for c in range(1, len(o.data)) if c not in o.safe_cuts]
        return o.data[:rng.choice(cuts)]                       # truncated inside a header or object
    if k == 2:
        return o.data + bytes([1, 2, 0, 5])                    # dangling partial header
    return o.data + bytes([1, 2, 0x5B, 1, 0])                  # qualifier not valid for the variation


# --------------------------------------------------------------------------------------------
# command objects

CMD_SIZES = {(12, 1): 11, (41, 1): 5, (41, 2): 3, (41, 3): 5, (41, 4): 9}
F32_SPECIAL = [0x00000000, 0x80000000, 0x3F800000, 0x7F800000, 0xFF800000, 0x7FC00000, 0x00000001, 0x42280000]
F64_SPECIAL = [0x0, 0x8000000000000000, 0x3FF0000000000000, 0x7FF0000000000000, 0x7FF8000000000000, 0x1, 0x4045000000000000]


def cmd_object(rng, g, v, status=0):
    if (g, v) == (12, 1):
        code = rng.choice([0x01, 0x03, 0x04, 0x41, 0x81, 0x00, 0xFF, rng.below(256)])
        return bytes([code, rng.choice([1, 0, 255]), ]) + struct.pack("<II", rng.choice([0, 100, 4294967295]), rng.choice([0, 10, 65536])) + bytes([status])
    if (g, v) == (41, 1):
        return struct.pack("<i", rng.choice([0, 1, -1, 2147483647, -2147483648, rng.range(-9999, 9999)])) + bytes([status])
    if (g, v) == (41, 2):
        return struct.pack("<h", rng.choice([0, 1, -1, 32767, -32768, rng.range(-999, 999)])) + bytes([status])
    if (g, v) == (41, 3):
        bits = rng.choice(F32_SPECIAL) if rng.chance(1, 2) else rng.below(2 ** 32)
        return struct.pack("<I", bits) + bytes([status])
    bits = rng.choice(F64_SPECIAL) if rng.chance(1, 2) else rng.below(2 ** 64)
    return struct.pack("<Q", bits) + bytes([status])


def rand_command(rng, max_headers=3, max_items=3):
    """list of headers (g, v, wide, [(index, object bytes)])"""
    hs = []
    for _ in range(rng.range(1, max_headers)):
        g, v = rng.choice(list(CMD_SIZES))
        wide = rng.chance(1, 2)
        items = []
        for _ in range(rng.range(1, max_items)):
            idx = rng.choice([0, 1, 255, rng.below(256)]) if not wide else rng.choice([0, 255, 256, 65535, rng.below(65536)])
            items.append((idx, cmd_object(rng, g, v)))
        hs.append((g, v, wide, items))
    return hs


def encode_headers(hs):
    out = b""
    for g, v, wide, items in hs:
        out += bytes([g, v, 0x28 if wide else 0x17])
        out += struct.pack("<H", len(items)) if wide else bytes([len(items)])
        for idx, obj in items:
            out += (struct.pack("<H", idx) if wide else bytes([idx])) + obj
    return out


def header_tokens(hs):
    return ["%d.%d/%d/%s" % (g, v, 16 if wide else 8,
                             ",".join("%d=%s" % (i, o.hex()) for i, o in items) if items else "-")
            for g, v, wide, items in hs]


def parse_command_headers(data):
    """independent reader of an echo: list of (g, v, wide, items) until something that is not a
    command header; returns (headers, clean) with clean = the whole section was consumed"""
    hs = []
    p = 0
    while p < len(data):
        if p + 3 > len(data):
            return hs, False
        g, v, q = data[p], data[p + 1], data[p + 2]
        if (g, v) not in CMD_SIZES or q not in (0x17, 0x28):
            return hs, False
        wide = q == 0x28
        p += 3
        w = 2 if wide else 1
        if p + w > len(data):
            return hs, False
        count = int.from_bytes(data[p:p + w], "little")
        p += w
        items = []
        size = CMD_SIZES[(g, v)]
        for _ in range(count):
            if p + w + size > len(data):
                return hs, False
            items.append((int.from_bytes(data[p:p + w], "little"), data[p + w:p + w + size]))
            p += w + size
        hs.append((g, v, wide, items))
    return hs, True


def faithful(sent, echo_bytes):
    """the reply echoes every requested object with identical contents and status SUCCESS
    (identical = the same octets)"""
    hs, clean = parse_command_headers(echo_bytes)
    if not clean or len(hs) != len(sent):
        return False
    for (g, v, wide, items), (g2, v2, wide2, items2) in zip(sent, hs):
        if (g, v, wide) != (g2, v2, wide2) or len(items) != len(items2):
            return False
        for (i, o), (i2, o2) in zip(items, items2):
            if i != i2 or o != o2 or o2[-1] != 0:
                return False
    return True


def only_zero_sign_differs(sent, echo_bytes):
    """the echo differs from the request only in the sign bit of floating point zeros"""
    hs, clean = parse_command_headers(echo_bytes)
    if not clean or len(hs) != len(sent):
        return False
    diff = False
    for (g, v, wide, items), (g2, v2, wide2, items2) in zip(sent, hs):
        if (g, v, wide) != (g2, v2, wide2) or len(items) != len(items2):
            return False
        for (i, o), (i2, o2) in zip(items, items2):
            if i != i2 or o2[-1] != 0 or o[-1] != 0:
                return False
            if o == o2:
                continue
            if (g, v) in ((41, 3), (41, 4)):
                a = int.from_bytes(o[:-1], "little")
                b = int.from_bytes(o2[:-1], "little")
                top = 1 << (8 * (len(o) - 1) - 1)
                if (a & ~top) == 0 and (b & ~top) == 0:
                    diff = True
                    continue
            return False
    return diff


def has_nan(sent):
    for g, v, wide, items in sent:
        for i, o in items:
            if (g, v) == (41, 3):
                b = int.from_bytes(o[:4], "little")
                if (b >> 23) & 0xFF == 0xFF and b & 0x7FFFFF:
                    return True
            if (g, v) == (41, 4):
                b = int.from_bytes(o[:8], "little")
                if (b >> 52) & 0x7FF == 0x7FF and b & ((1 << 52) - 1):
                    return True
    return False


# --------------------------------------------------------------------------------------------
# scripts

class Script:
    """ops of one script plus what the generator intends each op to be (used for the liveness
    clauses only; every safety clause is judged from the trace)"""
    def __init__(self, sid, cfg=None):
        self.sid = sid
        self.cfg = dict(cfg or {})
        self.ops = []
        self.intent = {}       # op index -> "complete" | "continue" | "deliver"
        self.tokens = {}       # token -> {"kind":..., "headers": [...]}
        self.seq = 0           # predicted Association::seq
        self.last_unsol = None # the unsolicited fragment the generator expects to have been accepted last
        self.ntok = 0

    def rx(self, frag, verdict="ok", items=(), src=ADDR, intent=None):
        if len(frag) >= 4 and frag[1] == 0x82 and src == ADDR and verdict == "ok":
            # an unsolicited fragment equal to the one accepted last is a repeat, not a delivery
            if intent == "deliver" and frag == self.last_unsol:
                intent = None
            if intent == "deliver" or len(frag) == 4:
                self.last_unsol = frag
        if intent:
            self.intent[len(self.ops)] = intent
        self.ops.append(["rx", src, hexs(frag), verdict] + list(items))

    def sleep(self, ms):
        self.ops.append(["sleep", ms])

    def op(self, name):
        self.ops.append([name])

    def token(self):
        self.ntok += 1
        return "t%d" % self.ntok

    def user(self, kind, *args, meta=None):
        tok = self.token()
        self.tokens[tok] = dict(meta or {}, kind=kind, op=len(self.ops))
        self.ops.append(["user", tok, kind] + list(args))
        return tok

    def take_seq(self):
        s = self.seq
        self.seq = (self.seq + 1) & 15
        return s

    def case(self, kind, extra=None):
        meta = {"kind": kind, "cfg": self.cfg, "intent": {str(k): v for k, v in self.intent.items()},
                "tokens": {t: {k: (v if k != "headers" else [[g, vv, w, [[i, o.hex()] for i, o in its]] for g, vv, w, its in v])
                               for k, v in m.items()} for t, m in self.tokens.items()}}
        meta.update(extra or {})
        return Case(self.sid, script_text(self.sid, "master", self.cfg, [tuple(o) for o in self.ops]), meta)


def meta_headers(m):
    return [(g, v, w, [(i, bytes.fromhex(o)) for i, o in its]) for g, v, w, its in m]


# --------------------------------------------------------------------------------------------
# trace

def parse_script(text):
    lines = text.strip().splitlines()
    head = lines[0].split()
    cfg = dict(kv.split("=", 1) for kv in head[3:])
    ops = [l.split() for l in lines[1:-1]]
    return cfg, ops


def split_trace(impl):
    """-> (lines before the first op, [lines of op 0, lines of op 1, ...]); a line is (t, [words])"""
    init, groups = [], []
    cur = init
    for l in impl:
        w = l.split()
        if len(w) >= 2 and w[0].isdigit():
            t = int(w[0])
            if w[1] == "op":
                cur = []
                groups.append(cur)
                continue
            cur.append((t, w[1:]))
        else:
            cur.append((-1, w))
    return init, groups


class Outstanding:
    def __init__(self, fc, seq, t, objs):
        self.fc, self.seq, self.t, self.objs = fc, seq, t, objs
        self.frags = 0          # response fragments accepted so far (READ)
        self.last_progress = t
        self.is_read = fc == 1
        self.link = False

    def expected(self):
        return (self.seq + self.frags) & 15

    def copy(self):
        o = Outstanding(self.fc, self.seq, self.t, self.objs)
        o.frags, o.last_progress, o.link = self.frags, self.last_progress, self.link
        return o


class Tracker:
    """what can be read off the trace itself: the request that is outstanding, the last
    unsolicited fragment that was accepted, whether there is a connection"""
    def __init__(self, link_tokens=()):
        self.link_tokens = set(link_tokens)
        self.cur = None
        self.last_unsol = None
        self.connected = False
        self.select = None     # the SELECT whose OPERATE is outstanding
        self.next_seq = None   # sequence number the next request must carry
        self.errors = []

    def feed(self, t, w, frag=None):
        if w[0] == "tx" and len(w) == 3:
            data = bytes.fromhex(w[2]) if w[2] != "-" else b""
            if len(data) >= 2 and data[1] != 0:
                if self.next_seq is not None and (data[0] & 15) != self.next_seq:
                    self.errors.append(("request-sequence-fresh", "request %s carries sequence %d, the previous request and the "
                                        "fragments accepted since make %d the next number" % (w[2][:12], data[0] & 15, self.next_seq)))
                self.next_seq = ((data[0] & 15) + 1) & 15
                prev = self.cur
                self.cur = Outstanding(data[1], data[0] & 15, t, data[2:])
                if data[1] == 4 and prev is not None and prev.fc == 3:
                    self.select = prev
                else:
                    self.select = None
        elif w[0] == "tx-link-status-request":
            self.cur = Outstanding(-1, 0, t, b"")
            self.cur.link = True
        elif w[0] == "cb" and w[1] == "begin" and w[2] != "unsol":
            if self.cur is not None:
                self.cur.frags += 1
                self.cur.last_progress = t
            if len(w) > 3 and self.next_seq is not None and not (int(w[3][:2], 16) & 0x40):
                self.next_seq = (self.next_seq + 1) & 15       # a non-final fragment: the series goes on
        elif w[0] == "info" and w[1] in ("task_success", "task_fail"):
            self.cur = None
        elif w[0] == "res" and self.cur is not None and self.cur.link and w[1] in self.link_tokens:
            self.cur = None
        elif w[0] == "info" and w[1] == "unsolicited":
            self.last_unsol = frag
        elif w[0] == "chan":
            if w[1] == "connected":
                self.connected = True
            elif w[1] == "run_end":
                self.connected = False
                self.cur = None
                self.last_unsol = None


def machinery_failures(impl):
    out = []
    for l in impl:
        if l.startswith("panic") or l.startswith("harness-died") or l == "missing" or l.startswith("unknown-engine"):
            out.append(("no-panic", "master task panicked or the harness died: " + l[:200]))
    return out
